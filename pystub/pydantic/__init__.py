"""Minimal stand-in for pydantic: enough surface for the modules typeshare generates to import.
It checks nothing about the models; the point is that every name the generated module evaluates
at import time (bases, defaults, aliases, unions) resolves."""


class BaseModel:
    def __init__(self, **data):
        for k, v in data.items():
            setattr(self, k, v)


class _Marker:
    def __init__(self, *args, **kwargs):
        self.args = args
        self.kwargs = kwargs


def Field(*args, **kwargs):
    return _Marker(*args, **kwargs)


def ConfigDict(**kwargs):
    return dict(kwargs)


class BeforeValidator(_Marker):
    pass


class PlainSerializer(_Marker):
    pass
