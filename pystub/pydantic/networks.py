class AnyUrl(str):
    pass
