#!/usr/bin/env python3
"""Checks every *.py file of a directory with the real CPython front end:
   stage 1  ast.parse (syntax)
   stage 2  exec of the module with the stub pydantic on sys.path (names evaluated at import time resolve)
   Prints one JSON line per file."""
import ast, json, os, sys, types

def main():
    d = sys.argv[1]
    sys.path.insert(0, os.path.join(os.path.dirname(os.path.abspath(__file__)), "..", "pystub"))
    for name in sorted(os.listdir(d)):
        if not name.endswith(".py"):
            continue
        path = os.path.join(d, name)
        src = open(path, encoding="utf-8", errors="surrogateescape").read()
        res = {"file": name, "ok": True, "stage": "", "error": ""}
        try:
            tree = ast.parse(src, filename=name)
        except (SyntaxError, ValueError) as e:
            res.update(ok=False, stage="syntax", error=f"{type(e).__name__}: {getattr(e, 'msg', e)}")
            print(json.dumps(res)); continue
        try:
            mod = types.ModuleType("generated_" + name[:-3])
            mod.__dict__["__name__"] = mod.__name__
            sys.modules[mod.__name__] = mod
            exec(compile(tree, name, "exec"), mod.__dict__)
        except BaseException as e:  # NameError, TypeError, …
            res.update(ok=False, stage="import", error=f"{type(e).__name__}: {str(e)[:200]}")
        finally:
            sys.modules.pop("generated_" + name[:-3], None)
        print(json.dumps(res))

main()
