---- MODULE WalkCollect ----
EXTENDS Naturals, Sequences, FiniteSets
CONSTANTS Files, Outcome, Cap   \* Outcome: [Files -> {"some","none","err"}]
VARIABLES wstate,   \* per file (= per worker): "parsing" | "ready" | "done" | "panicked"
          chan,     \* sequence of <<file, kind>>
          cstate,   \* collector: "run" | "exited_ok" | "exited_err"
          folded,   \* sequence of files folded, in order
          firstErr, \* file whose Err the collector returned, or "-"
          txDropped
vars == <<wstate, chan, cstate, folded, firstErr, txDropped>>

Init == /\ wstate = [f \in Files |-> IF Outcome[f] = "none" THEN "done" ELSE "ready"]
        /\ chan = <<>> /\ cstate = "run" /\ folded = <<>> /\ firstErr = "-" /\ txDropped = FALSE

\* worker enters tx.send: succeeds if the receiver is alive and there is room,
\* panics (unwrap on SendError) if the receiver was dropped.
Send(f) == /\ wstate[f] = "ready"
           /\ \/ /\ cstate = "run" /\ Len(chan) < Cap
                 /\ chan' = Append(chan, <<f, Outcome[f]>>)
                 /\ wstate' = [wstate EXCEPT ![f] = "done"]
              \/ /\ cstate # "run"
                 /\ wstate' = [wstate EXCEPT ![f] = "panicked"]
                 /\ UNCHANGED chan
           /\ UNCHANGED <<cstate, folded, firstErr, txDropped>>

Recv == /\ cstate = "run" /\ Len(chan) > 0
        /\ LET m == Head(chan) IN
             IF m[2] = "err"
             THEN /\ cstate' = "exited_err" /\ firstErr' = m[1] /\ UNCHANGED folded
             ELSE /\ folded' = Append(folded, m[1]) /\ UNCHANGED <<cstate, firstErr>>
        /\ chan' = Tail(chan)
        /\ UNCHANGED <<wstate, txDropped>>

DropTx == /\ ~txDropped /\ \A f \in Files : wstate[f] \in {"done", "panicked"}
          /\ txDropped' = TRUE /\ UNCHANGED <<wstate, chan, cstate, folded, firstErr>>

CollectorEnd == /\ cstate = "run" /\ txDropped /\ Len(chan) = 0
                /\ cstate' = "exited_ok" /\ UNCHANGED <<wstate, chan, folded, firstErr, txDropped>>

Next == (\E f \in Files : Send(f)) \/ Recv \/ DropTx \/ CollectorEnd
Spec == Init /\ [][Next]_vars

NoWorkerPanic == \A f \in Files : wstate[f] # "panicked"
====
