CONSTANTS
  Files <- FilesC
  Outcome <- OutcomeC
  Cap = 100
INIT Init
NEXT Next
CHECK_DEADLOCK FALSE
