//! `#[verif_dump]`: re-emits the item unchanged and adds `pub const TOKENS: &str` holding a canonical
//! rendering of the item's token trees *as this macro received them*. Written below `#[typeshare]`,
//! it therefore records what the typeshare attribute macro emitted.
extern crate proc_macro;
use proc_macro::{Delimiter, TokenStream, TokenTree};

/// one token per word, single spaces, delimiters spelled out; independent of spans and spacing hints
fn canon(ts: TokenStream, out: &mut Vec<String>) {
    for tt in ts {
        match tt {
            TokenTree::Group(g) => {
                let (o, c) = match g.delimiter() {
                    Delimiter::Parenthesis => ("(", ")"),
                    Delimiter::Brace => ("{", "}"),
                    Delimiter::Bracket => ("[", "]"),
                    Delimiter::None => ("", ""),
                };
                if !o.is_empty() {
                    out.push(o.to_string());
                }
                canon(g.stream(), out);
                if !c.is_empty() {
                    out.push(c.to_string());
                }
            }
            TokenTree::Ident(i) => out.push(i.to_string()),
            TokenTree::Punct(p) => out.push(p.as_char().to_string()),
            TokenTree::Literal(l) => out.push(l.to_string()),
        }
    }
}

#[proc_macro_attribute]
pub fn verif_dump(_attr: TokenStream, item: TokenStream) -> TokenStream {
    let mut words = Vec::new();
    canon(item.clone(), &mut words);
    let text = words.join(" ");
    let mut out = item;
    let extra: TokenStream = format!("pub const TOKENS: &str = {text:?};").parse().expect("const");
    out.extend(extra);
    out
}
