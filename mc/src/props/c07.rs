//! C07 — the tool always terminates with output or a diagnostic; it never panics or hangs.
use super::common::{merge, require_nonvacuous, Acc};
use crate::cli;
use crate::explore::{explore, Chooser, Mode};
use crate::pipeline::{self, Cfg, Lang, Outcome, SrcFile, ALL_LANGS};
use crate::report::{self, Report, Violation};
use serde_json::json;

/// A production at the border of what the parsers index into.
#[derive(Clone, Copy, Debug)]
pub enum Sym {
    /// a type expression, planted at every type position
    Type(&'static str),
    /// a complete item
    Item(&'static str),
    /// attribute(s) on a struct field of type u32
    FieldAttr(&'static str),
    /// attribute(s) on a unit-enum variant
    VariantAttr(&'static str),
    /// attribute(s) on a struct item
    ItemAttr(&'static str),
    /// an identifier used as field name, variant name and type name, under every rename_all rule
    Ident(&'static str),
    /// a `use` declaration (matters in multi-file mode)
    Use(&'static str),
}

pub const SYMBOLS: &[(&str, Sym)] = &[
    ("vec-no-args", Sym::Type("Vec")),
    ("option-no-args", Sym::Type("Option")),
    ("hashmap-no-args", Sym::Type("HashMap")),
    ("hashmap-one-arg", Sym::Type("HashMap<String>")),
    ("box-no-args", Sym::Type("Box")),
    ("arc-no-args", Sym::Type("std::sync::Arc")),
    ("vec-lifetime-arg", Sym::Type("Vec<'static>")),
    ("vec-const-arg", Sym::Type("Vec<3>")),
    ("option-paren-args", Sym::Type("Option(u32)")),
    ("fn-pointer", Sym::Type("fn(u32) -> u32")),
    ("dyn-trait", Sym::Type("Box<dyn std::fmt::Debug>")),
    ("bare-dyn", Sym::Type("dyn std::fmt::Debug")),
    ("impl-trait", Sym::Type("impl std::fmt::Debug")),
    ("never", Sym::Type("!")),
    ("macro-type", Sym::Type("my_type!(u32)")),
    ("raw-pointer", Sym::Type("*const u8")),
    ("qself-path", Sym::Type("<Vec<u8> as IntoIterator>::Item")),
    ("infer", Sym::Type("_")),
    ("paren-type", Sym::Type("((u32))")),
    ("self-type", Sym::Type("Self")),
    ("leading-colons", Sym::Type("::std::string::String")),
    ("empty-generics", Sym::Type("Foo<>")),
    ("array-zero", Sym::Type("[u8; 0]")),
    ("array-nonliteral", Sym::Type("[u8; N]")),
    ("array-expr", Sym::Type("[u8; 1 + 1]")),
    ("array-overlong-literal", Sym::Type("[u8; 99999999999999999999999999]")),
    ("array-suffix-literal", Sym::Type("[u8; 4usize]")),
    ("offset-date-time", Sym::Type("OffsetDateTime")),
    ("generic-map-key", Sym::Type("HashMap<T, u32>")),
    ("unit-in-map-key", Sym::Type("HashMap<(), ()>")),
    ("nested-unit-option", Sym::Type("Option<Option<()>>")),
    // map keys a target language may not be able to express
    ("map-key-vec", Sym::Type("HashMap<Vec<String>, u32>")),
    ("map-key-map", Sym::Type("HashMap<HashMap<String, u32>, u32>")),
    ("map-key-array", Sym::Type("HashMap<[u8; 2], Vec<u32>>")),
    ("map-key-option-vec", Sym::Type("HashMap<Option<Vec<u8>>, u32>")),
    ("map-key-slice", Sym::Type("HashMap<&'static [u8], u32>")),
    ("map-key-bool-float", Sym::Type("HashMap<bool, HashMap<f64, char>>")),
    ("map-key-user", Sym::Type("HashMap<Base, BaseE>")),
    ("map-key-generic-user", Sym::Type("HashMap<Vec<Base>, Option<BaseE>>")),
    ("reference-mut", Sym::Type("&'static mut u32")),
    ("shadowed-std-name", Sym::Type("Vec<Vec>")),
    // reference shapes: cycles in which a type is mentioned more than once (the dependency walk must still terminate)
    ("recursive-two-self-fields", Sym::Item("#[typeshare]\npub struct EdgeTree { pub left: Option<Box<EdgeTree>>, pub right: Option<Box<EdgeTree>>, pub v: u32 }\n")),
    ("recursive-enum-two-self", Sym::Item("#[typeshare]\n#[serde(tag = \"t\", content = \"c\")]\npub enum EdgeExpr { Add { lhs: Box<EdgeExpr>, rhs: Box<EdgeExpr> }, Neg(Box<EdgeExpr>), Lit(u32) }\n")),
    ("mutual-recursion-twice", Sym::Item("#[typeshare]\npub struct EdgeMa { pub b1: Option<Box<EdgeMb>>, pub b2: Vec<EdgeMb> }\n#[typeshare]\npub struct EdgeMb { pub a1: Option<Box<EdgeMa>>, pub a2: Vec<EdgeMa> }\n")),
    ("recursive-via-alias", Sym::Item("#[typeshare]\npub type EdgeKids = Vec<EdgeNode>;\n#[typeshare]\npub struct EdgeNode { pub kids: EdgeKids, pub more: EdgeKids }\n")),
    // many items of each kind, half of them serde-renamed to names that sort differently from the Rust names (slices longer than
    // the standard sort's insertion-sort threshold are the only ones on which an inconsistent item order is noticed)
    ("many-items-mixed-renames", Sym::Item("#[typeshare]\n#[serde(rename = \"ManySR09\")]\npub struct ManyS05 { pub v: u32 }\n#[typeshare]\npub struct ManyS18 { pub v: u32 }\n#[typeshare]\n#[serde(rename = \"ManySR20\")]\npub struct ManyS22 { pub v: u32 }\n#[typeshare]\npub struct ManyS15 { pub v: u32 }\n#[typeshare]\n#[serde(rename = \"ManySR16\")]\npub struct ManyS07 { pub v: u32 }\n#[typeshare]\npub struct ManyS14 { pub v: u32 }\n#[typeshare]\n#[serde(rename = \"ManySR07\")]\npub struct ManyS23 { pub v: u32 }\n#[typeshare]\npub struct ManyS21 { pub v: u32 }\n#[typeshare]\n#[serde(rename = \"ManySR11\")]\npub struct ManyS06 { pub v: u32 }\n#[typeshare]\npub struct ManyS19 { pub v: u32 }\n#[typeshare]\n#[serde(rename = \"ManySR08\")]\npub struct ManyS13 { pub v: u32 }\n#[typeshare]\npub struct ManyS16 { pub v: u32 }\n#[typeshare]\n#[serde(rename = \"ManySR13\")]\npub struct ManyS08 { pub v: u32 }\n#[typeshare]\npub struct ManyS00 { pub v: u32 }\n#[typeshare]\n#[serde(rename = \"ManySR17\")]\npub struct ManyS09 { pub v: u32 }\n#[typeshare]\npub struct ManyS11 { pub v: u32 }\n#[typeshare]\n#[serde(rename = \"ManySR15\")]\npub struct ManyS03 { pub v: u32 }\n#[typeshare]\npub struct ManyS17 { pub v: u32 }\n#[typeshare]\n#[serde(rename = \"ManySR14\")]\npub struct ManyS02 { pub v: u32 }\n#[typeshare]\npub struct ManyS01 { pub v: u32 }\n#[typeshare]\n#[serde(rename = \"ManySR18\")]\npub struct ManyS20 { pub v: u32 }\n#[typeshare]\npub struct ManyS12 { pub v: u32 }\n#[typeshare]\n#[serde(rename = \"ManySR10\")]\npub struct ManyS04 { pub v: u32 }\n#[typeshare]\npub struct ManyS10 { pub v: u32 }\n#[typeshare]\n#[serde(rename = \"ManyER07\")]\npub enum ManyE10 { A, B }\n#[typeshare]\npub enum ManyE08 { A, B }\n#[typeshare]\n#[serde(rename = \"ManyER14\")]\npub enum ManyE20 { A, B }\n#[typeshare]\npub enum ManyE00 { A, B }\n#[typeshare]\n#[serde(rename = \"ManyER16\")]\npub enum ManyE23 { A, B }\n#[typeshare]\npub enum ManyE19 { A, B }\n#[typeshare]\n#[serde(rename = \"ManyER10\")]\npub enum ManyE21 { A, B }\n#[typeshare]\npub enum ManyE22 { A, B }\n#[typeshare]\n#[serde(rename = \"ManyER22\")]\npub enum ManyE04 { A, B }\n#[typeshare]\npub enum ManyE16 { A, B }\n#[typeshare]\n#[serde(rename = \"ManyER18\")]\npub enum ManyE14 { A, B }\n#[typeshare]\npub enum ManyE09 { A, B }\n#[typeshare]\n#[serde(rename = \"ManyER01\")]\npub enum ManyE07 { A, B }\n#[typeshare]\npub enum ManyE05 { A, B }\n#[typeshare]\n#[serde(rename = \"ManyER05\")]\npub enum ManyE12 { A, B }\n#[typeshare]\npub enum ManyE13 { A, B }\n#[typeshare]\n#[serde(rename = \"ManyER13\")]\npub enum ManyE15 { A, B }\n#[typeshare]\npub enum ManyE06 { A, B }\n#[typeshare]\n#[serde(rename = \"ManyER17\")]\npub enum ManyE01 { A, B }\n#[typeshare]\npub enum ManyE18 { A, B }\n#[typeshare]\n#[serde(rename = \"ManyER21\")]\npub enum ManyE02 { A, B }\n#[typeshare]\npub enum ManyE17 { A, B }\n#[typeshare]\n#[serde(rename = \"ManyER11\")]\npub enum ManyE03 { A, B }\n#[typeshare]\npub enum ManyE11 { A, B }\n#[typeshare]\n#[serde(rename = \"ManyAR11\")]\npub type ManyA06 = u32;\n#[typeshare]\npub type ManyA17 = u32;\n#[typeshare]\n#[serde(rename = \"ManyAR08\")]\npub type ManyA01 = u32;\n#[typeshare]\npub type ManyA20 = u32;\n#[typeshare]\n#[serde(rename = \"ManyAR04\")]\npub type ManyA16 = u32;\n#[typeshare]\npub type ManyA03 = u32;\n#[typeshare]\n#[serde(rename = \"ManyAR21\")]\npub type ManyA05 = u32;\n#[typeshare]\npub type ManyA12 = u32;\n#[typeshare]\n#[serde(rename = \"ManyAR16\")]\npub type ManyA07 = u32;\n#[typeshare]\npub type ManyA09 = u32;\n#[typeshare]\n#[serde(rename = \"ManyAR02\")]\npub type ManyA10 = u32;\n#[typeshare]\npub type ManyA04 = u32;\n#[typeshare]\n#[serde(rename = \"ManyAR14\")]\npub type ManyA13 = u32;\n#[typeshare]\npub type ManyA11 = u32;\n#[typeshare]\n#[serde(rename = \"ManyAR00\")]\npub type ManyA00 = u32;\n#[typeshare]\npub type ManyA21 = u32;\n#[typeshare]\n#[serde(rename = \"ManyAR19\")]\npub type ManyA22 = u32;\n#[typeshare]\npub type ManyA08 = u32;\n#[typeshare]\n#[serde(rename = \"ManyAR05\")]\npub type ManyA23 = u32;\n#[typeshare]\npub type ManyA02 = u32;\n#[typeshare]\n#[serde(rename = \"ManyAR18\")]\npub type ManyA14 = u32;\n#[typeshare]\npub type ManyA18 = u32;\n#[typeshare]\n#[serde(rename = \"ManyAR07\")]\npub type ManyA15 = u32;\n#[typeshare]\npub type ManyA19 = u32;\n")),
    // an untranslatable type whose text is long and not ASCII (a diagnostic that echoes it must not cut it inside a character)
    ("unsupported-type-with-long-non-ascii-text-0", Sym::Item("#[typeshare]\npub struct EdgeLong0 { pub callback: Box<dyn Fn(éééééééééééééééééééééééééééééééééééééééééééééééééééééééééééé, ßßßßßßßßßßßß) -> EdgeOutcomeWithAVeryLongNameToGoPastEightyBytes + Send + Sync> }\n")),
    ("unsupported-type-with-long-non-ascii-text-1", Sym::Item("#[typeshare]\npub struct EdgeLong1 { pub callback: Box<dyn Fn(xéééééééééééééééééééééééééééééééééééééééééééééééééééééééééééé, ßßßßßßßßßßßß) -> EdgeOutcomeWithAVeryLongNameToGoPastEightyBytes + Send + Sync> }\n")),
    ("unsupported-type-with-long-non-ascii-text-2", Sym::Item("#[typeshare]\npub struct EdgeLong2 { pub callback: Box<dyn Fn(xxéééééééééééééééééééééééééééééééééééééééééééééééééééééééééééé, ßßßßßßßßßßßß) -> EdgeOutcomeWithAVeryLongNameToGoPastEightyBytes + Send + Sync> }\n")),
    ("unsupported-type-with-long-non-ascii-text-3", Sym::Item("#[typeshare]\npub struct EdgeLong3 { pub callback: Box<dyn Fn(xxxéééééééééééééééééééééééééééééééééééééééééééééééééééééééééééé, ßßßßßßßßßßßß) -> EdgeOutcomeWithAVeryLongNameToGoPastEightyBytes + Send + Sync> }\n")),
    // alias / newtype chains that lead back to themselves, carried by a variant (a chain walk must still terminate)
    ("newtype-of-itself-in-variant", Sym::Item("#[typeshare]\npub struct EdgeHandle(Box<EdgeHandle>);\n#[typeshare]\n#[serde(tag = \"t\", content = \"c\")]\npub enum EdgeHolder { One(EdgeHandle), Many(Vec<EdgeHandle>), Nothing }\n")),
    ("newtype-pair-cycle-in-variant", Sym::Item("#[typeshare]\npub struct EdgeEven(Rc<EdgeOdd>);\n#[typeshare]\npub struct EdgeOdd(Arc<EdgeEven>);\n#[typeshare]\n#[serde(tag = \"t\", content = \"c\")]\npub enum EdgeParity { E(EdgeEven), O(EdgeOdd), Z }\n")),
    ("alias-cycle-of-three-in-variant", Sym::Item("#[typeshare]\npub type EdgeA3 = Vec<EdgeB3>;\n#[typeshare]\npub type EdgeB3 = Option<EdgeC3>;\n#[typeshare]\npub struct EdgeC3(Box<EdgeA3>);\n#[typeshare]\n#[serde(tag = \"t\", content = \"c\")]\npub enum EdgeUse3 { A(EdgeA3), C(EdgeC3), N }\n")),
    ("serialized-as-itself-in-variant", Sym::Item("#[typeshare(serialized_as = \"EdgeSelfAs\")]\npub struct EdgeSelfAs { pub x: u32 }\n#[typeshare]\n#[serde(tag = \"t\", content = \"c\")]\npub enum EdgeSelfUse { S(EdgeSelfAs), N }\n")),
    ("recursive-generic-self", Sym::Item("#[typeshare]\npub struct EdgeRg<T> { pub a: Option<Box<EdgeRg<T>>>, pub b: Vec<EdgeRg<T>>, pub t: T }\n")),
    ("diamond-into-cycle", Sym::Item("#[typeshare]\npub struct EdgeDa { pub b: EdgeDb, pub c: EdgeDc }\n#[typeshare]\npub struct EdgeDb { pub d: EdgeDd }\n#[typeshare]\npub struct EdgeDc { pub d: EdgeDd }\n#[typeshare]\npub struct EdgeDd { pub a1: Option<Box<EdgeDa>>, pub a2: Vec<EdgeDa> }\n")),
    ("map-of-self", Sym::Item("#[typeshare]\npub struct EdgeMs { pub m: HashMap<String, EdgeMs>, pub n: HashMap<String, Vec<EdgeMs>> }\n")),
    ("empty-tuple-struct", Sym::Item("#[typeshare]\npub struct EdgeEmptyTuple();\n")),
    ("empty-tuple-variant", Sym::Item("#[typeshare]\n#[serde(tag = \"t\", content = \"c\")]\npub enum EdgeEmptyVariant { V(), W(u32) }\n")),
    ("empty-enum", Sym::Item("#[typeshare]\npub enum EdgeEmptyEnum {}\n")),
    ("empty-tagged-enum", Sym::Item("#[typeshare]\n#[serde(tag = \"t\", content = \"c\")]\npub enum EdgeEmptyTagged {}\n")),
    ("enum-empty-struct-variant", Sym::Item("#[typeshare]\npub enum EdgeEsv { Connected, Idle {} }\n")),
    ("enum-empty-struct-variant-tagged", Sym::Item("#[typeshare]\n#[serde(tag = \"t\", content = \"c\")]\npub enum EdgeEsvT { Connected, Idle {}, Other(u32) }\n")),
    ("enum-struct-variant-all-fields-skipped", Sym::Item("#[typeshare]\npub enum EdgeAfs { Ready, Running { #[serde(skip)] started_at: u32, #[typeshare(skip)] other: String } }\n")),
    ("enum-struct-variant-all-fields-skipped-tagged", Sym::Item("#[typeshare]\n#[serde(tag = \"t\", content = \"c\")]\npub enum EdgeAfsT { Ready, Running { #[serde(skip)] started_at: u32 } }\n")),
    ("enum-only-empty-tuple-and-struct-variants", Sym::Item("#[typeshare]\npub enum EdgeOnlyEmpty { A {}, B {} }\n")),
    ("struct-all-fields-skipped", Sym::Item("#[typeshare]\npub struct EdgeAllSkipped { #[serde(skip)] pub a: u32, #[typeshare(skip)] pub b: u32 }\n")),
    // everything inside an item compiled out for the requested target (configuration 3 asks for ios)
    ("tuple-struct-only-field-cfg-out", Sym::Item("#[typeshare]\npub struct EdgeCo1(#[cfg(target_os = \"android\")] pub String);\n")),
    ("tuple-struct-first-field-cfg-out", Sym::Item("#[typeshare]\npub struct EdgeCo2(#[cfg(target_os = \"android\")] pub String, pub u32);\n")),
    ("struct-all-fields-cfg-out", Sym::Item("#[typeshare]\npub struct EdgeCo3 { #[cfg(target_os = \"android\")] pub a: u32, #[cfg(not(target_os = \"ios\"))] pub b: u32 }\n")),
    ("enum-all-variants-cfg-out", Sym::Item("#[typeshare]\npub enum EdgeCo4 { #[cfg(target_os = \"android\")] A, #[cfg(target_os = \"android\")] B }\n")),
    ("tagged-enum-all-variants-cfg-out", Sym::Item("#[typeshare]\n#[serde(tag = \"t\", content = \"c\")]\npub enum EdgeCo5 { #[cfg(target_os = \"android\")] A(u32), #[cfg(not(target_os = \"ios\"))] B { x: u32 } }\n")),
    ("tuple-variant-payload-cfg-out", Sym::Item("#[typeshare]\n#[serde(tag = \"t\", content = \"c\")]\npub enum EdgeCo6 { A(#[cfg(target_os = \"android\")] u32), B }\n")),
    ("struct-variant-all-fields-cfg-out", Sym::Item("#[typeshare]\n#[serde(tag = \"t\", content = \"c\")]\npub enum EdgeCo7 { A { #[cfg(target_os = \"android\")] x: u32 }, B(u32) }\n")),
    ("enum-discriminants", Sym::Item("#[typeshare]\npub enum EdgeDisc { A = 1, B = 1 << 4 }\n")),
    ("struct-lifetime-const-generics", Sym::Item("#[typeshare]\npub struct EdgeGen<'a, const N: usize, T: Clone = u32> where T: Copy { pub a: &'a T }\n")),
    ("typeshare-on-union", Sym::Item("#[typeshare]\npub union EdgeUnion { a: u32, b: f32 }\n")),
    ("typeshare-on-fn", Sym::Item("#[typeshare]\npub fn edge_fn() {}\n")),
    ("typeshare-on-impl", Sym::Item("pub struct EdgeImplT;\n#[typeshare]\nimpl EdgeImplT { #[typeshare] pub const X: u32 = 1; }\n")),
    ("typeshare-on-trait", Sym::Item("#[typeshare]\npub trait EdgeTrait { #[typeshare] type A; }\n")),
    ("typeshare-on-mod", Sym::Item("#[typeshare]\npub mod edge_mod { #[typeshare] pub struct InMod { pub a: u32 } }\n")),
    ("item-inside-fn", Sym::Item("pub fn edge_holder() { #[typeshare]\n struct Inner { a: u32 } }\n")),
    ("typeshare-on-static", Sym::Item("#[typeshare]\npub static EDGE_STATIC: u32 = 1;\n")),
    ("typeshare-path-attr", Sym::Item("#[typeshare::typeshare]\npub struct EdgePathAttr { pub a: u32 }\n")),
    ("cfg-attr-typeshare", Sym::Item("#[cfg_attr(feature = \"x\", typeshare)]\npub struct EdgeCfgAttr { pub a: u32 }\n")),
    ("const-item", Sym::Item("#[typeshare]\npub const EDGE_CONST: u32 = 3;\n")),
    ("const-huge", Sym::Item("#[typeshare]\npub const EDGE_HUGE: u32 = 340282366920938463463374607431768211455;\n")),
    ("const-user-type", Sym::Item("#[typeshare]\npub const EDGE_CU: Base = 1;\n")),
    ("const-underscore", Sym::Item("#[typeshare]\npub const _: u32 = 1;\n")),
    ("alias-to-self", Sym::Item("#[typeshare]\npub type EdgeLoop = EdgeLoop;\n")),
    ("struct-named-vec", Sym::Item("#[typeshare]\npub struct Vec { pub a: u32 }\n")),
    ("raw-ident-type-name", Sym::Item("#[typeshare]\npub struct r#type { pub r#fn: u32 }\n")),
    ("serialized-as-empty", Sym::Item("#[typeshare(serialized_as = \"\")]\npub struct EdgeSaEmpty { pub a: u32 }\n")),
    ("serialized-as-garbage", Sym::Item("#[typeshare(serialized_as = \"<<<\")]\npub struct EdgeSaGarbage { pub a: u32 }\n")),
    ("serialized-as-tuple", Sym::Item("#[typeshare(serialized_as = \"(u32, u32)\")]\npub struct EdgeSaTuple { pub a: u32 }\n")),
    ("serialized-as-vec-no-args", Sym::Item("#[typeshare(serialized_as = \"Vec\")]\npub struct EdgeSaVec { pub a: u32 }\n")),
    ("serialized-as-nonstring", Sym::Item("#[typeshare(serialized_as = 5)]\npub struct EdgeSaInt { pub a: u32 }\n")),
    ("decorator-empty", Sym::Item("#[typeshare(swift = \"\", kotlin = \"\", swiftGenericConstraints = \"\")]\npub struct EdgeDecEmpty<T> { pub a: T }\n")),
    ("decorator-odd-constraints", Sym::Item("#[typeshare(swiftGenericConstraints = \":::, T, :X & , T: & \")]\npub struct EdgeDecOdd<T> { pub a: T }\n")),
    ("non-ascii-enum-name", Sym::Item("#[typeshare]\n#[serde(tag = \"t\", content = \"c\")]\npub enum Éнум { A(u32), B }\n")),
    ("underscore-enum-name", Sym::Item("#[typeshare]\n#[serde(tag = \"__\", content = \"_\")]\npub enum __ { __(u32), B }\n")),
    ("tag-equals-content", Sym::Item("#[typeshare]\n#[serde(tag = \"k\", content = \"k\")]\npub enum EdgeSameKey { A(u32), B }\n")),
    ("empty-tag-content", Sym::Item("#[typeshare]\n#[serde(tag = \"\", content = \"\")]\npub enum EdgeEmptyKey { A(u32), B }\n")),
    ("digit-variant-rename", Sym::Item("#[typeshare]\n#[serde(tag = \"t\", content = \"c\")]\npub enum EdgeDigit { #[serde(rename = \"1st\")] First(u32), #[serde(rename = \"\")] Second }\n")),
    ("unknown-language-list", Sym::FieldAttr("#[typeshare(java(readonly))]")),
    ("language-list-empty", Sym::FieldAttr("#[typeshare(typescript())]")),
    ("language-list-int-value", Sym::FieldAttr("#[typeshare(typescript(type = 5))]")),
    ("language-list-odd-tokens", Sym::FieldAttr("#[typeshare(kotlin(= \"x\"), swift(a b c), go(type = \"x\" readonly))]")),
    ("language-list-path", Sym::FieldAttr("#[typeshare(typescript(a::b), python(type = \"\"))]")),
    ("field-serialized-as-garbage", Sym::FieldAttr("#[typeshare(serialized_as = \"Vec<\")]")),
    ("serde-rename-nonstring", Sym::FieldAttr("#[serde(rename = 5)]")),
    ("serde-rename-empty", Sym::FieldAttr("#[serde(rename = \"\")]")),
    ("serde-rename-nested", Sym::FieldAttr("#[serde(rename(serialize = \"a\", deserialize = \"b\"))]")),
    ("serde-odd-list", Sym::FieldAttr("#[serde(default = , skip)]")),
    ("doc-nonstring", Sym::FieldAttr("#[doc = 5]")),
    ("cfg-odd", Sym::FieldAttr("#[cfg(target_os)] #[cfg(not)] #[cfg(any(target_os = 5, not(target_os(x))))] #[cfg(all(= 3))]")),
    ("bare-typeshare-args", Sym::FieldAttr("#[typeshare = \"x\"]")),
    ("variant-rename-empty", Sym::VariantAttr("#[serde(rename = \"\")]")),
    ("variant-rename-quote", Sym::VariantAttr("#[serde(rename = \"a\\\"b\\\\\")]")),
    ("variant-language-list", Sym::VariantAttr("#[typeshare(java(x))]")),
    ("item-rename-all-novalue", Sym::ItemAttr("#[serde(rename_all)]")),
    ("item-rename-all-nested", Sym::ItemAttr("#[serde(rename_all(serialize = \"camelCase\"))]")),
    ("item-tag-novalue", Sym::ItemAttr("#[serde(tag, content)]")),
    ("item-rename-empty", Sym::ItemAttr("#[serde(rename = \"\")]")),
    ("item-rename-spaces", Sym::ItemAttr("#[serde(rename = \"has space-and.dot\")]")),
    ("ident-double-underscore", Sym::Ident("__")),
    ("ident-leading-underscore", Sym::Ident("_x")),
    ("ident-non-ascii-lower", Sym::Ident("é")),
    ("ident-non-ascii-upper-first", Sym::Ident("Éa")),
    ("ident-sharp-s", Sym::Ident("ß")),
    ("ident-underscore-digit", Sym::Ident("_1")),
    ("ident-all-underscores", Sym::Ident("___")),
    ("use-bare-crate", Sym::Use("use foo;")),
    ("use-leading-colons", Sym::Use("use ::foo;")),
    ("use-rename", Sym::Use("use foo as bar;")),
    ("use-group", Sym::Use("use {a::B, c};")),
    ("use-self-in-group", Sym::Use("use a::{self, B};")),
    ("use-glob-root", Sym::Use("use *;")),
    ("use-crate-glob", Sym::Use("use crate::*;")),
    ("use-super-super", Sym::Use("use super::super::X;")),
];

const TYPE_POSITIONS: [&str; 6] = ["struct-field", "newtype-struct", "variant-payload", "variant-field", "alias", "const-type"];
const RULES: [&str; 9] = ["", "lowercase", "UPPERCASE", "PascalCase", "camelCase", "snake_case", "SCREAMING_SNAKE_CASE", "kebab-case", "SCREAMING-KEBAB-CASE"];

/// Rust source for one symbol instance `n` at sub-position `p` (wraps around)
pub fn render_symbol(sym: &Sym, n: usize, p: usize) -> (String, String) {
    match sym {
        Sym::Type(t) => {
            let pos = TYPE_POSITIONS[p % TYPE_POSITIONS.len()];
            let generic = if t.contains('T') && !t.contains("Trait") { "<T>" } else { "" };
            let src = match pos {
                "struct-field" => format!("#[typeshare]\npub struct Edge{n}{generic} {{ pub e: {t} }}\n"),
                "newtype-struct" => format!("#[typeshare]\npub struct Edge{n}{generic}(pub {t});\n"),
                "variant-payload" => format!("#[typeshare]\n#[serde(tag = \"t\", content = \"c\")]\npub enum Edge{n}{generic} {{ V({t}), W }}\n"),
                "variant-field" => format!("#[typeshare]\n#[serde(tag = \"t\", content = \"c\")]\npub enum Edge{n}{generic} {{ V {{ e: {t} }}, W }}\n"),
                "alias" => format!("#[typeshare]\npub type Edge{n}{generic} = {t};\n"),
                _ => format!("#[typeshare]\npub const EDGE{n}: {t} = 1;\n"),
            };
            (src, pos.to_string())
        }
        Sym::Item(s) => (s.to_string(), "item".into()),
        Sym::FieldAttr(a) => {
            if p % 2 == 0 {
                (format!("#[typeshare]\npub struct Edge{n} {{ {a} pub e: u32 }}\n"), "struct-field".into())
            } else {
                (format!("#[typeshare]\n#[serde(tag = \"t\", content = \"c\")]\npub enum Edge{n} {{ V {{ {a} e: u32 }}, W }}\n"), "variant-field".into())
            }
        }
        Sym::VariantAttr(a) => {
            if p % 2 == 0 {
                (format!("#[typeshare]\npub enum Edge{n} {{ {a} A, B }}\n"), "unit-variant".into())
            } else {
                (format!("#[typeshare]\n#[serde(tag = \"t\", content = \"c\")]\npub enum Edge{n} {{ {a} A(u32), B }}\n"), "newtype-variant".into())
            }
        }
        Sym::ItemAttr(a) => match p % 3 {
            0 => (format!("#[typeshare]\n{a}\npub struct Edge{n} {{ pub some_field: u32 }}\n"), "struct".into()),
            1 => (format!("#[typeshare]\n{a}\npub enum Edge{n} {{ SomeVariant, Other }}\n"), "unit-enum".into()),
            _ => (format!("#[typeshare]\n{a}\npub type Edge{n} = u32;\n"), "alias".into()),
        },
        Sym::Ident(id) => {
            let rule = RULES[p % RULES.len()];
            let ra = if rule.is_empty() { String::new() } else { format!("#[serde(rename_all = \"{rule}\")]\n") };
            let ty_name = if id.chars().next().map(|c| c.is_uppercase()).unwrap_or(false) { format!("{id}Ty{n}") } else { format!("Ty{n}{id}") };
            let src = format!(
                "#[typeshare]\n{ra}pub struct {ty_name} {{ pub {id}: u32 }}\n#[typeshare]\n{ra}pub enum EdgeU{n} {{ {id}, Other }}\n#[typeshare]\n{ra}#[serde(tag = \"{id}\", content = \"c\")]\npub enum EdgeA{n} {{ {id}(u32), Other {{ {id}: u32 }} }}\n"
            );
            (src, format!("rename_all={rule}"))
        }
        Sym::Use(u) => (format!("{u}\n"), "use".into()),
    }
}

pub const BASELINE: &str = "#[typeshare]\npub struct Base { pub a: u32 }\n#[typeshare]\npub enum BaseE { A, B }\n";

fn norm_panic(m: &str) -> String {
    // strip numbers so that unrelated edits do not change the signature
    let mut out = String::new();
    let mut prev_digit = false;
    for c in m.chars().take(140) {
        if c.is_ascii_digit() {
            if !prev_digit {
                out.push('N');
            }
            prev_digit = true;
        } else {
            prev_digit = false;
            out.push(c);
        }
    }
    out
}

pub fn cfg_for(lang: Lang, multi: bool, config: usize) -> Cfg {
    let mut cfg = Cfg::plain();
    cfg.multi_file = multi;
    match config {
        1 => cfg.package = String::new(), // empty package
        2 => {
            cfg.prefix = "P".into();
            cfg.header = true;
            cfg.target_os = vec!["ios".into()];
        }
        _ => {}
    }
    let _ = lang;
    cfg
}

pub fn check_program(symbols: &[(usize, usize)], lang: Lang, multi: bool, config: usize, choices: &[u32], acc: &mut Acc) {
    let mut src = String::from(BASELINE);
    let mut uses = String::new();
    let mut names = Vec::new();
    let mut poss = Vec::new();
    for (k, (si, p)) in symbols.iter().enumerate() {
        let (name, sym) = &SYMBOLS[*si];
        let (s, pos) = render_symbol(sym, k, *p);
        if matches!(sym, Sym::Use(_)) {
            uses.push_str(&s);
        } else {
            src.push_str(&s);
        }
        names.push(*name);
        poss.push(pos);
    }
    let src = format!("{uses}{src}");
    // "all files accepted by the Rust parser": anything syn rejects is outside the quantifier, but must still not crash
    let accepted_by_rustc_grammar = syn::parse_file(&src).is_ok();
    let cfg = cfg_for(lang, multi, config);
    let files = if multi {
        vec![SrcFile { crate_name: "edge_crate".into(), path: "ws/edge-crate/src/lib.rs".into(), source: src.clone() }]
    } else {
        vec![SrcFile::single(src.clone())]
    };
    acc.runs += 1;
    acc.judgements += 1;
    acc.inputs.insert(report::fnv64(&src));
    if !symbols.is_empty() {
        acc.nontrivial.insert(report::fnv64(&format!("{src}|{}|{multi}|{config}", lang.name())));
    }
    let o = pipeline::run(&files, lang, &cfg);
    acc.outcomes.insert(report::fnv64(&format!("{}|{}", lang.name(), o.kind())));
    acc.count(o.kind(), 1);
    if !accepted_by_rustc_grammar {
        acc.count("inputs_rejected_by_syn", 1);
    }
    if let Outcome::Panic(m) = &o {
        acc.vios.add(Violation {
            sig: format!("C07|lib|panic|{}", norm_panic(m)),
            detail: json!({"choices": choices, "symbols": names, "positions": poss, "lang": lang.name(), "multi_file": multi, "config": config, "panic": m, "source": src}),
        });
    }
    if acc.samples.len() < 2 && symbols.len() == 2 {
        acc.sample(json!({"symbols": names, "positions": poss, "lang": lang.name(), "outcome": o.kind()}));
    }
}

fn gen_sym(ch: &mut Chooser) -> (usize, usize) {
    let si = ch.choose("symbol", SYMBOLS.len());
    let npos = match SYMBOLS[si].1 {
        Sym::Type(_) => TYPE_POSITIONS.len(),
        Sym::FieldAttr(_) | Sym::VariantAttr(_) => 2,
        Sym::ItemAttr(_) => 3,
        Sym::Ident(_) => RULES.len(),
        _ => 1,
    };
    let p = ch.choose("position", npos);
    (si, p)
}

fn controls(rep: &mut Report) {
    // catch_unwind plumbing: a panic raised inside the closure must come back as Outcome::Panic
    let r = std::panic::catch_unwind(|| {
        let v: Vec<u32> = Vec::new();
        v[0]
    });
    if r.is_ok() {
        rep.machinery("control: catch_unwind does not catch");
    }
    if norm_panic("parser.rs: index 12 out of 3456") != "parser.rs: index N out of N" {
        rep.machinery("control: panic normalisation broken");
    }
}

pub fn run(args: &[String]) -> i32 {
    let tier = report::tier_from_env(args);
    let mut rep = Report::new("C07", &tier);
    controls(&mut rep);
    let thorough = rep.thorough();
    // 1. every single symbol at every position × language × mode × configuration
    {
        let (accs, stats) = explore(
            |ch| {
                gen_sym(ch);
            },
            |ch, acc: &mut Acc| {
                let s = gen_sym(ch);
                let lang = *ch.pick("lang", &ALL_LANGS);
                let multi = ch.flag("multi_file");
                let config = ch.choose("config", 3);
                check_program(&[s], lang, multi, config, &ch.choices(), acc);
            },
            Mode::Product,
            2,
            report::threads(),
            u64::MAX,
        );
        merge(&mut rep, "single_symbols", accs, &stats, json!({"symbols": SYMBOLS.len(), "positions": "all positions of each symbol", "languages": 6, "modes": ["single", "multi"], "configs": ["default", "empty package", "prefix+header+target_os"]}));
    }
    // 2. every unordered pair of symbols (each at every position in thorough, at its first two positions in quick)
    {
        let (accs, stats) = explore(
            |ch| {
                ch.choose("symbol_a", SYMBOLS.len());
            },
            |ch, acc: &mut Acc| {
                let a = ch.choose("symbol_a", SYMBOLS.len());
                let b = ch.choose("symbol_b", SYMBOLS.len());
                if b > a {
                    acc.out_of_scope += 1;
                    return;
                }
                let np = if thorough { 3 } else { 2 };
                let pa = ch.choose("position_a", np);
                let pb = ch.choose("position_b", np);
                let lang = *ch.pick("lang", &ALL_LANGS);
                let multi = ch.flag("multi_file");
                check_program(&[(a, pa), (b, pb)], lang, multi, 0, &ch.choices(), acc);
            },
            Mode::Product,
            2,
            report::threads(),
            u64::MAX,
        );
        merge(&mut rep, "symbol_pairs", accs, &stats, json!({"pairs": "all unordered pairs incl. a symbol with itself", "positions_per_symbol": if thorough { 3 } else { 2 }, "languages": 6, "modes": 2}));
    }
    // 3. thorough: every unordered triple at the default position, TypeScript + Swift + Go
    if thorough {
        let (accs, stats) = explore(
            |ch| {
                ch.choose("symbol_a", SYMBOLS.len());
            },
            |ch, acc: &mut Acc| {
                let a = ch.choose("symbol_a", SYMBOLS.len());
                let b = ch.choose("symbol_b", SYMBOLS.len());
                let c = ch.choose("symbol_c", SYMBOLS.len());
                if !(c <= b && b <= a) {
                    acc.out_of_scope += 1;
                    return;
                }
                let lang = *ch.pick("lang", &[Lang::TypeScript, Lang::Swift, Lang::Go]);
                let multi = ch.flag("multi_file");
                check_program(&[(a, 0), (b, 0), (c, 0)], lang, multi, 0, &ch.choices(), acc);
            },
            Mode::Product,
            2,
            report::threads(),
            u64::MAX,
        );
        merge(&mut rep, "symbol_triples", accs, &stats, json!({"triples": "all unordered triples at the default position", "languages": ["typescript", "swift", "go"], "modes": 2}));
    }
    if std::env::var_os("TSMC_SKIP_CLI").is_none() {
        cli::c07_cli_family(&mut rep);
        e3_error_paths(&mut rep);
    }
    require_nonvacuous(&mut rep);
    rep.cov("rule", json!("a baseline program plus every single edge symbol (at every position it can occupy, × 6 languages × single/multi-file × 3 configurations), every unordered pair and (thorough) every unordered triple of symbols; each program is run through the real pipeline under catch_unwind: any unwind is a violation. Process level: the real binary under a watchdog on every symbol that fails in-process, on file-level faults and on every error-path schedule. non-trivial = at least one edge symbol present."));
    rep.assume("the edge alphabet is a fixed list (mc/src/props/c07.rs::SYMBOLS); arbitrary Rust is not enumerable");
    rep.assume("inputs syn rejects are outside 'files accepted by the Rust parser' but must still not crash; they are counted");
    rep.finish()
}

/// Error-path schedules: every maximal path of the protocol model with erroneous files, replayed on the real binary.
pub fn e3_error_paths(rep: &mut Report) {
    use crate::cli::par_map;
    use crate::e3;
    let thorough = rep.thorough();
    let combos: Vec<(Vec<&str>, Vec<&str>)> = vec![
        (vec!["fa", "fb"], vec!["fb"]),
        (vec!["fa", "fb", "fc"], vec!["fb"]),
        (vec!["fa", "fb", "fc"], vec!["fa", "fc"]),
        (vec!["fa", "fb"], vec!["fa", "fb"]),
    ];
    let langs: Vec<Lang> = if thorough { ALL_LANGS.to_vec() } else { vec![Lang::TypeScript, Lang::Kotlin] };
    struct Job {
        files: Vec<(String, String)>,
        schedule: Vec<String>,
        events: Vec<String>,
        first_err: Option<String>,
        lang: Lang,
        multi: bool,
        n: usize,
        errs: usize,
    }
    let mut jobs = Vec::new();
    let mut states = 0;
    let mut transitions = 0;
    let mut paths_n = 0;
    let mut summaries = Vec::new();
    for (files, errs) in &combos {
        match e3::tlc_graph(files, errs) {
            Ok(g) => {
                states += g.states;
                transitions += g.transitions;
                summaries.push(format!("{} files, {} erroneous: {}", files.len(), errs.len(), g.tlc_summary.trim()));
                let (paths, capped) = e3::all_paths(&g, 200_000);
                if capped {
                    rep.machinery("path enumeration capped");
                }
                paths_n += paths.len();
                for p in paths {
                    for &lang in &langs {
                        for multi in [false, true] {
                            let mut schedule = e3::start_barrier(files);
                            schedule.extend(p.events.iter().cloned());
                            jobs.push(Job {
                                files: files.iter().map(|f| (f.to_string(), if errs.contains(f) { e3::bad_source(f) } else { super::c06::source(f, lang) })).collect(),
                                schedule,
                                events: p.events.clone(),
                                first_err: p.first_err.clone(),
                                lang,
                                multi,
                                n: files.len(),
                                errs: errs.len(),
                            });
                        }
                    }
                }
            }
            Err(e) => rep.machinery(format!("TLC: {e}")),
        }
    }
    // pilot (one job per combination and mode): when the binary hangs or follows no schedule, skip the rest
    {
        let mut seen = std::collections::BTreeSet::new();
        let pilot: Vec<&Job> = jobs.iter().filter(|j| seen.insert((j.n, j.errs, j.multi))).collect();
        let pres = par_map(&pilot, report::threads(), |j| e3::replay(&j.files, &j.schedule, j.lang, j.multi, j.n, &[]));
        let hangs = pres.iter().filter(|r| r.class == "hang").count();
        let infeasible = pres.iter().filter(|r| r.class == "schedule-infeasible").count();
        if hangs > 0 || infeasible * 2 > pilot.len() {
            if let Some((j, r)) = pilot.iter().zip(pres.iter()).find(|(_, r)| r.class == "hang") {
                rep.vios.add(Violation {
                    sig: format!("C07|schedule|hang|files={}|errs={}|mode={}|pilot", j.n, j.errs, if j.multi { "multi" } else { "single" }),
                    detail: json!({"schedule": r.schedule, "argv": r.argv, "stderr": r.stderr, "note": "pilot run; the remaining replays were skipped"}),
                });
            } else {
                rep.machinery(format!("pilot: {infeasible} of {} pilot schedules could not be followed by the binary; the remaining {} replays were skipped", pilot.len(), jobs.len()));
            }
            rep.cov("error_path_schedules", json!({"pilot_jobs": pilot.len(), "hangs": hangs, "schedules_not_followed": infeasible, "remaining_jobs_skipped": jobs.len()}));
            return;
        }
    }
    let results = par_map(&jobs, report::threads(), |j| e3::replay(&j.files, &j.schedule, j.lang, j.multi, j.n, &[]));
    let mut conform = 0u64;
    let mut classes: std::collections::BTreeMap<String, u64> = Default::default();
    for (j, r) in jobs.iter().zip(results.iter()) {
        *classes.entry(r.class.to_string()).or_insert(0) += 1;
        let mode = if j.multi { "multi" } else { "single" };
        let detail = |what: &str| json!({"schedule": r.schedule, "argv": r.argv, "exit_code": r.code, "stderr": r.stderr, "model_first_error": j.first_err, "observation": what, "lang": j.lang.name(), "mode": mode});
        // position of the first send that happens after the collector has gone (the historically fatal ordering)
        let late_send = {
            let ce = j.events.iter().position(|e| e == "collector_exit");
            ce.map(|c| j.events[c..].iter().any(|e| e.starts_with("send:"))).unwrap_or(false)
        };
        match r.class {
            "schedule-infeasible" => rep.machinery(format!("schedule infeasible on the real binary: {} ({} {}): passed {:?}", r.schedule, j.lang.name(), mode, r.passed)),
            "error" => {
                let passed: Vec<&String> = r.passed.iter().filter(|l| !l.starts_with("start:")).collect();
                if passed.len() == j.events.len() && passed.iter().zip(j.events.iter()).all(|(a, b)| *a == b) {
                    conform += 1;
                } else {
                    rep.machinery(format!("conformance failure: model path {:?} replayed as {:?}", j.events, passed));
                }
                // the diagnostic must name the file the model says is reported
                match &j.first_err {
                    Some(f) => {
                        if !r.stderr.contains(&format!("{f}.rs")) {
                            rep.vios.add(Violation { sig: format!("C07|schedule|diagnostic-names-wrong-file|files={}|errs={}|mode={mode}", j.n, j.errs), detail: detail("stderr does not name the file whose error the collector received first") });
                        }
                    }
                    None => rep.machinery(format!("model predicts success for a path with erroneous files: {:?}", j.events)),
                }
            }
            other => {
                rep.vios.add(Violation {
                    sig: format!("C07|schedule|{other}|send_after_collector_exit={}|files={}|errs={}|mode={mode}", late_send as u8, j.n, j.errs),
                    detail: detail("an error-path schedule must end in a non-zero exit with a diagnostic"),
                });
            }
        }
    }
    rep.cov("error_path_schedules", json!({"model": crate::e3::MODEL, "tlc": summaries, "maximal_paths": paths_n, "replays": jobs.len(), "replays_with_matching_event_trace": conform, "outcome_classes": classes}));
    rep.cov_add("evaluations", jobs.len() as u64);
    rep.cov_add("traces_validated_against_impl", conform);
    rep.cov("model_states", json!(states));
    rep.cov("model_transitions", json!(transitions));
}
