//! C06 — output is a deterministic function of the inputs, not of scheduling or hashing.
use crate::cli::{self, par_map};
use crate::e3::{self, Replay};
use crate::hashorder;
use crate::pipeline::{Lang, ALL_LANGS};
use crate::report::{self, Report, Violation};
use serde_json::json;
use std::collections::{BTreeMap, BTreeSet};

fn const_capable(lang: Lang) -> bool {
    matches!(lang, Lang::TypeScript | Lang::Go | Lang::Python)
}

/// source of file `stem`; consts only where the backend can print them
pub fn source(stem: &str, lang: Lang) -> String {
    let full = e3::good_source(stem);
    if const_capable(lang) {
        full
    } else {
        full.split("#[typeshare]\npub const").next().unwrap().to_string()
    }
}

fn outputs_key(r: &Replay) -> String {
    let mut s = String::new();
    for (k, v) in &r.outputs {
        s.push_str(k);
        s.push('\0');
        s.push_str(&format!("{:016x}", report::fnv64(&String::from_utf8_lossy(v))));
        s.push('\n');
    }
    s
}

#[derive(Clone)]
struct Job {
    class: String,
    files: Vec<(String, String)>,
    schedule: Vec<String>,
    expect_events: Option<Vec<String>>,
    lang: Lang,
    multi: bool,
    threads: usize,
    family: &'static str,
}

fn permutations(n: usize) -> Vec<Vec<usize>> {
    fn rec(cur: &mut Vec<usize>, used: &mut Vec<bool>, n: usize, out: &mut Vec<Vec<usize>>) {
        if cur.len() == n {
            out.push(cur.clone());
            return;
        }
        for i in 0..n {
            if !used[i] {
                used[i] = true;
                cur.push(i);
                rec(cur, used, n, out);
                cur.pop();
                used[i] = false;
            }
        }
    }
    let mut out = Vec::new();
    rec(&mut Vec::new(), &mut vec![false; n], n, &mut out);
    out
}

/// all set partitions of {0..n-1} as block lists (restricted growth strings)
fn set_partitions(n: usize) -> Vec<Vec<Vec<usize>>> {
    fn rec(i: usize, n: usize, rgs: &mut Vec<usize>, maxb: usize, out: &mut Vec<Vec<Vec<usize>>>) {
        if i == n {
            let k = maxb;
            let mut blocks = vec![Vec::new(); k];
            for (x, b) in rgs.iter().enumerate() {
                blocks[*b].push(x);
            }
            out.push(blocks);
            return;
        }
        for b in 0..=maxb {
            rgs.push(b);
            rec(i + 1, n, rgs, maxb.max(b + 1), out);
            rgs.pop();
        }
    }
    let mut out = Vec::new();
    rec(0, n, &mut Vec::new(), 0, &mut out);
    out
}

const STEMS: [&str; 6] = ["fa", "fb", "fc", "fd", "fe", "ff"];

pub fn run(args: &[String]) -> i32 {
    let tier = report::tier_from_env(args);
    let mut rep = Report::new("C06", &tier);
    let thorough = rep.thorough();
    if !cli::bin_available() {
        rep.machinery(format!("hooks-on CLI binary missing at {}", cli::BIN));
        return rep.finish();
    }
    // controls
    if permutations(4).len() != 24 || set_partitions(5).len() != 52 || set_partitions(3).len() != 5 {
        rep.machinery("control: permutation / set-partition enumeration wrong");
    }
    let mut jobs: Vec<Job> = Vec::new();
    let mut model_states = 0usize;
    let mut model_transitions = 0usize;
    let mut model_paths = 0usize;
    let mut tlc_summaries = Vec::new();

    // 1. every maximal path of the protocol model with all-Some outcomes
    let e3_langs: Vec<Lang> = if thorough { ALL_LANGS.to_vec() } else { vec![Lang::TypeScript, Lang::Swift] };
    for n in [2usize, 3] {
        let stems: Vec<&str> = STEMS[..n].to_vec();
        match e3::tlc_graph(&stems, &[]) {
            Ok(g) => {
                model_states += g.states;
                model_transitions += g.transitions;
                tlc_summaries.push(format!("{n} files, no error: {}", g.tlc_summary.trim()));
                let (paths, capped) = e3::all_paths(&g, 100_000);
                if capped {
                    rep.machinery("path enumeration capped");
                }
                model_paths += paths.len();
                for p in &paths {
                    if p.first_err.is_some() || p.folded.len() != n {
                        rep.machinery(format!("model path with unexpected prediction: {p:?}"));
                    }
                    for &lang in &e3_langs {
                        for multi in [false, true] {
                            let mut schedule = e3::start_barrier(&stems);
                            schedule.extend(p.events.iter().cloned());
                            jobs.push(Job {
                                class: format!("e3|n={n}|{}|multi={multi}", lang.name()),
                                files: stems.iter().map(|s| (s.to_string(), source(s, lang))).collect(),
                                schedule,
                                expect_events: Some(p.events.clone()),
                                lang,
                                multi,
                                threads: n,
                                family: "model-paths",
                            });
                        }
                    }
                }
            }
            Err(e) => rep.machinery(format!("TLC: {e}")),
        }
    }
    // 2. every arrival permutation of n files
    let max_n = if thorough { 6 } else { 4 };
    let perm_langs: Vec<Lang> = ALL_LANGS.to_vec();
    for n in 2..=max_n {
        let stems: Vec<&str> = STEMS[..n].to_vec();
        for perm in permutations(n) {
            for &lang in &perm_langs {
                if !thorough && n == 4 && !matches!(lang, Lang::TypeScript | Lang::Kotlin | Lang::Go) {
                    continue;
                }
                for multi in [false, true] {
                    let mut schedule = e3::start_barrier(&stems);
                    schedule.extend(perm.iter().map(|i| format!("send:{}", stems[*i])));
                    jobs.push(Job {
                        class: format!("perm|n={n}|{}|multi={multi}", lang.name()),
                        files: stems.iter().map(|s| (s.to_string(), source(s, lang))).collect(),
                        schedule,
                        expect_events: None,
                        lang,
                        multi,
                        threads: n,
                        family: "arrival-permutations",
                    });
                }
            }
        }
    }
    // 3. splits: the same five items distributed over files in every set partition, every arrival order of the blocks (single-file mode)
    {
        let items = |lang: Lang| -> Vec<String> {
            let mut v = vec![
                "#[typeshare]\npub struct Alpha { pub a: u32, pub g: Gamma }\n".to_string(),
                "#[typeshare]\npub enum Beta { One, Two }\n".to_string(),
                "#[typeshare]\npub struct Gamma { pub b: Beta }\n".to_string(),
                "#[typeshare]\npub type Delta = Vec<Alpha>;\n".to_string(),
            ];
            v.push(if const_capable(lang) { "#[typeshare]\npub const EPSILON: u32 = 5;\n".to_string() } else { "#[typeshare]\n#[serde(tag = \"t\", content = \"c\")]\npub enum Epsilon { A(Alpha), B }\n".to_string() });
            v
        };
        let split_langs: Vec<Lang> = if thorough { ALL_LANGS.to_vec() } else { vec![Lang::TypeScript, Lang::Kotlin] };
        for part in set_partitions(5) {
            let k = part.len();
            for perm in permutations(k) {
                if !thorough && k >= 4 && perm != (0..k).collect::<Vec<_>>() && perm != (0..k).rev().collect::<Vec<_>>() {
                    continue; // quick: identity and reversal only for fine partitions
                }
                for &lang in &split_langs {
                    let its = items(lang);
                    let stems: Vec<&str> = STEMS[..k].to_vec();
                    let files: Vec<(String, String)> = part.iter().enumerate().map(|(b, blk)| (stems[b].to_string(), blk.iter().map(|i| its[*i].clone()).collect::<Vec<_>>().join("\n"))).collect();
                    let mut schedule = e3::start_barrier(&stems);
                    schedule.extend(perm.iter().map(|i| format!("send:{}", stems[*i])));
                    jobs.push(Job { class: format!("split|{}", lang.name()), files, schedule, expect_events: None, lang, multi: false, threads: k, family: "splits" });
                }
            }
        }
        // 3b. splits by size: one item alone in a large file, behind a comment that puts its annotation at every offset
        //     around the 8 KiB / 16 KiB / 64 KiB marks; the bytes must equal those of every other split
        for boundary in [8192usize, 16384, 65536] {
            for rel in -10i64..=1 {
                for &lang in &split_langs {
                    let its = items(lang);
                    let word_at = (boundary as i64 + rel) as usize;
                    let big = format!("//{}\n{}", "x".repeat(word_at - 2 - 3), its[1]);
                    let small = [its[0].clone(), its[2].clone(), its[3].clone(), its[4].clone()].join("\n");
                    let stems = [STEMS[0], STEMS[1]];
                    let files = vec![(stems[0].to_string(), small), (stems[1].to_string(), big)];
                    let mut schedule = e3::start_barrier(&stems);
                    schedule.extend(stems.iter().map(|s| format!("send:{s}")));
                    jobs.push(Job { class: format!("split|{}", lang.name()), files: files.clone(), schedule, expect_events: None, lang, multi: false, threads: 2, family: "splits-by-size" });
                    // the same two files found by a directory walk (files named as roots bypass what the walker leaves out)
                    if rel == 1 {
                        jobs.push(Job { class: format!("split|{}", lang.name()), files, schedule: vec![], expect_events: None, lang, multi: false, threads: 2, family: "splits-by-size-below-a-directory" });
                    }
                }
            }
        }
        // 3b'. one item alone in a file of 1, 2 and 5 MiB, found by a directory walk
        for mib in [1usize, 2, 5] {
            for &lang in &split_langs {
                let its = items(lang);
                let big = format!("//{}\n{}", "x".repeat(mib * 1024 * 1024), its[1]);
                let small = [its[0].clone(), its[2].clone(), its[3].clone(), its[4].clone()].join("\n");
                let files = vec![(STEMS[0].to_string(), small), (STEMS[1].to_string(), big)];
                jobs.push(Job { class: format!("split|{}", lang.name()), files, schedule: vec![], expect_events: None, lang, multi: false, threads: 2, family: "splits-by-size-below-a-directory" });
            }
        }
    }
    // 3c. splits of a reference cycle: an enum that contains itself only through another item, the two in one file or in
    //     two (whatever is computed about the cycle must not depend on where a file boundary falls); every language
    {
        let its = [
            "#[typeshare]\n#[serde(tag = \"type\", content = \"content\")]\npub enum Expr { Negate(Box<Unary>), Many { l: Vec<Unary> }, Lit(u32) }\n".to_string(),
            "#[typeshare]\npub struct Unary { pub operand: Expr, pub n: u32 }\n".to_string(),
            "#[typeshare]\npub struct Other { pub u: Option<Unary> }\n".to_string(),
        ];
        for part in set_partitions(3) {
            let k = part.len();
            for perm in permutations(k) {
                for &lang in &ALL_LANGS {
                    let stems: Vec<&str> = STEMS[..k].to_vec();
                    let files: Vec<(String, String)> = part.iter().enumerate().map(|(b, blk)| (stems[b].to_string(), blk.iter().map(|i| its[*i].clone()).collect::<Vec<_>>().join("\n"))).collect();
                    let mut schedule = e3::start_barrier(&stems);
                    schedule.extend(perm.iter().map(|i| format!("send:{}", stems[*i])));
                    jobs.push(Job { class: format!("split-cycle|{}", lang.name()), files, schedule, expect_events: None, lang, multi: false, threads: k, family: "splits-of-a-reference-cycle" });
                }
            }
        }
    }
    // 3d. items whose serde name sorts on the other side of a neighbour than their Rust name, one per file: every arrival
    //     order, every language (single-file mode merges the files into one list; multi-file mode, a crate per file, as a control)
    {
        let srcs = [
            "#[typeshare]\n#[serde(rename = \"Zulu\")]\npub struct Alpha { pub a: u32 }\n",
            "#[typeshare]\npub struct Mike { pub m: u32 }\n",
            "#[typeshare]\n#[serde(rename = \"Bravo\")]\npub struct Yankee { pub y: u32 }\n",
            "#[typeshare]\n#[serde(rename = \"November\", tag = \"t\", content = \"c\")]\npub enum Charlie { One(u32), Two }\n#[typeshare]\n#[serde(rename = \"Delta\")]\npub type Xray = Vec<u32>;\n",
        ];
        let stems: Vec<&str> = STEMS[..4].to_vec();
        for perm in permutations(4) {
            for &lang in &ALL_LANGS {
                for multi in [false, true] {
                    if !thorough && multi && !matches!(lang, Lang::TypeScript | Lang::Kotlin) {
                        continue;
                    }
                    let files: Vec<(String, String)> = stems.iter().zip(srcs.iter()).map(|(s, c)| (s.to_string(), c.to_string())).collect();
                    let mut schedule = e3::start_barrier(&stems);
                    schedule.extend(perm.iter().map(|i| format!("send:{}", stems[*i])));
                    jobs.push(Job { class: format!("renamed-across-files|{}|multi={multi}", lang.name()), files, schedule, expect_events: None, lang, multi, threads: 4, family: "renamed-items-across-files" });
                }
            }
        }
    }
    // 3e. item names that a looser order than the byte order would tie (a name that is a prefix of the next one, digit
    //     runs of equal value, names equal up to case), one per file: every arrival order, every language
    {
        let srcs = [
            "#[typeshare]\npub struct Request { pub a: u32 }\n#[typeshare]\npub enum Mode2 { A, B }\n",
            "#[typeshare]\npub struct Request2 { pub b: u32 }\n#[typeshare]\npub type Ids = Vec<u32>;\n",
            "#[typeshare]\npub struct Request02 { pub c: u32 }\n#[typeshare]\npub enum Mode { C, D }\n",
            "#[typeshare]\npub struct REQUEST { pub d: u32 }\n#[typeshare]\npub type Ids2 = Vec<String>;\n",
        ];
        let stems: Vec<&str> = STEMS[..4].to_vec();
        for perm in permutations(4) {
            for &lang in &ALL_LANGS {
                let files: Vec<(String, String)> = stems.iter().zip(srcs.iter()).map(|(s, c)| (s.to_string(), c.to_string())).collect();
                let mut schedule = e3::start_barrier(&stems);
                schedule.extend(perm.iter().map(|i| format!("send:{}", stems[*i])));
                jobs.push(Job { class: format!("near-equal-names|{}", lang.name()), files, schedule, expect_events: None, lang, multi: false, threads: 4, family: "nearly-equal-names-across-files" });
            }
        }
    }
    // 4. thread counts 1..16, free running (no forced schedule)
    for t in 1..=16usize {
        for &lang in &[Lang::TypeScript, Lang::Go] {
            for rep_i in 0..(if thorough { 3 } else { 1 }) {
                let _ = rep_i;
                let stems: Vec<&str> = STEMS[..4].to_vec();
                jobs.push(Job { class: format!("perm|n=4|{}|multi=false", lang.name()), files: stems.iter().map(|s| (s.to_string(), source(s, lang))).collect(), schedule: vec![], expect_events: None, lang, multi: false, threads: t, family: "thread-counts" });
            }
        }
    }
    // 5. the same item name in two files (single-file mode merges both crates)
    for perm in permutations(3) {
        for &lang in &[Lang::TypeScript, Lang::Swift] {
            let stems = ["fa", "fb", "fc"];
            let files = vec![
                ("fa".to_string(), "#[typeshare]\npub struct Twin { pub from_a: u32 }\n".to_string()),
                ("fb".to_string(), "#[typeshare]\npub struct Twin { pub from_b: String }\n".to_string()),
                ("fc".to_string(), "#[typeshare]\npub struct Other { pub t: Twin }\n".to_string()),
            ];
            let mut schedule = e3::start_barrier(&stems);
            schedule.extend(perm.iter().map(|i| format!("send:{}", stems[*i])));
            jobs.push(Job { class: format!("twins|{}", lang.name()), files, schedule, expect_events: None, lang, multi: false, threads: 3, family: "same-name-in-two-files" });
        }
    }

    // 6. back-pressure: more results than the channel holds (capacity 100) while the collector is held back.
    //    The first message is received but its label `recv:1` is scheduled after the 102nd send has been released,
    //    so 100 results are queued and one is in the collector's hands when the next walker wants to send.
    {
        // exactly 102 files: every send is scheduled (an unscheduled walker would take a slot of the channel at an arbitrary time)
        let n = 102usize;
        let stems: Vec<String> = (1..=n).map(|i| format!("g{i:03}")).collect();
        let stem_refs: Vec<&str> = stems.iter().map(|s| s.as_str()).collect();
        for &lang in &[Lang::TypeScript, Lang::Kotlin] {
            let files: Vec<(String, String)> = stems.iter().map(|s| (s.clone(), format!("#[typeshare]\npub struct S{s} {{ pub a: u32 }}\n"))).collect();
            // reference: free running
            jobs.push(Job { class: format!("backpressure|{}", lang.name()), files: files.clone(), schedule: vec![], expect_events: None, lang, multi: false, threads: n, family: "channel-capacity" });
            for held in [101usize] {
                let mut schedule = e3::start_barrier(&stem_refs);
                for s in &stems[..held] {
                    schedule.push(format!("send:{s}"));
                }
                // the (held+1)-th walker is released towards a full channel before the collector may go on
                schedule.push(format!("send-unconfirmed:{}", stems[held]));
                schedule.push("recv:1".into());
                jobs.push(Job { class: format!("backpressure|{}", lang.name()), files: files.clone(), schedule, expect_events: None, lang, multi: false, threads: n, family: "channel-capacity" });
            }
        }
    }

    // pilot: one job per family first. If the binary hangs or cannot follow any schedule there, running the other
    // thousands of replays into their watchdogs would take hours and add nothing.
    {
        let mut seen_fams: BTreeSet<&str> = BTreeSet::new();
        let pilot: Vec<&Job> = jobs.iter().filter(|j| seen_fams.insert(j.family)).collect();
        let pres: Vec<Replay> = par_map(&pilot, report::threads(), |j| if j.family.ends_with("below-a-directory") { e3::replay_below_a_directory(&j.files, j.lang, j.multi, j.threads) } else { e3::replay(&j.files, &j.schedule, j.lang, j.multi, j.threads, &[]) });
        let hangs: Vec<(&&Job, &Replay)> = pilot.iter().zip(pres.iter()).filter(|(_, r)| r.class == "hang").collect();
        let infeasible = pres.iter().filter(|r| r.class == "schedule-infeasible").count();
        if !hangs.is_empty() || infeasible * 2 > pilot.len() {
            for (j, r) in &hangs {
                rep.vios.add(Violation {
                    sig: format!("C06|run-failed:hang|family={}|{}|pilot", j.family, j.lang.name()),
                    detail: json!({"family": j.family, "argv": r.argv, "schedule": r.schedule, "exit_code": r.code, "stderr": r.stderr, "note": "pilot run (one job per family); the remaining replays were skipped"}),
                });
            }
            if hangs.is_empty() {
                rep.machinery(format!("pilot: {infeasible} of {} pilot schedules could not be followed by the binary; the remaining {} replays were skipped", pilot.len(), jobs.len()));
            }
            rep.cov("pilot", json!({"jobs": pilot.len(), "hangs": hangs.len(), "schedules_not_followed": infeasible, "remaining_jobs_skipped": jobs.len()}));
            hashorder::c06_family(&mut rep);
            hashorder::c06_internal_sets_family(&mut rep);
            return rep.finish();
        }
    }
    let results: Vec<Replay> = par_map(&jobs, report::threads(), |j| if j.family.ends_with("below-a-directory") { e3::replay_below_a_directory(&j.files, j.lang, j.multi, j.threads) } else { e3::replay(&j.files, &j.schedule, j.lang, j.multi, j.threads, &[]) });
    let mut classes: BTreeMap<String, BTreeMap<String, usize>> = BTreeMap::new(); // class -> outputs key -> first job index
    let mut fam_counts: BTreeMap<&str, u64> = BTreeMap::new();
    let mut conformance_ok = 0u64;
    for (i, (j, r)) in jobs.iter().zip(results.iter()).enumerate() {
        *fam_counts.entry(j.family).or_insert(0) += 1;
        if r.class != "ok" {
            // not a determinism verdict: the run itself failed
            if r.class == "schedule-infeasible" {
                rep.machinery(format!("schedule infeasible on the real binary ({}): {}", j.family, r.schedule.chars().take(300).collect::<String>()));
            } else {
                rep.vios.add(Violation {
                    sig: format!("C06|run-failed:{}|family={}|{}", r.class, j.family, j.lang.name()),
                    detail: json!({"family": j.family, "argv": r.argv, "schedule": r.schedule, "exit_code": r.code, "stderr": r.stderr}),
                });
            }
            continue;
        }
        if let Some(ev) = &j.expect_events {
            // conformance: the real execution passed exactly the model path's events, in order
            let passed: Vec<&String> = r.passed.iter().filter(|l| !l.starts_with("start:")).collect();
            if passed.len() != ev.len() || passed.iter().zip(ev.iter()).any(|(a, b)| *a != b) {
                rep.machinery(format!("conformance failure: model path {:?} replayed as {:?}", ev, passed));
            } else {
                conformance_ok += 1;
            }
        }
        if r.outputs.is_empty() {
            rep.vios.add(Violation { sig: format!("C06|no-output|family={}|{}", j.family, j.lang.name()), detail: json!({"argv": r.argv, "schedule": r.schedule, "stderr": r.stderr}) });
            continue;
        }
        classes.entry(j.class.clone()).or_default().entry(outputs_key(r)).or_insert(i);
    }
    let mut distinct_outcomes = 0u64;
    for (class, outs) in &classes {
        distinct_outcomes += outs.len() as u64;
        if outs.len() > 1 {
            let idx: Vec<usize> = outs.values().copied().collect();
            let (a, b) = (idx[0], idx[1]);
            // which lines differ (semantic hint for the signature): kind of the first differing line
            let ta = results[a].outputs.values().map(|v| String::from_utf8_lossy(v).into_owned()).collect::<Vec<_>>().join("\n");
            let tb = results[b].outputs.values().map(|v| String::from_utf8_lossy(v).into_owned()).collect::<Vec<_>>().join("\n");
            let diff_line = ta.lines().zip(tb.lines()).find(|(x, y)| x != y).map(|(x, _)| x.to_string()).unwrap_or_default();
            let kind = if diff_line.to_lowercase().contains("const") || diff_line.contains("C_F") || diff_line.contains("EPSILON") {
                "const-order"
            } else if diff_line.contains("from_a") || diff_line.contains("from_b") || diff_line.contains("Twin") {
                "same-name-definitions-order"
            } else {
                "other"
            };
            let fam = jobs[a].family;
            let class_kind = class.split('|').next().unwrap_or("");
            rep.vios.add(Violation {
                sig: format!("C06|nondeterministic-output|{class_kind}|{}|mode={}|differs-in={kind}", jobs[a].lang.name(), if jobs[a].multi { "multi" } else { "single" }),
                detail: json!({"equivalence_class": class, "distinct_outputs": outs.len(), "family": fam,
                    "run_a": {"argv": results[a].argv, "schedule": results[a].schedule, "threads": jobs[a].threads, "output": ta},
                    "run_b": {"argv": results[b].argv, "schedule": results[b].schedule, "threads": jobs[b].threads, "output": tb},
                    "first_differing_line": diff_line}),
            });
        }
    }
    // 5b. several files of one crate next to another crate, multi-file mode: every arrival order of the four files
    {
        let files: Vec<(String, String, String)> = vec![
            ("sh".into(), "shared".into(), "#[typeshare]\npub struct Status { pub shared: u32 }\n#[typeshare]\npub struct Other { pub o: u32 }\n".into()),
            ("st".into(), "api".into(), "#[typeshare]\npub struct Status { pub local: u32 }\n".into()),
            ("rp".into(), "api".into(), "use shared::{Status, Other};\n#[typeshare]\npub struct Report { pub s: Status, pub o: Other }\n".into()),
            ("lb".into(), "api".into(), "#[typeshare]\npub struct Lib { pub a: u32, pub r: Option<Report> }\n".into()),
        ];
        let stems: Vec<&str> = files.iter().map(|f| f.0.as_str()).collect();
        let mut jobs2: Vec<(Lang, Vec<String>)> = Vec::new();
        for perm in permutations(4) {
            for lang in [Lang::TypeScript, Lang::Kotlin, Lang::Swift] {
                let mut schedule = e3::start_barrier(&stems);
                schedule.extend(perm.iter().map(|i| format!("send:{}", stems[*i])));
                jobs2.push((lang, schedule));
            }
        }
        let res2: Vec<Replay> = par_map(&jobs2, report::threads(), |(lang, schedule)| e3::replay_crates(&files, schedule, *lang, 4));
        let mut per_lang: BTreeMap<&'static str, BTreeMap<String, usize>> = BTreeMap::new();
        for (i, ((lang, _), r)) in jobs2.iter().zip(res2.iter()).enumerate() {
            if r.class != "ok" {
                if r.class == "schedule-infeasible" {
                    rep.machinery(format!("schedule infeasible on the real binary (several-files-of-one-crate): {}", r.schedule.chars().take(200).collect::<String>()));
                } else {
                    rep.vios.add(Violation { sig: format!("C06|run-failed:{}|family=several-files-of-one-crate|{}", r.class, lang.name()), detail: json!({"argv": r.argv, "schedule": r.schedule, "stderr": r.stderr}) });
                }
                continue;
            }
            per_lang.entry(lang.name()).or_default().entry(outputs_key(r)).or_insert(i);
        }
        for (lang, outs) in &per_lang {
            if outs.len() > 1 {
                let idx: Vec<usize> = outs.values().copied().collect();
                let show = |r: &Replay| r.outputs.iter().map(|(k, v)| format!("== {k}\n{}", String::from_utf8_lossy(v))).collect::<Vec<_>>().join("\n");
                rep.vios.add(Violation {
                    sig: format!("C06|nondeterministic-output|arrival-order|several-files-of-one-crate|{lang}|mode=multi"),
                    detail: json!({"crates": files.iter().map(|f| json!({"file": f.0, "crate": f.1, "source": f.2})).collect::<Vec<_>>(), "distinct_outputs": outs.len(),
                        "run_a": {"schedule": res2[idx[0]].schedule, "output": show(&res2[idx[0]])}, "run_b": {"schedule": res2[idx[1]].schedule, "output": show(&res2[idx[1]])}}),
                });
            }
        }
        rep.cov("several_files_of_one_crate", json!({"runs": jobs2.len(), "arrival_orders": 24, "languages": ["typescript", "kotlin", "swift"], "layout": "crate shared (1 file), crate api (3 files: one defines a type of the same name as an imported one)"}));
        rep.cov_add("evaluations", jobs2.len() as u64);
    }
    // 5c. source files that belong to two crates (symbolic links in the second crate), multi-file mode, free running at
    //     several thread counts: both crates' files have every type, and the bytes are the same in every run
    {
        let n = 12usize;
        let mut files: Vec<(String, String, String)> = Vec::new();
        for i in 0..n {
            files.push((format!("m{i:02}"), "alpha".into(), format!("#[typeshare]\npub struct Shared{i:02} {{ pub v{i}: u32 }}\n")));
        }
        for i in 0..n {
            files.push((format!("l{i:02}"), "beta".into(), format!("->alpha/m{i:02}")));
        }
        files.push(("own".into(), "beta".into(), "#[typeshare]\npub struct OwnOfBeta { pub b: u32 }\n".into()));
        let mut jobs3: Vec<(Lang, usize)> = Vec::new();
        for lang in [Lang::TypeScript, Lang::Kotlin] {
            for t in [1usize, 2, 3, 4, 8, 16] {
                for _ in 0..(if thorough { 6 } else { 3 }) {
                    jobs3.push((lang, t));
                }
            }
        }
        let res3: Vec<Replay> = par_map(&jobs3, report::threads(), |(lang, t)| e3::replay_crates(&files, &[], *lang, *t));
        let mut per_lang: BTreeMap<&'static str, BTreeMap<String, usize>> = BTreeMap::new();
        for (i, ((lang, t), r)) in jobs3.iter().zip(res3.iter()).enumerate() {
            if r.class != "ok" {
                rep.vios.add(Violation { sig: format!("C06|run-failed:{}|family=files-shared-by-two-crates|{}", r.class, lang.name()), detail: json!({"argv": r.argv, "threads": t, "stderr": r.stderr}) });
                continue;
            }
            // the deterministic part: every shared type in both crates' outputs
            let missing: Vec<String> = r.outputs.iter().flat_map(|(name, bytes)| {
                let text = String::from_utf8_lossy(bytes).into_owned();
                (0..n).filter(move |i| !text.contains(&format!("Shared{i:02}"))).map(move |i| format!("{name}: Shared{i:02}"))
            }).collect();
            if !missing.is_empty() || r.outputs.len() != 2 {
                rep.vios.add(Violation {
                    sig: format!("C06|output-depends-on-who-reaches-a-shared-file-first|files-shared-by-two-crates|{}|mode=multi", lang.name()),
                    detail: json!({"argv": r.argv, "threads": t, "output_files": r.outputs.keys().collect::<Vec<_>>(), "missing": missing, "layout": "crate alpha: 12 files; crate beta: 12 symbolic links to them + 1 own file"}),
                });
            }
            per_lang.entry(lang.name()).or_default().entry(outputs_key(r)).or_insert(i);
        }
        for (lang, outs) in &per_lang {
            if outs.len() > 1 {
                let idx: Vec<usize> = outs.values().copied().collect();
                rep.vios.add(Violation {
                    sig: format!("C06|nondeterministic-output|scheduling|files-shared-by-two-crates|{lang}|mode=multi"),
                    detail: json!({"distinct_outputs": outs.len(), "run_a": {"threads": jobs3[idx[0]].1, "files": res3[idx[0]].outputs.iter().map(|(k, v)| (k.clone(), v.len())).collect::<Vec<_>>()},
                        "run_b": {"threads": jobs3[idx[1]].1, "files": res3[idx[1]].outputs.iter().map(|(k, v)| (k.clone(), v.len())).collect::<Vec<_>>()}}),
                });
            }
        }
        rep.cov("files_shared_by_two_crates", json!({"runs": jobs3.len(), "thread_counts": [1, 2, 3, 4, 8, 16], "schedule": "free running (observed, not forced)", "languages": ["typescript", "kotlin"], "layout": "crate alpha: 12 files; crate beta: 12 symbolic links to them + 1 own file"}));
        rep.cov_add("evaluations", jobs3.len() as u64);
    }
    // 5d. crates nested in a crate's directory and annotated files outside any src, multi-file mode, free running at
    //     several thread counts: which crate a file belongs to is a function of its path, so every run gives the same files
    {
        use crate::cli::{self, run_cli, s, Scratch};
        let mut jobs4: Vec<(Lang, usize)> = Vec::new();
        for lang in [Lang::TypeScript, Lang::Kotlin] {
            for t in [1usize, 2, 3, 4, 8, 16] {
                for _ in 0..(if thorough { 6 } else { 3 }) {
                    jobs4.push((lang, t));
                }
            }
        }
        let res4: Vec<(&'static str, BTreeMap<String, Vec<u8>>, String)> = par_map(&jobs4, report::threads(), |(lang, t)| {
            let sc = Scratch::new("c06n");
            for i in 0..8 {
                sc.write(&format!("ws/outer/src/m{i}.rs"), format!("#[typeshare]\npub struct Outer{i} {{ pub v: u32 }}\n").as_bytes());
                sc.write(&format!("ws/second/src/m{i}.rs"), format!("#[typeshare]\npub struct Second{i} {{ pub v: u32 }}\n").as_bytes());
            }
            sc.write("ws/outer/crates/inner/src/lib.rs", b"#[typeshare]\npub struct Inner { pub v: u32 }\n");
            sc.write("ws/outer/crates/inner/src/more.rs", b"#[typeshare]\npub struct InnerMore { pub v: u32 }\n");
            sc.write("ws/outer/examples/demo.rs", b"#[typeshare]\npub struct ExampleOnly { pub v: u32 }\n");
            sc.write("ws/second/benches/b.rs", b"#[typeshare]\npub struct BenchOnly { pub v: u32 }\n");
            sc.mkdir("out");
            let mut args = cli::lang_args(*lang);
            args.extend([s("-d"), sc.path("out").to_string_lossy().into_owned(), sc.path("ws").to_string_lossy().into_owned()]);
            let r = run_cli(&args, &sc.root, &[("TYPESHARE_VERIF_THREADS", t.to_string())], cli::TIMEOUT);
            (r.class(), cli::snapshot(&sc.path("out")), r.stderr.chars().take(300).collect())
        });
        let mut per_lang: BTreeMap<&'static str, BTreeMap<String, usize>> = BTreeMap::new();
        for (i, ((lang, t), (class, outs, stderr))) in jobs4.iter().zip(res4.iter()).enumerate() {
            if *class != "ok" {
                rep.vios.add(Violation { sig: format!("C06|run-failed:{class}|family=nested-crates|{}", lang.name()), detail: json!({"threads": t, "stderr": stderr}) });
                continue;
            }
            let key = outs.iter().map(|(k, v)| format!("== {k}\n{}", String::from_utf8_lossy(v))).collect::<Vec<_>>().join("\n");
            per_lang.entry(lang.name()).or_default().entry(key).or_insert(i);
        }
        for (lang, outs) in &per_lang {
            if outs.len() > 1 {
                let idx: Vec<usize> = outs.values().copied().collect();
                let names = |i: usize| res4[i].1.iter().map(|(k, v)| (k.clone(), v.len())).collect::<Vec<_>>();
                rep.vios.add(Violation {
                    sig: format!("C06|nondeterministic-output|scheduling|nested-crates|{lang}|mode=multi"),
                    detail: json!({"distinct_outputs": outs.len(), "run_a": {"threads": jobs4[idx[0]].1, "files": names(idx[0])}, "run_b": {"threads": jobs4[idx[1]].1, "files": names(idx[1])},
                        "layout": "crates outer and second with 8 files each, crate inner nested in outer/crates, annotated files under outer/examples and second/benches"}),
                });
            }
        }
        rep.cov("nested_crates", json!({"runs": jobs4.len(), "thread_counts": [1, 2, 3, 4, 8, 16], "schedule": "free running (observed, not forced)", "languages": ["typescript", "kotlin"]}));
        rep.cov_add("evaluations", jobs4.len() as u64);
    }
    // 6. hash-order family (in-process, forced iteration orders)
    hashorder::c06_family(&mut rep);
    hashorder::c06_internal_sets_family(&mut rep);

    rep.cov("states", json!(model_states.max(1)));
    rep.cov("transitions", json!(model_transitions.max(1)));
    rep.cov("traces_validated_against_impl", json!(conformance_ok));
    rep.cov_add("evaluations", jobs.len() as u64);
    rep.cov("model", json!({"spec": e3::MODEL, "tlc": tlc_summaries, "maximal_paths": model_paths, "paths_replayed_with_matching_event_trace": conformance_ok}));
    rep.cov("runs_per_family", json!(fam_counts));
    rep.cov("equivalence_classes", json!(classes.len()));
    rep.cov("distinct_outputs_over_all_classes", json!(distinct_outcomes));
    rep.cov("distinct_nontrivial", json!(jobs.iter().filter(|j| j.schedule.len() > j.files.len() + 1).count()));
    rep.cov("exhaustive", json!(true));
    rep.sample(json!({"family": "model-paths", "schedule": jobs.first().map(|j| j.schedule.join(","))}));
    if let Some(j) = jobs.iter().find(|j| j.family == "splits" && j.files.len() == 3) {
        rep.sample(json!({"family": "splits", "files": j.files, "schedule": j.schedule.join(",")}));
    }
    rep.cov("rule", json!("(1) every maximal path of the TLA+ protocol model (2 and 3 files, all results Some) replayed as a forced schedule on the real binary, with the hook's event trace required to equal the model path; (2) every arrival permutation of n ≤ 4 (quick) / ≤ 6 (thorough) files × single/multi × languages; (3) every set partition of five items over files × arrival orders of the blocks; (4) thread counts 1..16 free-running; (5) same item name in two files; (6) every iteration order of the order-sensitive hash collections (in-process). Oracle: byte-identical output files within each equivalence class. non-trivial = schedule with more than one send."));
    rep.assume("interleavings inside the ignore crate's work-stealing and inside crossbeam's channel are not explored (no installed tool can intercept them); each file is its own root so that file→worker assignment is fixed");
    rep.assume("all walkers hold their file before the first send (start barrier); executions in which a walker skips its file after another walker's Quit are not explored");
    rep.finish()
}
