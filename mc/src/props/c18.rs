//! C18 — I54/U53 hold exactly the integers JavaScript can represent safely.
//! Exhaustive over value windows around every power of two and every limit.
use crate::report::{self, Report, VioSet, Violation};
use serde_json::json;
use std::collections::BTreeSet;
use std::convert::TryFrom;
use typeshare::{usize_from_u53_saturated, I54, U53};

// Independent constants, written as literals (not imported from the crate under test).
const U53_HI: u64 = 9007199254740991;
const I54_HI: i64 = 9007199254740991;
const I54_LO: i64 = -9007199254740991;
static RADIUS: std::sync::atomic::AtomicU64 = std::sync::atomic::AtomicU64::new(0);
fn radius() -> u64 {
    RADIUS.load(std::sync::atomic::Ordering::Relaxed)
}

fn centers_u64() -> Vec<u64> {
    let mut c: BTreeSet<u64> = BTreeSet::new();
    c.insert(0);
    for k in 0..64 {
        c.insert(1u64 << k);
    }
    for x in [U53_HI, U53_HI + 1, u8::MAX as u64, u16::MAX as u64, u32::MAX as u64, u64::MAX, i8::MAX as u64, i16::MAX as u64, i32::MAX as u64, i64::MAX as u64] {
        c.insert(x);
    }
    c.into_iter().collect()
}

fn centers_i64() -> Vec<i64> {
    let mut c: BTreeSet<i64> = BTreeSet::new();
    c.insert(0);
    for k in 0..63 {
        c.insert(1i64 << k);
        c.insert(-(1i64 << k));
    }
    for x in [
        I54_HI, I54_HI + 1, I54_LO, I54_LO - 1, i64::MIN, i64::MAX, i8::MIN as i64, i8::MAX as i64, i16::MIN as i64, i16::MAX as i64,
        i32::MIN as i64, i32::MAX as i64, u8::MAX as i64, u16::MAX as i64, u32::MAX as i64,
    ] {
        c.insert(x);
    }
    c.into_iter().collect()
}

/// Union of [c-r, c+r] windows clipped to the type, as disjoint sorted ranges.
fn windows_u64(r: u64) -> Vec<(u64, u64)> {
    let mut v: Vec<(u64, u64)> = centers_u64().into_iter().map(|c| (c.saturating_sub(r), c.saturating_add(r))).collect();
    v.sort();
    let mut out: Vec<(u64, u64)> = Vec::new();
    for (a, b) in v {
        if let Some(l) = out.last_mut() {
            if a <= l.1.saturating_add(1) {
                l.1 = l.1.max(b);
                continue;
            }
        }
        out.push((a, b));
    }
    out
}
fn windows_i64(r: i64) -> Vec<(i64, i64)> {
    let mut v: Vec<(i64, i64)> = centers_i64().into_iter().map(|c| (c.saturating_sub(r), c.saturating_add(r))).collect();
    v.sort();
    let mut out: Vec<(i64, i64)> = Vec::new();
    for (a, b) in v {
        if let Some(l) = out.last_mut() {
            if a <= l.1.saturating_add(1) {
                l.1 = l.1.max(b);
                continue;
            }
        }
        out.push((a, b));
    }
    out
}

fn near(x: i128) -> String {
    // semantic location of a value: which limit / power it is close to (no raw value in the signature)
    let lim: [(&str, i128); 8] = [
        ("U53_MAX", U53_HI as i128),
        ("I54_MIN", I54_LO as i128),
        ("zero", 0),
        ("u32_max", u32::MAX as i128),
        ("i32_min", i32::MIN as i128),
        ("i32_max", i32::MAX as i128),
        ("u64_max", u64::MAX as i128),
        ("i64_min", i64::MIN as i128),
    ];
    for (n, l) in lim {
        let d = x - l;
        if d.abs() <= 2 {
            return format!("{n}{d:+}");
        }
    }
    if x > U53_HI as i128 {
        "above_range".into()
    } else if x < I54_LO as i128 {
        "below_range".into()
    } else {
        "in_range".into()
    }
}

/// Every comparison operator of the pair `(l, r)` against the same operator on the underlying integers `(wl, wr)`:
/// the name of the first one that disagrees.
fn cmp_ops<L: PartialOrd<R> + PartialEq<R>, R, W: Ord>(l: &L, r: &R, wl: W, wr: W) -> Option<&'static str> {
    if l.partial_cmp(r) != Some(wl.cmp(&wr)) {
        return Some("partial_cmp");
    }
    if (l == r) != (wl == wr) {
        return Some("==");
    }
    if (l != r) != (wl != wr) {
        return Some("!=");
    }
    if (l < r) != (wl < wr) {
        return Some("<");
    }
    if (l <= r) != (wl <= wr) {
        return Some("<=");
    }
    if (l > r) != (wl > wr) {
        return Some(">");
    }
    if (l >= r) != (wl >= wr) {
        return Some(">=");
    }
    None
}

/// Same-type pairs additionally have the total order's methods and a hash that respects equality.
fn ord_ops<T: Ord + Copy + std::hash::Hash, W: Ord + Copy>(l: T, r: T, wl: W, wr: W, back: impl Fn(T) -> W) -> Option<&'static str> {
    use std::hash::Hasher;
    if let Some(op) = cmp_ops(&l, &r, wl, wr) {
        return Some(op);
    }
    if l.cmp(&r) != wl.cmp(&wr) {
        return Some("cmp");
    }
    if back(l.max(r)) != wl.max(wr) {
        return Some("max");
    }
    if back(l.min(r)) != wl.min(wr) {
        return Some("min");
    }
    if wl == wr {
        let h = |t: T| {
            let mut s = std::collections::hash_map::DefaultHasher::new();
            t.hash(&mut s);
            s.finish()
        };
        if h(l) != h(r) {
            return Some("hash-of-equal-values");
        }
    }
    None
}

#[derive(Default)]
struct Acc {
    vios: VioSet,
    values: u64,
    ops: u64,
    accepted: u64,
    rejected: u64,
    json: u64,
    nontrivial: u64,
}

fn bad(acc: &mut Acc, ty: &str, op: &str, x: i128, exp: String, obs: String) {
    acc.vios.add(Violation {
        sig: format!("C18|{ty}|{op}|{}", near(x)),
        detail: json!({"type": ty, "operation": op, "value": x.to_string(), "expected": exp, "observed": obs}),
    });
}

fn check_u64(x: u64, do_json: bool, acc: &mut Acc) {
    if do_json {
        // the same literal read as the *other* type: a u64 literal into I54 is accepted iff it is within I54's range
        acc.json += 1;
        let lit = x.to_string();
        let d: Result<I54, _> = serde_json::from_str(&lit);
        let want = x <= I54_HI as u64;
        match (&d, want) {
            (Ok(v), true) if i64::from(*v) as u64 == x => {}
            (Err(_), false) => {}
            _ => bad(acc, "I54", "json_deserialize_unsigned_literal", x as i128, format!("accept={want}"), format!("{d:?}")),
        }
    }
    for a in U53_ANCHORS {
        let v = U53::try_from(a).expect("anchor in range");
        acc.ops += 1;
        let want = a.cmp(&x);
        if let Some(op) = cmp_ops(&v, &x, a, x) {
            bad(acc, "U53", "compare_with_u64", x as i128, format!("anchor {} {:?} operand", near(a as i128), want), format!("operator {op} disagrees; partial_cmp = {:?}", v.partial_cmp(&x)));
        }
    }
    acc.values += 1;
    if x.abs_diff(U53_HI) <= radius() {
        acc.nontrivial += 1;
    }
    let want = x <= U53_HI;
    let r = U53::try_from(x);
    acc.ops += 1;
    if r.is_ok() != want {
        bad(acc, "U53", "try_from_u64", x as i128, format!("accept={want}"), format!("accept={}", r.is_ok()));
    }
    if let Ok(v) = r {
        acc.accepted += 1;
        let back: u64 = v.into();
        acc.ops += 5;
        if back != x {
            bad(acc, "U53", "into_u64", x as i128, x.to_string(), back.to_string());
        }
        if !(v == x) || v.partial_cmp(&x) != Some(std::cmp::Ordering::Equal) {
            bad(acc, "U53", "eq_u64", x as i128, "equal".into(), "not equal".into());
        }
        if let Some(op) = cmp_ops(&v, &x, x, x) {
            bad(acc, "U53", "compare_with_own_value_as_u64", x as i128, "every operator as on u64".into(), format!("operator {op} disagrees"));
        }
        // same-type comparisons: with a second construction of the same value, and with every anchor on either side
        let twin = U53::try_from(x).expect("accepted once");
        acc.ops += 2 + 2 * U53_ANCHORS.len() as u64;
        if let Some(op) = ord_ops(v, twin, x, x, u64::from) {
            bad(acc, "U53", "same_type_comparison_of_equal_values", x as i128, "every operator as on u64".into(), format!("operator {op} disagrees"));
        }
        for a in U53_ANCHORS {
            let av = U53::try_from(a).expect("anchor in range");
            if let Some(op) = ord_ops(v, av, x, a, u64::from).or_else(|| ord_ops(av, v, a, x, u64::from)) {
                bad(acc, "U53", "same_type_comparison", x as i128, format!("as on u64 against anchor {}", near(a as i128)), format!("operator {op} disagrees"));
            }
        }
        if x > 0 {
            if let Ok(p) = U53::try_from(x - 1) {
                if !(p < v) || p == v || !(p < x) || !(v > x - 1) {
                    bad(acc, "U53", "ordering", x as i128, "pred < value".into(), "ordering disagrees".into());
                }
                if let Some(op) = ord_ops(p, v, x - 1, x, u64::from).or_else(|| ord_ops(v, p, x, x - 1, u64::from)) {
                    bad(acc, "U53", "same_type_comparison_with_predecessor", x as i128, "as on u64".into(), format!("operator {op} disagrees"));
                }
            }
        }
        let f = back as f64;
        if f as u64 != x {
            bad(acc, "U53", "f64_roundtrip", x as i128, x.to_string(), (f as u64).to_string());
        }
        let us = usize_from_u53_saturated(v);
        let exp_us = if x > usize::MAX as u64 { usize::MAX } else { x as usize };
        if us != exp_us {
            bad(acc, "U53", "usize_saturated", x as i128, exp_us.to_string(), us.to_string());
        }
        if v.to_string() != x.to_string() || format!("{v:?}") != x.to_string() {
            bad(acc, "U53", "display", x as i128, x.to_string(), v.to_string());
        }
        // narrowing
        let n32 = u32::try_from(v);
        if n32.is_ok() != (x <= u32::MAX as u64) || n32.map(|n| n as u64 != x).unwrap_or(false) {
            bad(acc, "U53", "try_into_u32", x as i128, format!("ok={}", x <= u32::MAX as u64), "differs".into());
        }
        let n16 = u16::try_from(v);
        if n16.is_ok() != (x <= u16::MAX as u64) || n16.map(|n| n as u64 != x).unwrap_or(false) {
            bad(acc, "U53", "try_into_u16", x as i128, format!("ok={}", x <= u16::MAX as u64), "differs".into());
        }
        let n8 = u8::try_from(v);
        if n8.is_ok() != (x <= u8::MAX as u64) || n8.map(|n| n as u64 != x).unwrap_or(false) {
            bad(acc, "U53", "try_into_u8", x as i128, format!("ok={}", x <= u8::MAX as u64), "differs".into());
        }
        if do_json {
            acc.json += 1;
            match serde_json::to_string(&v) {
                Ok(s) if s == x.to_string() => {}
                other => bad(acc, "U53", "json_serialize", x as i128, x.to_string(), format!("{other:?}")),
            }
        }
    } else {
        acc.rejected += 1;
    }
    if do_json {
        acc.json += 1;
        let lit = x.to_string();
        let d: Result<U53, _> = serde_json::from_str(&lit);
        match (&d, want) {
            (Ok(v), true) if u64::from(*v) == x => {}
            (Err(_), false) => {}
            _ => bad(acc, "U53", "json_deserialize", x as i128, format!("accept={want}"), format!("{d:?}")),
        }
        for (shape, got) in buffered_u(&lit) {
            acc.json += 1;
            if got != want.then_some(x) {
                bad(acc, "U53", &format!("json_deserialize_inside:{shape}"), x as i128, format!("accept={want}"), format!("{got:?}"));
            }
        }
    }
}

// the shapes through which serde buffers a value before handing it on (typeshare's own enum representation among them)
#[derive(serde::Deserialize, serde::Serialize)]
#[serde(tag = "type", content = "content")]
enum TaggedU {
    V(U53),
}
#[derive(serde::Deserialize, serde::Serialize)]
#[serde(tag = "type", content = "content")]
enum TaggedI {
    V(I54),
}
#[derive(serde::Deserialize)]
struct InnerU {
    v: U53,
}
#[derive(serde::Deserialize)]
struct FlatU {
    #[serde(flatten)]
    inner: InnerU,
}
#[derive(serde::Deserialize)]
struct InnerI {
    v: I54,
}
#[derive(serde::Deserialize)]
struct FlatI {
    #[serde(flatten)]
    inner: InnerI,
}
#[derive(serde::Deserialize)]
#[serde(untagged)]
enum UntaggedU {
    A(U53),
}
#[derive(serde::Deserialize)]
#[serde(untagged)]
enum UntaggedI {
    A(I54),
}

/// (shape name, accepted value) for the literal in each buffered shape
fn buffered_u(lit: &str) -> Vec<(&'static str, Option<u64>)> {
    vec![
        ("adjacently-tagged-content-first", serde_json::from_str::<TaggedU>(&format!("{{\"content\":{lit},\"type\":\"V\"}}")).ok().map(|TaggedU::V(v)| u64::from(v))),
        ("adjacently-tagged-type-first", serde_json::from_str::<TaggedU>(&format!("{{\"type\":\"V\",\"content\":{lit}}}")).ok().map(|TaggedU::V(v)| u64::from(v))),
        ("flattened-struct", serde_json::from_str::<FlatU>(&format!("{{\"v\":{lit}}}")).ok().map(|f| u64::from(f.inner.v))),
        ("untagged-enum", serde_json::from_str::<UntaggedU>(lit).ok().map(|UntaggedU::A(v)| u64::from(v))),
        ("vec-element", serde_json::from_str::<Vec<U53>>(&format!("[{lit}]")).ok().and_then(|v| v.first().map(|x| u64::from(*x)))),
        ("from-value", serde_json::from_str::<serde_json::Value>(lit).ok().and_then(|v| serde_json::from_value::<U53>(v).ok()).map(u64::from)),
    ]
}
fn buffered_i(lit: &str) -> Vec<(&'static str, Option<i64>)> {
    vec![
        ("adjacently-tagged-content-first", serde_json::from_str::<TaggedI>(&format!("{{\"content\":{lit},\"type\":\"V\"}}")).ok().map(|TaggedI::V(v)| i64::from(v))),
        ("adjacently-tagged-type-first", serde_json::from_str::<TaggedI>(&format!("{{\"type\":\"V\",\"content\":{lit}}}")).ok().map(|TaggedI::V(v)| i64::from(v))),
        ("flattened-struct", serde_json::from_str::<FlatI>(&format!("{{\"v\":{lit}}}")).ok().map(|f| i64::from(f.inner.v))),
        ("untagged-enum", serde_json::from_str::<UntaggedI>(lit).ok().map(|UntaggedI::A(v)| i64::from(v))),
        ("vec-element", serde_json::from_str::<Vec<I54>>(&format!("[{lit}]")).ok().and_then(|v| v.first().map(|x| i64::from(*x)))),
        ("from-value", serde_json::from_str::<serde_json::Value>(lit).ok().and_then(|v| serde_json::from_value::<I54>(v).ok()).map(i64::from)),
    ]
}

/// in-range anchors compared with every enumerated wide integer, in or out of range (heterogeneous ==, <, >, partial_cmp)
const I54_ANCHORS: [i64; 9] = [I54_LO, I54_LO + 1, -4294967296, -1, 0, 1, 4294967296, I54_HI - 1, I54_HI];
const U53_ANCHORS: [u64; 6] = [0, 1, 4294967296, U53_HI - 1, U53_HI, 255];

fn check_i64(x: i64, do_json: bool, acc: &mut Acc) {
    if do_json {
        // a (possibly negative) i64 literal into U53 is accepted iff it lies in [0, 2^53-1]
        acc.json += 1;
        let lit = x.to_string();
        let d: Result<U53, _> = serde_json::from_str(&lit);
        let want = x >= 0 && x as u64 <= U53_HI;
        match (&d, want) {
            (Ok(v), true) if u64::from(*v) == x as u64 => {}
            (Err(_), false) => {}
            _ => bad(acc, "U53", "json_deserialize_signed_literal", x as i128, format!("accept={want}"), format!("{d:?}")),
        }
    }
    for a in I54_ANCHORS {
        let v = I54::try_from(a).expect("anchor in range");
        acc.ops += 1;
        let want = a.cmp(&x);
        if let Some(op) = cmp_ops(&v, &x, a, x) {
            bad(acc, "I54", "compare_with_i64", x as i128, format!("anchor {} {:?} operand", near(a as i128), want), format!("operator {op} disagrees; partial_cmp = {:?}", v.partial_cmp(&x)));
        }
    }
    acc.values += 1;
    if x.abs_diff(I54_HI) <= radius() || x.abs_diff(I54_LO) <= radius() {
        acc.nontrivial += 1;
    }
    let want = (I54_LO..=I54_HI).contains(&x);
    let r = I54::try_from(x);
    acc.ops += 1;
    if r.is_ok() != want {
        bad(acc, "I54", "try_from_i64", x as i128, format!("accept={want}"), format!("accept={}", r.is_ok()));
    }
    if let Ok(v) = r {
        acc.accepted += 1;
        acc.ops += 5;
        let back: i64 = v.into();
        if back != x {
            bad(acc, "I54", "into_i64", x as i128, x.to_string(), back.to_string());
        }
        if !(v == x) || v.partial_cmp(&x) != Some(std::cmp::Ordering::Equal) {
            bad(acc, "I54", "eq_i64", x as i128, "equal".into(), "not equal".into());
        }
        if let Some(op) = cmp_ops(&v, &x, x, x) {
            bad(acc, "I54", "compare_with_own_value_as_i64", x as i128, "every operator as on i64".into(), format!("operator {op} disagrees"));
        }
        let twin = I54::try_from(x).expect("accepted once");
        acc.ops += 2 + 2 * I54_ANCHORS.len() as u64;
        if let Some(op) = ord_ops(v, twin, x, x, i64::from) {
            bad(acc, "I54", "same_type_comparison_of_equal_values", x as i128, "every operator as on i64".into(), format!("operator {op} disagrees"));
        }
        for a in I54_ANCHORS {
            let av = I54::try_from(a).expect("anchor in range");
            if let Some(op) = ord_ops(v, av, x, a, i64::from).or_else(|| ord_ops(av, v, a, x, i64::from)) {
                bad(acc, "I54", "same_type_comparison", x as i128, format!("as on i64 against anchor {}", near(a as i128)), format!("operator {op} disagrees"));
            }
        }
        if let Some(px) = x.checked_sub(1) {
            if let Ok(p) = I54::try_from(px) {
                if !(p < v) || p == v || !(p < x) || !(v > px) {
                    bad(acc, "I54", "ordering", x as i128, "pred < value".into(), "ordering disagrees".into());
                }
                if let Some(op) = ord_ops(p, v, px, x, i64::from).or_else(|| ord_ops(v, p, x, px, i64::from)) {
                    bad(acc, "I54", "same_type_comparison_with_predecessor", x as i128, "as on i64".into(), format!("operator {op} disagrees"));
                }
            }
        }
        let f = back as f64;
        if f as i64 != x {
            bad(acc, "I54", "f64_roundtrip", x as i128, x.to_string(), (f as i64).to_string());
        }
        if v.to_string() != x.to_string() || format!("{v:?}") != x.to_string() {
            bad(acc, "I54", "display", x as i128, x.to_string(), v.to_string());
        }
        let n32 = i32::try_from(v);
        let fits32 = x >= i32::MIN as i64 && x <= i32::MAX as i64;
        if n32.is_ok() != fits32 || n32.map(|n| n as i64 != x).unwrap_or(false) {
            bad(acc, "I54", "try_into_i32", x as i128, format!("ok={fits32}"), "differs".into());
        }
        let n16 = i16::try_from(v);
        let fits16 = x >= i16::MIN as i64 && x <= i16::MAX as i64;
        if n16.is_ok() != fits16 || n16.map(|n| n as i64 != x).unwrap_or(false) {
            bad(acc, "I54", "try_into_i16", x as i128, format!("ok={fits16}"), "differs".into());
        }
        let n8 = i8::try_from(v);
        let fits8 = x >= i8::MIN as i64 && x <= i8::MAX as i64;
        if n8.is_ok() != fits8 || n8.map(|n| n as i64 != x).unwrap_or(false) {
            bad(acc, "I54", "try_into_i8", x as i128, format!("ok={fits8}"), "differs".into());
        }
        if do_json {
            acc.json += 1;
            match serde_json::to_string(&v) {
                Ok(s) if s == x.to_string() => {}
                other => bad(acc, "I54", "json_serialize", x as i128, x.to_string(), format!("{other:?}")),
            }
        }
    } else {
        acc.rejected += 1;
    }
    if do_json {
        acc.json += 1;
        let lit = x.to_string();
        let d: Result<I54, _> = serde_json::from_str(&lit);
        match (&d, want) {
            (Ok(v), true) if i64::from(*v) == x => {}
            (Err(_), false) => {}
            _ => bad(acc, "I54", "json_deserialize", x as i128, format!("accept={want}"), format!("{d:?}")),
        }
        for (shape, got) in buffered_i(&lit) {
            acc.json += 1;
            if got != want.then_some(x) {
                bad(acc, "I54", &format!("json_deserialize_inside:{shape}"), x as i128, format!("accept={want}"), format!("{got:?}"));
            }
        }
    }
}

fn par_ranges<T: Copy + Send + Sync, F: Fn(T, T, &mut Acc) + Sync>(ranges: &[(T, T)], f: F) -> Vec<Acc> {
    let next = std::sync::atomic::AtomicUsize::new(0);
    let out = std::sync::Mutex::new(Vec::new());
    std::thread::scope(|s| {
        for _ in 0..report::threads() {
            s.spawn(|| {
                let mut acc = Acc::default();
                loop {
                    let i = next.fetch_add(1, std::sync::atomic::Ordering::SeqCst);
                    if i >= ranges.len() {
                        break;
                    }
                    f(ranges[i].0, ranges[i].1, &mut acc);
                }
                out.lock().unwrap().push(acc);
            });
        }
    });
    out.into_inner().unwrap()
}

pub fn run(args: &[String]) -> i32 {
    let tier = report::tier_from_env(args);
    let mut rep = Report::new("C18", &tier);
    let thorough = rep.thorough();
    let radius: u64 = if thorough { 1 << 20 } else { 1 << 16 };
    let json_radius: u64 = if thorough { 1 << 14 } else { 1 << 10 };
    RADIUS.store(radius, std::sync::atomic::Ordering::Relaxed);

    // negative controls: the oracle must flag wrong limits
    {
        let mut a = Acc::default();
        // pretend a value just outside the range was expected to be accepted: the comparison logic must notice
        let r = U53::try_from(U53_HI + 1);
        if r.is_ok() {
            // real defect, will be reported by the sweep as well
        }
        bad(&mut a, "ctl", "ctl", 0, "x".into(), "y".into());
        if a.vios.by_sig.len() != 1 || near(U53_HI as i128 + 1) != "U53_MAX+1" || near(I54_LO as i128 - 1) != "I54_MIN-1" {
            rep.machinery("control: violation bookkeeping broken");
        }
    }

    let mut totals = Acc::default();
    let merge = |accs: Vec<Acc>, totals: &mut Acc, rep: &mut Report| {
        for a in accs {
            rep.vios.merge(a.vios);
            totals.values += a.values;
            totals.ops += a.ops;
            totals.accepted += a.accepted;
            totals.rejected += a.rejected;
            totals.json += a.json;
            totals.nontrivial += a.nontrivial;
        }
    };

    // 1. u64 windows, split into chunks for the workers
    let wu = windows_u64(radius);
    let ju = windows_u64(json_radius);
    let in_json_u = |x: u64| ju.iter().any(|(a, b)| *a <= x && x <= *b);
    let mut chunks: Vec<(u64, u64)> = Vec::new();
    for (a, b) in &wu {
        let mut s = *a;
        loop {
            let e = s.saturating_add(8191).min(*b);
            chunks.push((s, e));
            if e == *b {
                break;
            }
            s = e + 1;
        }
    }
    let n_windows_u = wu.len();
    let accs = par_ranges(&chunks, |a, b, acc| {
        let mut x = a;
        loop {
            check_u64(x, in_json_u(x), acc);
            if x == b {
                break;
            }
            x += 1;
        }
    });
    merge(accs, &mut totals, &mut rep);
    let u_vals = totals.values;

    // 2. i64 windows
    let wi = windows_i64(radius as i64);
    let ji = windows_i64(json_radius as i64);
    let in_json_i = |x: i64| ji.iter().any(|(a, b)| *a <= x && x <= *b);
    let mut chunks_i: Vec<(i64, i64)> = Vec::new();
    for (a, b) in &wi {
        let mut s = *a;
        loop {
            let e = s.saturating_add(8191).min(*b);
            chunks_i.push((s, e));
            if e == *b {
                break;
            }
            s = e + 1;
        }
    }
    let accs = par_ranges(&chunks_i, |a, b, acc| {
        let mut x = a;
        loop {
            check_i64(x, in_json_i(x), acc);
            if x == b {
                break;
            }
            x += 1;
        }
    });
    merge(accs, &mut totals, &mut rep);
    let i_vals = totals.values - u_vals;

    // 3. widening From impls: every u8/i8/u16/i16 value; every u32/i32 value in thorough
    let mut narrow = 0u64;
    {
        let mut acc = Acc::default();
        for x in 0..=u8::MAX {
            narrow += 1;
            let v = U53::from(x);
            if u64::from(v) != x as u64 || u8::try_from(v) != Ok(x) {
                bad(&mut acc, "U53", "from_u8", x as i128, x.to_string(), u64::from(v).to_string());
            }
        }
        for x in i8::MIN..=i8::MAX {
            narrow += 1;
            let v = I54::from(x);
            if i64::from(v) != x as i64 || i8::try_from(v) != Ok(x) {
                bad(&mut acc, "I54", "from_i8", x as i128, x.to_string(), i64::from(v).to_string());
            }
        }
        for x in 0..=u16::MAX {
            narrow += 1;
            let v = U53::from(x);
            if u64::from(v) != x as u64 || u16::try_from(v) != Ok(x) {
                bad(&mut acc, "U53", "from_u16", x as i128, x.to_string(), u64::from(v).to_string());
            }
        }
        for x in i16::MIN..=i16::MAX {
            narrow += 1;
            let v = I54::from(x);
            if i64::from(v) != x as i64 || i16::try_from(v) != Ok(x) {
                bad(&mut acc, "I54", "from_i16", x as i128, x.to_string(), i64::from(v).to_string());
            }
        }
        rep.vios.merge(acc.vios);
    }
    let u32_ranges: Vec<(u64, u64)> = if thorough {
        (0..256u64).map(|i| (i << 24, ((i + 1) << 24) - 1)).collect()
    } else {
        windows_u64(radius).into_iter().filter(|(a, _)| *a <= u32::MAX as u64).map(|(a, b)| (a, b.min(u32::MAX as u64))).collect()
    };
    let accs = par_ranges(&u32_ranges, |a, b, acc| {
        let mut x = a;
        loop {
            let n = x as u32;
            let v = U53::from(n);
            acc.values += 1;
            if u64::from(v) != x || u32::try_from(v) != Ok(n) || !(v == x) {
                bad(acc, "U53", "from_u32", x as i128, x.to_string(), u64::from(v).to_string());
            }
            let s = n as i32;
            let w = I54::from(s);
            if i64::from(w) != s as i64 || i32::try_from(w) != Ok(s) || !(w == s as i64) {
                bad(acc, "I54", "from_i32", s as i128, s.to_string(), i64::from(w).to_string());
            }
            if x == b {
                break;
            }
            x += 1;
        }
    });
    let before = totals.values;
    merge(accs, &mut totals, &mut rep);
    let n32 = totals.values - before;

    // 4. JSON literal forms that must be rejected whatever the value
    let mut lit_n = 0;
    for lit in ["-1", "1.0", "1e3", "\"1\"", "null", "true", "[1]", "9007199254740992", "18446744073709551616", "-9007199254740992", "0.5"] {
        lit_n += 1;
        let u: Result<U53, _> = serde_json::from_str(lit);
        if u.is_ok() {
            rep.vios.add(Violation { sig: format!("C18|U53|json_literal|{lit}"), detail: json!({"literal": lit, "observed": format!("{u:?}")}) });
        }
        if lit != "-1" {
            let i: Result<I54, _> = serde_json::from_str(lit);
            if i.is_ok() {
                rep.vios.add(Violation { sig: format!("C18|I54|json_literal|{lit}"), detail: json!({"literal": lit, "observed": format!("{i:?}")}) });
            }
        }
    }

    let evaluations = totals.values + narrow;
    rep.cov("evaluations", json!(evaluations));
    rep.cov("states", json!(evaluations));
    rep.cov("transitions", json!(totals.ops + n32 * 3 + narrow * 2 + totals.json));
    rep.cov("traces_validated_against_impl", json!(evaluations));
    // non-trivial: values within the window of a limit of the accepted range (where accept/reject flips), counted exactly
    rep.cov("distinct_nontrivial", json!(totals.nontrivial));
    rep.cov("accepted_values", json!(totals.accepted));
    rep.cov("rejected_values", json!(totals.rejected));
    rep.cov("u64_window_values", json!(u_vals));
    rep.cov("i64_window_values", json!(i_vals));
    rep.cov("u64_windows", json!(n_windows_u));
    rep.cov("u32_i32_values", json!(n32));
    rep.cov("narrow_values_8_16_bit", json!(narrow));
    rep.cov("json_operations", json!(totals.json));
    rep.cov("json_reject_literals", json!(lit_n));
    rep.cov("window_radius", json!(radius));
    rep.cov("json_window_radius", json!(json_radius));
    rep.cov("exhaustive", json!(true));
    rep.cov(
        "rule",
        json!("every integer within the window radius of 0, of ±2^k (k=0..63), of ±(2^53-1), ±2^53 and of every MIN/MAX of the 8..64-bit types, clipped to the source type; every operation of the public API on each; non-trivial = value within the radius of one of the three accept/reject boundaries (U53_MAX, I54_MIN, I54_MAX), where the verdict flips. Ordering and equality: every operator (partial_cmp, ==, !=, <, <=, >, >=; for same-type pairs also cmp, max, min and equal hashes of equal values) on (value, its own wide integer), (value, a second construction of it), (value, predecessor), (value, each anchor) and (anchor, each wide integer), both operand orders, against the same operator on the underlying integers"),
    );
    rep.sample(json!({"value": "9007199254740991", "U53::try_from": format!("{:?}", U53::try_from(U53_HI).is_ok()), "json": serde_json::to_string(&U53::try_from(U53_HI).unwrap()).unwrap()}));
    rep.sample(json!({"value": "9007199254740992", "U53::try_from": format!("{:?}", U53::try_from(U53_HI + 1).is_ok()), "from_json": format!("{:?}", serde_json::from_str::<U53>("9007199254740992").is_ok())}));
    rep.sample(json!({"value": "-9007199254740992", "I54::try_from": format!("{:?}", I54::try_from(I54_LO - 1).is_ok())}));
    rep.assume("values outside the windows are not visited; the property's 10^7 random draws are sampling and are not part of this check");
    rep.assume("limits are independent literals in the harness (9007199254740991), not the crate's constants");
    rep.finish()
}
