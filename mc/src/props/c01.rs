//! C01 — field wire names in generated types equal serde's JSON keys.
use super::common::{merge, require_nonvacuous, Acc};
use crate::explore::{explore, Chooser, Mode};
use crate::extract::{Def, FDef, Payload};
use crate::pipeline::{Cfg, Lang, ALL_LANGS};
use crate::prog::*;
use crate::refmodel::{self, RunFail};
use crate::report::{self, Report, Violation};
use serde_json::json;

const IDENTS: [(&str, bool); 19] = [
    ("_id", false),
    ("_created_at", false),
    ("user_id", false),
    ("api_url", false),
    ("name", false),
    ("user_name", false),
    ("a_b_c", false),
    ("field_1", false),
    ("id", false),
    ("type", true),
    ("in", true),
    ("class", false),
    ("default", false),
    ("val", false),
    ("func", false),
    ("object", false),
    // a digit directly followed by a letter inside one word (serde starts a new word at `_` only)
    ("k8s_namespace", false),
    ("field_2fa", false),
    // a keyword-style trailing underscore (serde keeps the empty last word: `type-` under the kebab rules)
    ("type_", false),
];
const RENAMES: [Option<&str>; 6] = [None, Some("renamed"), Some("with-dash"), Some("camelCased"), Some("_lead"), Some("x-y-z")];
const RULES: [Option<&str>; 10] = [
    None,
    Some("lowercase"),
    Some("UPPERCASE"),
    Some("PascalCase"),
    Some("camelCase"),
    Some("snake_case"),
    Some("SCREAMING_SNAKE_CASE"),
    Some("kebab-case"),
    Some("SCREAMING-KEBAB-CASE"),
    Some("Title Case"),
];

#[derive(Clone, Debug)]
pub struct Case {
    pub in_variant: bool,
    /// rename_all on the container that owns the fields (struct, or the variant)
    pub own_rule: Option<&'static str>,
    /// rename_all on the enclosing enum (must not reach variant fields)
    pub enum_rule: Option<&'static str>,
    pub fields: Vec<Field>,
    pub style: AttrStyle,
    pub lang: Lang,
    pub prefixed: bool,
    /// further serde arguments in separate attributes next to rename / rename_all
    pub extra_attrs: bool,
    /// the struct variant that owns the fields carries its own serde(rename) (independent of its rename_all)
    pub variant_renamed: bool,
    /// the first field is of a type the backend (de)serialises through helpers that name the field's key
    /// (TypeScript: `Date`, revived by key; Python: datetime validators): a second place that binds the key
    pub date_typed: bool,
    /// Kotlin: no package configured at all (a supported setting: the backend then writes no package header; Scala refuses it)
    pub empty_package: bool,
    /// TypeScript: the first field carries `#[typeshare(typescript(readonly))]`: a modifier written in front of the key
    pub readonly_member: bool,
}

pub fn gen(ch: &mut Chooser, max_fields: usize) -> Case {
    let in_variant = ch.flag("container");
    let nfields = 1 + ch.choose("nfields", max_fields);
    let mut fields = Vec::new();
    for i in 0..nfields {
        // the second field (thorough tier) ranges over a reduced alphabet: the two-field square of the full one is 10^8 runs
        let (id, raw) = if i == 0 { *ch.pick("ident", &IDENTS) } else { *ch.pick("ident2", &IDENTS[..5]) };
        let rn = if i == 0 { *ch.pick("rename", &RENAMES) } else { *ch.pick("rename2", &RENAMES[..3]) };
        let mut f = Field::new(id, Ty::Prim("u32"));
        f.raw = raw;
        f.rename = rn.map(String::from);
        if i > 0 {
            // second field: keep identifiers distinct
            f.ident = format!("{}_2", f.ident);
            f.raw = false;
        }
        fields.push(f);
    }
    let rule = *ch.pick("rename_all", &RULES);
    let (own_rule, enum_rule) = if in_variant {
        match ch.choose("placement", 3) {
            0 => (rule, None),
            1 => (None, rule),
            _ => (rule, Some("SCREAMING_SNAKE_CASE")),
        }
    } else {
        (rule, None)
    };
    let style = *ch.pick("attr_style", &ATTR_STYLES);
    let extra_attrs = ch.flag("extra_serde_attributes");
    for f in fields.iter_mut() {
        f.style = style;
        if extra_attrs {
            // `default` does not change the key; with separate attributes it sits before or after `rename`
            f.default = DefaultKind::Bare;
        }
    }
    let lang = *ch.pick("lang", &ALL_LANGS);
    let prefixed = ch.flag("cfg");
    let variant_renamed = in_variant && ch.flag("variant_renamed");
    let date_typed = matches!(lang, Lang::TypeScript | Lang::Python) && ch.flag("first_field_is_a_date");
    if date_typed {
        fields[0].ty = Ty::user("DateTime");
    }
    let empty_package = !prefixed && lang == Lang::Kotlin && ch.flag("no_package_configured");
    let readonly_member = lang == Lang::TypeScript && ch.flag("first_field_is_readonly");
    if readonly_member {
        fields[0].ts_args = vec!["typescript(readonly)".into()];
    }
    Case { in_variant, own_rule, enum_rule, fields, style, lang, prefixed, extra_attrs, variant_renamed, date_typed, empty_package, readonly_member }
}

pub fn program(c: &Case) -> File {
    if c.in_variant {
        let mut v = Variant::new("Var", VKind::Struct(c.fields.clone()));
        v.rename_all = c.own_rule.map(String::from);
        if c.variant_renamed {
            v.rename = Some("var-created".into());
        }
        v.style = c.style;
        if c.extra_attrs {
            v.extra_serde = vec!["alias = \"OtherName\"".into()];
        }
        let mut e = Item::enumm("Outer", vec![Variant::new("First", VKind::Unit), v]);
        e.rename_all = c.enum_rule.map(String::from);
        e.style = c.style;
        if c.extra_attrs {
            e.extra_serde = vec!["deny_unknown_fields".into()];
        }
        File::single(vec![e])
    } else {
        let mut s = Item::strukt("Outer", c.fields.clone());
        s.rename_all = c.own_rule.map(String::from);
        s.style = c.style;
        if c.extra_attrs {
            s.extra_serde = vec!["deny_unknown_fields".into()];
        }
        File::single(vec![s])
    }
}

fn cfg_of(c: &Case) -> Cfg {
    let mut cfg = cfg_base(c);
    if c.empty_package {
        cfg.package = String::new();
    }
    if c.date_typed {
        cfg.type_mappings.push(("DateTime".into(), if c.lang == Lang::TypeScript { "Date" } else { "datetime" }.into()));
    }
    cfg
}

fn cfg_base(c: &Case) -> Cfg {
    if c.prefixed {
        // the second configuration turns every naming knob on: type prefix, other package, Go acronyms
        let mut cfg = Cfg::prefixed();
        cfg.go_uppercase_acronyms = vec!["ID".into(), "URL".into()];
        cfg
    } else {
        Cfg::plain()
    }
}

fn find_fields<'a>(c: &Case, out: &'a crate::extract::OutFile, cfg: &Cfg) -> Option<&'a [FDef]> {
    if !c.in_variant {
        let name = refmodel::prefixed(c.lang, cfg, "Outer");
        return out.structs().find(|s| s.name == name).map(|s| s.fields.as_slice());
    }
    if c.lang == Lang::TypeScript {
        for e in out.enums() {
            for v in &e.variants {
                if let Payload::Inline(fs) = &v.payload {
                    return Some(fs.as_slice());
                }
            }
        }
        return None;
    }
    let name = refmodel::prefixed(c.lang, cfg, "OuterVarInner");
    out.structs().find(|s| s.name == name).map(|s| s.fields.as_slice())
}

fn key_source(c: &Case, f: &Field) -> String {
    if f.rename.is_some() {
        "rename".into()
    } else if let Some(r) = c.own_rule {
        format!("rename_all:{r}")
    } else {
        "ident".into()
    }
}

pub fn check_case(c: &Case, choices: &[u32], acc: &mut Acc) {
    let file = program(c);
    let cfg = cfg_of(c);
    let expected: Vec<String> = c.fields.iter().map(|f| refmodel::field_key(c.own_rule, f)).collect();
    // Scala has no key binding: keys with '-' are out of scope
    if c.lang == Lang::Scala && expected.iter().any(|k| k.contains('-')) {
        acc.out_of_scope += 1;
        return;
    }
    // two fields bound to the same key are not a meaningful serde program
    if expected.len() == 2 && expected[0] == expected[1] {
        acc.out_of_scope += 1;
        return;
    }
    acc.runs += 1;
    let container = if c.in_variant { "struct-variant" } else { "struct" };
    let res = refmodel::run_single(&file, c.lang, &cfg);
    let ok = match res {
        Ok(ok) => ok,
        Err((fail, source)) => {
            if let RunFail::Render(e) = &fail {
                acc.machinery(format!("renderer produced invalid Rust: {e}\n{source}"));
                return;
            }
            acc.vios.add(Violation {
                sig: format!("C01|{}|{container}|no-output:{}", c.lang.name(), fail.class()),
                detail: json!({"choices": choices, "lang": c.lang.name(), "source": source, "failure": fail.describe(), "expected_keys": expected}),
            });
            return;
        }
    };
    acc.inputs.insert(report::fnv64(&ok.source));
    let Some(fields) = find_fields(c, &ok.out, &cfg) else {
        acc.vios.add(Violation {
            sig: format!("C01|{}|{container}|definition-missing", c.lang.name()),
            detail: json!({"choices": choices, "lang": c.lang.name(), "source": ok.source, "output": ok.text, "expected_keys": expected}),
        });
        return;
    };
    for (i, f) in c.fields.iter().enumerate() {
        acc.judgements += 1;
        let exp = &expected[i];
        let n = fields.iter().filter(|d| &d.wire == exp).count();
        let target_ident = fields.iter().find(|d| &d.wire == exp).map(|d| d.ident.clone());
        if *exp != f.ident || target_ident.as_deref() != Some(exp.as_str()) {
            acc.nontrivial.insert(report::fnv64(&format!("{}|{}|{:?}|{:?}|{}", f.ident, exp, c.own_rule, c.enum_rule, c.in_variant)));
        }
        acc.outcomes.insert(report::fnv64(&format!("{}|{n}|{}", c.lang.name(), target_ident.as_deref() == Some(exp.as_str()))));
        if n != 1 {
            let observed: Vec<&str> = fields.iter().map(|d| d.wire.as_str()).collect();
            acc.vios.add(Violation {
                sig: format!(
                    "C01|{}|{container}|key-{}|src={}|dash={}|keyword_ident={}|nfields={}",
                    c.lang.name(),
                    if n == 0 { "missing" } else { "duplicated" },
                    key_source(c, f),
                    exp.contains('-') as u8,
                    ["type", "in", "class", "default", "val", "func", "object"].contains(&f.ident.as_str()) as u8,
                    c.fields.len()
                ),
                detail: json!({"choices": choices, "lang": c.lang.name(), "prefixed": c.prefixed, "field": f.ident, "expected_key": exp, "observed_keys": observed,
                               "source": ok.source, "output": ok.text}),
            });
        }
    }
    // TypeScript revives dates by key: the reviver's key filter is a second binding of the same key
    if c.date_typed && c.lang == Lang::TypeScript {
        acc.judgements += 1;
        let want = vec![expected[0].clone()];
        let got = ok.out.reviver_keys.clone();
        if got.as_ref() != Some(&want) {
            acc.vios.add(Violation {
                sig: format!("C01|typescript|{container}|reviver-key-{}|src={}|dash={}", if got.is_none() { "no-reviver" } else { "differs" }, key_source(c, &c.fields[0]), expected[0].contains('-') as u8),
                detail: json!({"choices": choices, "lang": "typescript", "field": c.fields[0].ident, "expected_key": expected[0], "keys_in_ReviverFunc": got, "source": ok.source, "output": ok.text,
                    "observation": "the field is a Date, which the generated ReviverFunc revives by key: its key filter must name the serde key of the field"}),
            });
        }
    }
    if fields.len() != c.fields.len() {
        acc.vios.add(Violation {
            sig: format!("C01|{}|{container}|field-count", c.lang.name()),
            detail: json!({"choices": choices, "lang": c.lang.name(), "expected": c.fields.len(), "observed": fields.len(), "source": ok.source, "output": ok.text}),
        });
    }
    if acc.samples.len() < 2 && expected[0] != c.fields[0].ident && choices.iter().filter(|x| **x != 0).count() >= 3 {
        acc.sample(json!({"lang": c.lang.name(), "source": ok.source, "expected_keys": expected, "observed": fields.iter().map(|d| json!({"ident": d.ident, "wire": d.wire})).collect::<Vec<_>>()}));
    }
}

fn controls(rep: &mut Report) {
    // Independent of the code under test: canned generated text must be read back exactly.
    let canned = "package p\n\nimport \"encoding/json\"\n\ntype Outer struct {\n\tUserName uint32 `json:\"userName\"`\n\tOther *uint32 `json:\"with-dash,omitempty\"`\n}\n";
    match crate::extract::extract(Lang::Go, canned) {
        Ok(of) => {
            let keys: Vec<String> = of.structs().flat_map(|s| s.fields.iter().map(|f| f.wire.clone())).collect();
            if keys != vec!["userName".to_string(), "with-dash".to_string()] {
                rep.machinery(format!("control: extractor read {keys:?} from canned Go text"));
            }
        }
        Err(e) => rep.machinery(format!("control: canned Go text rejected: {}", e.msg())),
    }
    // the reference model must give serde's documented answers
    let f = Field::new("user_name", Ty::Prim("u32"));
    if refmodel::field_key(Some("camelCase"), &f) != "userName" || refmodel::field_key(Some("kebab-case"), &f) != "user-name" || refmodel::field_key(Some("nonsense"), &f) != "user_name" {
        rep.machinery("control: reference model does not reproduce serde's documented names");
    }
    let mut g = f.clone();
    g.rename = Some("x".into());
    if refmodel::field_key(Some("camelCase"), &g) != "x" {
        rep.machinery("control: rename must win over rename_all");
    }
    let _ = Def::kind;
}

pub fn run(args: &[String]) -> i32 {
    let tier = report::tier_from_env(args);
    let mut rep = Report::new("C01", &tier);
    controls(&mut rep);
    let max_fields = if rep.thorough() { 2 } else { 1 };
    let (accs, stats) = explore(
        |ch| {
            gen(ch, max_fields);
        },
        |ch, acc: &mut Acc| {
            let c = gen(ch, max_fields);
            let choices = ch.choices();
            check_case(&c, &choices, acc);
        },
        Mode::Product,
        4,
        report::threads(),
        u64::MAX,
    );
    merge(
        &mut rep,
        "field_keys",
        accs,
        &stats,
        json!({"containers": ["struct", "struct variant of a tagged enum"], "fields_per_container": max_fields, "idents": IDENTS.len(), "renames": RENAMES.len(),
               "rename_all": RULES.len(), "placements": ["own container", "enclosing enum only", "both"], "attr_styles": 4, "extra_serde_attributes": [false, true], "variant_carries_its_own_rename": [false, true], "languages": 6, "configs": ["defaults", "prefix + other package + Go uppercase_acronyms [ID, URL]"]}),
    );
    // two fields, reduced alphabets (full product): what one field needs must not depend on its neighbour or position
    {
        let gen2 = |ch: &mut Chooser| -> Case {
            let in_variant = ch.flag("container");
            let mut fields = Vec::new();
            for i in 0..2 {
                let id = *ch.pick("ident", &["user_name", "id", "x"]);
                let rn = *ch.pick("rename", &[None, Some("with-dash"), Some("camelCased")]);
                let mut f = Field::new(id, Ty::Prim("u32"));
                f.rename = rn.map(|r| format!("{r}{}", if i == 1 { "2" } else { "" }));
                if i == 1 {
                    f.ident = format!("{}_2", f.ident);
                }
                fields.push(f);
            }
            let rule = *ch.pick("rename_all", &[None, Some("kebab-case"), Some("camelCase"), Some("SCREAMING_SNAKE_CASE")]);
            let lang = *ch.pick("lang", &ALL_LANGS);
            let prefixed = ch.flag("cfg");
            Case { in_variant, own_rule: rule, enum_rule: None, fields, style: AttrStyle::Separate, lang, prefixed, extra_attrs: false, variant_renamed: false, date_typed: false, empty_package: false, readonly_member: false }
        };
        let (accs, stats) = explore(
            |ch| {
                gen2(ch);
            },
            |ch, acc: &mut Acc| {
                let c = gen2(ch);
                check_case(&c, &ch.choices(), acc);
            },
            Mode::Product,
            3,
            report::threads(),
            u64::MAX,
        );
        merge(&mut rep, "two_fields_reduced", accs, &stats, json!({"fields": 2, "idents": 3, "renames": ["none", "dashed", "camelCased"], "rename_all": ["none", "kebab-case", "camelCase", "SCREAMING_SNAKE_CASE"], "containers": 2, "languages": 6, "configs": 2}));
    }
    let amb_k = if rep.thorough() { 3 } else { 2 };
    super::common::ambient_family(&mut rep, "ambient_variations", amb_k, |ch| { gen(ch, 2); }, |ch, acc| {
        let c = gen(ch, 2);
        check_case(&c, &ch.choices(), acc);
    });
    require_nonvacuous(&mut rep);
    rep.cov("rule", json!("full product of identifier × serde(rename) × rename_all rule × placement × attribute spelling × language × prefix/package configuration; every case rendered to Rust, run through parse→reconcile→generate, parsed back with the language extractor and compared with serde's key (vendored case.rs + precedence rename > rename_all > ident). non-trivial = expected key differs from the Rust identifier or from the target identifier. states = distinct rendered Rust inputs."));
    rep.assume("extractors recover the key exactly as the target's JSON library would bind it (TS property name, Kotlin @SerialName else val name, Swift CodingKeys raw value else property name, Scala identifier, Go json tag, Python Field alias else attribute name)");
    rep.assume("Scala carries no key binding: cases whose expected key contains '-' are counted as out of scope");
    rep.finish()
}

pub fn replay(choices: &[u32], thorough: bool) -> i32 {
    let mut ch = Chooser::replay(choices);
    let c = gen(&mut ch, if thorough { 2 } else { 1 });
    let mut acc = Acc::default();
    check_case(&c, choices, &mut acc);
    println!("{}", render_file(&program(&c)));
    for (sig, (_, d)) in &acc.vios.by_sig {
        println!("VIOLATION signature: {sig}\n{}", serde_json::to_string_pretty(d).unwrap());
    }
    if acc.vios.total() > 0 {
        1
    } else {
        println!("case holds");
        0
    }
}
