pub mod c16;
pub mod c18;
