pub mod c13;
pub mod c16;
pub mod c18;
