pub mod common;
pub mod c01;
pub mod c02;
pub mod c04;
pub mod c05;
pub mod c13;
pub mod c16;
pub mod c18;
