//! C14 — multi-file mode partitions types by crate and imports cross-crate references.
use crate::cli::{self, par_map, run_cli, s, Scratch};
use crate::extract::{self, Def, OutFile, Payload};
use crate::pipeline::{self, Lang, ALL_LANGS};
use crate::report::{self, Report, Violation};
use serde_json::json;
use std::collections::{BTreeMap, BTreeSet};

const FORMS: [&str; 25] = [
    "use-single", "use-group", "use-nested-group", "use-glob", "qualified-path", "qualified-nested-path", "use-crate", "use-super", "use-self",
    // the target as a generic argument of a type of a third crate
    "qualified-generic-of-qualified", "qualified-generic-of-used", "used-generic-of-qualified", "qualified-generic-of-nested-qualified",
    // the target only in a non-last generic argument position
    "map-key-used", "pair-first-arg-of-used-generic", "pair-first-arg-qualified-generic-of",
    // a grouped use that also names things that are not types (functions, modules, self)
    "use-group-function-after-type", "use-group-function-before-type", "use-group-nested-with-self-and-function",
    // a glob and explicit names from the same crate (the glob-only type and the named one are both used)
    "use-glob-plus-named", "use-named-plus-glob-plus-qualified",
    // the referring file also declares an item whose type parameter has the target's name (parameters are scoped to their item)
    "use-single-beside-item-with-parameter-of-that-name", "qualified-path-beside-item-with-parameter-of-that-name",
    // the use declaration carries a visibility (a re-export is still what brings the name into the file)
    "pub-use-single", "pub-crate-use-group",
];

fn third_crate(form: &str) -> bool {
    form.contains("generic-of") || form.contains("generic")
}
const POSITIONS: [&str; 3] = ["field", "vec", "variant-payload"];

#[derive(Clone, Debug)]
struct Case {
    form: &'static str,
    renamed: bool,
    mapped: bool,
    homonym: bool,
    /// the same-named type of the third crate carries serde(rename) (the referenced target may or may not)
    homonym_renamed: bool,
    position: &'static str,
    deep: bool,
    dashed: bool,
    lang: Lang,
    /// what kind of item the referenced target is (each kind is kept in a list of its own on the way to the imports)
    target_kind: &'static str,
}

const TARGET_KINDS: [&str; 4] = ["struct", "tagged-enum", "alias", "newtype"];

fn same_crate(form: &str) -> bool {
    matches!(form, "use-crate" | "use-super" | "use-self")
}

/// (relative path, source) of the workspace
fn workspace(c: &Case) -> Vec<(String, String)> {
    let target_crate_dir = if c.dashed { "target-crate" } else { "targetcrate" };
    let tc = target_crate_dir.replace('-', "_");
    let rename = if c.renamed { "#[serde(rename = \"TargetRenamed\")]\n" } else { "" };
    let target_item = match c.target_kind {
        "tagged-enum" => format!("#[typeshare]\n{rename}#[serde(tag = \"type\", content = \"content\")]\npub enum Target {{ One(u32), Two {{ t: u32 }}, Three }}\n"),
        "alias" => format!("#[typeshare]\n{rename}pub type Target = Vec<u32>;\n"),
        "newtype" => format!("#[typeshare]\n{rename}pub struct Target(String);\n"),
        _ => format!("#[typeshare]\n{rename}pub struct Target {{ pub t: u32 }}\n"),
    };
    let target_def = format!("{target_item}\n#[typeshare]\npub struct Sibling {{ pub s: String }}\n");
    let (use_line, ty) = match c.form {
        "use-single" => (format!("use {tc}::Target;\n"), "Target".to_string()),
        "use-group" => (format!("use {tc}::{{Target, Sibling}};\n"), "Target".to_string()),
        "pub-use-single" => (format!("pub use {tc}::Target;\n"), "Target".to_string()),
        "pub-crate-use-group" => (format!("pub(crate) use {tc}::{{Target, Sibling}};\n"), "Target".to_string()),
        "use-nested-group" => (format!("use {tc}::{{inner::{{Target}}}};\n"), "Target".to_string()),
        "use-glob" => (format!("use {tc}::*;\n"), "Target".to_string()),
        "use-glob-plus-named" => (format!("use {tc}::*;\nuse {tc}::Sibling;\n#[typeshare]\npub struct AlsoUses {{ pub s: Sibling }}\n"), "Target".to_string()),
        "use-named-plus-glob-plus-qualified" => (format!("use {tc}::Sibling;\nuse {tc}::*;\n#[typeshare]\npub struct AlsoUses {{ pub s: Sibling, pub q: Vec<{tc}::Sibling> }}\n"), "Target".to_string()),
        "qualified-path" => (String::new(), format!("{tc}::Target")),
        "use-single-beside-item-with-parameter-of-that-name" => (format!("use {tc}::Target;\n#[typeshare]\npub struct Shelf<Target> {{ pub items: Vec<Target>, pub n: u32 }}\n"), "Target".to_string()),
        "qualified-path-beside-item-with-parameter-of-that-name" => ("#[typeshare]\n#[serde(tag = \"type\", content = \"content\")]\npub enum Slot<Target> { Full(Target), Empty }\n".to_string(), format!("{tc}::Target")),
        "qualified-nested-path" => (String::new(), format!("{tc}::inner::deep::Target")),
        "qualified-generic-of-qualified" => (String::new(), format!("shapes::Page<{tc}::Target>")),
        "qualified-generic-of-used" => (format!("use {tc}::Target;\n"), "shapes::Page<Target>".to_string()),
        "used-generic-of-qualified" => ("use shapes::Page;\n".to_string(), format!("Page<{tc}::Target>")),
        "qualified-generic-of-nested-qualified" => (String::new(), format!("shapes::inner::Page<Option<{tc}::deep::Target>>")),
        "use-group-function-after-type" => (format!("use {tc}::{{models::Target, util::checksum}};\n"), "Target".to_string()),
        "use-group-function-before-type" => (format!("use {tc}::{{util::checksum, models::Target}};\n"), "Target".to_string()),
        "use-group-nested-with-self-and-function" => (format!("use {tc}::{{self, models::{{Target, helpers::make_target}}, VERSION}};\n"), "Target".to_string()),
        "map-key-used" => (format!("use {tc}::Target;\n"), "HashMap<Target, u32>".to_string()),
        "pair-first-arg-of-used-generic" => (format!("use {tc}::Target;\nuse shapes::Pair;\n"), "Pair<Target, String>".to_string()),
        "pair-first-arg-qualified-generic-of" => (String::new(), format!("shapes::Pair<{tc}::Target, Vec<u32>>")),
        "use-crate" => ("use crate::m::Target;\n".to_string(), "Target".to_string()),
        "use-super" => ("use super::Target;\n".to_string(), "Target".to_string()),
        _ => ("use self::m::Target;\n".to_string(), "Target".to_string()),
    };
    let ty = match c.position {
        "vec" => format!("Vec<{ty}>"),
        _ => ty,
    };
    let referrer = if c.position == "variant-payload" {
        format!("#[typeshare]\n#[serde(tag = \"type\", content = \"content\")]\npub enum Referrer {{ Holds({ty}), Nothing }}\n")
    } else {
        format!("#[typeshare]\npub struct Referrer {{ pub r: {ty}, pub n: u32 }}\n")
    };
    let app_path = if c.deep { "ws/app/src/a/b.rs" } else { "ws/app/src/lib.rs" };
    let tgt_path = if c.deep { format!("ws/{target_crate_dir}/src/x/y/z.rs") } else { format!("ws/{target_crate_dir}/src/lib.rs") };
    let mut files = Vec::new();
    if same_crate(c.form) {
        // the target lives in the referring crate (another file of the same crate)
        files.push((app_path.to_string(), format!("{use_line}{referrer}")));
        files.push(("ws/app/src/m.rs".to_string(), target_def));
    } else {
        files.push((app_path.to_string(), format!("{use_line}{referrer}")));
        files.push((tgt_path, target_def));
    }
    if c.homonym {
        let r = if c.homonym_renamed { "#[serde(rename = \"Quux\")]\n" } else { "" };
        // a crate that sorts before and one that sorts after the referenced one
        files.push(("ws/zz-other/src/lib.rs".to_string(), format!("#[typeshare]\n{r}pub struct Target {{ pub other_crate: bool }}\n")));
        if c.homonym_renamed {
            files.push(("ws/aa-other/src/lib.rs".to_string(), "#[typeshare]\n#[serde(rename = \"Quuz\")]\npub struct Target { pub third_crate: bool }\n".to_string()));
        }
    }
    if third_crate(c.form) {
        files.push(("ws/shapes/src/lib.rs".to_string(), "#[typeshare]\npub struct Page<T> { pub items: Vec<T>, pub total: u32 }\n\n#[typeshare]\npub struct Pair<A, B> { pub a: A, pub b: B }\n".to_string()));
    }
    files
}

fn config(c: &Case) -> Option<String> {
    if !c.mapped {
        return None;
    }
    let t = match c.lang {
        Lang::TypeScript => "typescript",
        Lang::Kotlin => "kotlin",
        Lang::Swift => "swift",
        Lang::Scala => "scala",
        Lang::Go => "go",
        Lang::Python => "python",
    };
    Some(format!("[{t}.type_mappings]\nTarget = \"MappedTarget\"\n"))
}

/// crate name the reference model derives from a path: directory above the last `src`, dashes as underscores
fn crate_of(path: &str) -> String {
    let parts: Vec<&str> = path.split('/').collect();
    let i = parts.iter().rposition(|p| *p == "src").unwrap();
    parts[i - 1].replace('-', "_")
}

fn def_summary(d: &Def) -> String {
    match d {
        Def::Struct(s) => format!("struct {} {{{}}}", s.name, s.fields.iter().map(|f| f.wire.clone()).collect::<Vec<_>>().join(",")),
        Def::Enum(e) => format!("enum {} {{{}}}", e.name, e.variants.iter().map(|v| v.wire.clone()).collect::<Vec<_>>().join(",")),
        Def::Alias(a) => format!("alias {}", a.name),
        Def::Const(k) => format!("const {}", k.name),
    }
}

fn referenced_names(of: &OutFile) -> BTreeSet<String> {
    let mut all = Vec::new();
    for d in &of.defs {
        let mut v = Vec::new();
        // the generic parameters of a definition are in scope inside it only: there they are not references to types
        let own_params: &[String] = match d {
            Def::Struct(s) => {
                s.fields.iter().for_each(|f| f.ty.names(&mut v));
                &s.generics
            }
            Def::Alias(a) => {
                a.ty.names(&mut v);
                &a.generics
            }
            Def::Enum(e) => {
                e.variants.iter().for_each(|x| match &x.payload {
                    Payload::Type(t, _) | Payload::Inner(t) => t.names(&mut v),
                    Payload::Inline(fs) => fs.iter().for_each(|f| f.ty.names(&mut v)),
                    Payload::None => {}
                });
                &e.generics
            }
            Def::Const(_) => &[],
        };
        all.extend(v.into_iter().filter(|n| !own_params.contains(n)));
    }
    all.into_iter().collect()
}

struct Obs {
    class: &'static str,
    stderr: String,
    files: BTreeMap<String, String>,
    single: String,
    single_class: &'static str,
    argv: Vec<String>,
}

fn run_case(c: &Case) -> Obs {
    let sc = Scratch::new("c14");
    for (p, src) in workspace(c) {
        sc.write(&p, src.as_bytes());
    }
    sc.mkdir("out");
    let mut args = cli::lang_args(c.lang);
    if let Some(cfg) = config(c) {
        let p = sc.write("cfg.toml", cfg.as_bytes());
        args.extend([s("-c"), p.to_string_lossy().into_owned()]);
    }
    let mut margs = args.clone();
    margs.extend([s("-d"), sc.path("out").to_string_lossy().into_owned(), sc.path("ws").to_string_lossy().into_owned()]);
    let r = run_cli(&margs, &sc.root, &[], cli::TIMEOUT);
    let files = cli::snapshot(&sc.path("out")).into_iter().map(|(k, v)| (k, String::from_utf8_lossy(&v).into_owned())).collect();
    let single_path = sc.path(&format!("single/types.{}", c.lang.ext()));
    sc.mkdir("single");
    let mut sargs = args.clone();
    sargs.extend([s("-o"), single_path.to_string_lossy().into_owned(), sc.path("ws").to_string_lossy().into_owned()]);
    let r2 = run_cli(&sargs, &sc.root, &[], cli::TIMEOUT);
    Obs { class: r.class(), stderr: r.stderr.chars().take(800).collect(), files, single: std::fs::read_to_string(&single_path).unwrap_or_default(), single_class: r2.class(), argv: margs }
}

fn judge(c: &Case, o: &Obs, vios: &mut Vec<Violation>) -> (u64, String) {
    let mut judgements = 0;
    let lang = c.lang;
    let shape = format!("form={}|renamed={}|mapped={}|homonym={}|pos={}{}", c.form, c.renamed as u8, c.mapped as u8, c.homonym as u8 + c.homonym_renamed as u8, c.position, if c.target_kind == "struct" { String::new() } else { format!("|target={}", c.target_kind) });
    let ws = workspace(c);
    let detail = |what: &str| json!({"case": format!("{c:?}"), "argv": o.argv, "workspace": ws.iter().map(|(p, s)| json!({"path": p, "source": s})).collect::<Vec<_>>(), "config": config(c), "generated_files": o.files, "stderr": o.stderr, "observation": what});
    if o.class != "ok" {
        vios.push(Violation { sig: format!("C14|{}|run-failed:{}|{shape}", lang.name(), o.class), detail: detail("multi-file run failed") });
        return (1, o.class.to_string());
    }
    // (a) one file per crate with annotated items, named after the crate
    let crates: BTreeSet<String> = ws.iter().map(|(p, _)| crate_of(p)).collect();
    let expected_files: BTreeSet<String> = crates.iter().map(|k| pipeline::out_file_name(lang, k)).collect();
    let got_files: BTreeSet<String> = o.files.keys().filter(|k| *k != "Codable.swift").cloned().collect();
    judgements += 1;
    if got_files != expected_files {
        vios.push(Violation { sig: format!("C14|{}|file-set|deep={}|dashed={}", lang.name(), c.deep as u8, c.dashed as u8), detail: detail(&format!("expected files {expected_files:?}, got {got_files:?}")) });
        return (judgements, "file-set".into());
    }
    // parse every file
    let mut parsed: BTreeMap<String, OutFile> = BTreeMap::new();
    for (f, text) in &o.files {
        if f == "Codable.swift" {
            continue;
        }
        match extract::extract(lang, text) {
            Ok(of) => {
                parsed.insert(f.clone(), of);
            }
            Err(e) => {
                vios.push(Violation { sig: format!("C14|{}|unparseable-output:{}", lang.name(), e.class()), detail: detail(&format!("{f}: {}", e.msg())) });
                return (judgements, "unparseable".into());
            }
        }
    }
    // (b) each definition lives in the file of its crate
    let target_name = if c.renamed { "TargetRenamed" } else { "Target" };
    let tcrate = if same_crate(c.form) { "app".to_string() } else { crate_of(&ws[1].0) };
    let file_of = |k: &str| pipeline::out_file_name(lang, k);
    let has = |file: &str, name: &str| parsed.get(file).map(|of| of.defs.iter().any(|d| d.name() == name)).unwrap_or(false);
    let count = |name: &str| parsed.values().map(|of| of.defs.iter().filter(|d| d.name() == name).count()).sum::<usize>();
    judgements += 3;
    // Go declares unit enums etc. under the original name; structs use the renamed one — the target is a struct
    if !has(&file_of("app"), "Referrer") || count("Referrer") != 1 {
        vios.push(Violation { sig: format!("C14|{}|definition-in-wrong-file|item=referrer", lang.name()), detail: detail("Referrer must be defined exactly once, in the app crate's file") });
    }
    if !has(&file_of(&tcrate), target_name) {
        vios.push(Violation { sig: format!("C14|{}|definition-in-wrong-file|item=target|renamed={}", lang.name(), c.renamed as u8), detail: detail(&format!("{target_name} must be defined in {}", file_of(&tcrate))) });
    }
    if c.homonym && !has(&file_of("zz_other"), if c.homonym_renamed { "Quux" } else { "Target" }) {
        vios.push(Violation { sig: format!("C14|{}|definition-in-wrong-file|item=homonym", lang.name()), detail: detail("the other crate's Target must be defined in its own file") });
    }
    // (c) same definitions as single-file mode
    judgements += 1;
    if o.single_class == "ok" {
        match extract::extract(lang, &o.single) {
            Ok(sof) => {
                let mut a: Vec<String> = sof.defs.iter().map(def_summary).collect();
                let mut b: Vec<String> = parsed.values().flat_map(|of| of.defs.iter().map(def_summary)).collect();
                a.sort();
                b.sort();
                if a != b {
                    vios.push(Violation { sig: format!("C14|{}|definitions-differ-from-single-file|{shape}", lang.name()), detail: detail(&format!("single-file: {a:?}\nmulti-file: {b:?}")) });
                }
            }
            Err(e) => vios.push(Violation { sig: format!("C14|{}|single-file-unparseable:{}", lang.name(), e.class()), detail: detail(&o.single) }),
        }
    } else {
        vios.push(Violation { sig: format!("C14|{}|single-file-run-failed:{}", lang.name(), o.single_class), detail: detail("the same tree must also generate in single-file mode") });
    }
    // (d) imports (TypeScript, Kotlin)
    let mut outcome = "ok".to_string();
    if matches!(lang, Lang::TypeScript | Lang::Kotlin) {
        for (f, of) in &parsed {
            let defined_here: BTreeSet<String> = of.defs.iter().map(|d| d.name().to_string()).collect();
            let referenced = referenced_names(of);
            // imported name -> module
            let mut imported: BTreeMap<String, String> = BTreeMap::new();
            for (module, names) in &of.imports {
                if lang == Lang::Kotlin && module.starts_with("kotlinx.") {
                    continue;
                }
                let m = if lang == Lang::TypeScript { module.trim_start_matches("./").to_string() } else { module.rsplit('.').next().unwrap_or("").to_string() };
                for n in names {
                    imported.insert(n.clone(), m.clone());
                }
            }
            // every referenced user type that is defined in another generated file must be imported from it
            for r in &referenced {
                if defined_here.contains(r) {
                    continue;
                }
                let definers: Vec<&String> = parsed.iter().filter(|(g, x)| *g != f && x.defs.iter().any(|d| d.name() == r)).map(|(g, _)| g).collect();
                if definers.is_empty() {
                    // primitive / mapped / builtin — or a reference to the target under a name nobody defines
                    if r == "Target" || r == "TargetRenamed" {
                        judgements += 1;
                        outcome = "dangling-reference".into();
                        vios.push(Violation { sig: format!("C14|{}|reference-to-undefined-name|{shape}", lang.name()), detail: detail(&format!("{f} refers to {r}, which no generated file defines")) });
                    }
                    continue;
                }
                judgements += 1;
                match imported.get(r) {
                    None => {
                        outcome = "import-missing".into();
                        vios.push(Violation { sig: format!("C14|{}|import-missing|{shape}", lang.name()), detail: detail(&format!("{f} uses {r}, defined in {definers:?}, without importing it")) });
                    }
                    Some(m) => {
                        // with a same-named type in a third crate only the `use`d crate is right
                        let want = if r == target_name { file_of(&tcrate) } else { definers[0].clone() };
                        let want_mod = want.rsplit_once('.').map(|x| x.0.to_string()).unwrap_or(want.clone());
                        if *m != want_mod {
                            outcome = "import-wrong-module".into();
                            vios.push(Violation { sig: format!("C14|{}|import-from-wrong-module|{shape}", lang.name()), detail: detail(&format!("{f} imports {r} from {m}, expected {want_mod}")) });
                        }
                    }
                }
            }
            // no import names a type its module does not define
            for (n, m) in &imported {
                judgements += 1;
                let module_file = parsed.iter().find(|(g, _)| g.rsplit_once('.').map(|x| x.0) == Some(m.as_str()));
                let ok = module_file.map(|(_, x)| x.defs.iter().any(|d| d.name() == n)).unwrap_or(false);
                if !ok {
                    outcome = "import-of-undefined".into();
                    vios.push(Violation { sig: format!("C14|{}|import-names-undefined-type|{shape}", lang.name()), detail: detail(&format!("{f} imports {n} from {m}, which does not define it")) });
                }
                // … nor a type this file does not mention (a mapped type is written under its mapped name: the other
                // crate's definition of the Rust name is not what the file uses)
                judgements += 1;
                // (a glob `use` brings every type of that crate in, used or not: by design)
                if !referenced.contains(n) && !c.form.contains("glob") {
                    outcome = "import-unused".into();
                    vios.push(Violation { sig: format!("C14|{}|import-of-a-type-the-file-does-not-use|{shape}", lang.name()), detail: detail(&format!("{f} imports {n} from {m} but refers to no type of that name")) });
                }
            }
        }
    }
    (judgements, outcome)
}

/// One crate, two source files, each importing a type of the same name from a different crate: the crate's output file
/// imports the name from both modules (TypeScript, Kotlin), whatever other names are imported next to it.
fn same_name_from_two_crates_family(rep: &mut Report) {
    let mut jobs = Vec::new();
    for lang in [Lang::TypeScript, Lang::Kotlin] {
        for second_form in ["use", "glob", "qualified-path"] {
            for extra_names in [false, true] {
                jobs.push((lang, second_form, extra_names));
            }
        }
    }
    let results = par_map(&jobs, report::threads(), |(lang, second_form, extra_names)| {
        let sc = Scratch::new("c14h");
        sc.write("ws/alpha/src/lib.rs", b"#[typeshare]\npub struct Label { pub a: u32 }\n#[typeshare]\npub struct OnlyAlpha { pub x: u32 }\n");
        sc.write("ws/beta/src/lib.rs", b"#[typeshare]\npub struct Label { pub b: u32 }\n#[typeshare]\npub struct OnlyBeta { pub y: u32 }\n");
        let extra_a = if *extra_names { "use alpha::OnlyAlpha;\n" } else { "" };
        let extra_af = if *extra_names { ", pub o: OnlyAlpha" } else { "" };
        sc.write("ws/gamma/src/one.rs", format!("use alpha::Label;\n{extra_a}#[typeshare]\npub struct FromAlpha {{ pub l: Label{extra_af} }}\n").as_bytes());
        let (use_b, ty_b) = match *second_form {
            "use" => ("use beta::Label;\n", "Label"),
            "glob" => ("use beta::*;\n", "Label"),
            _ => ("", "beta::Label"),
        };
        let extra_bf = if *extra_names && *second_form != "qualified-path" { ", pub o: OnlyBeta" } else { "" };
        let extra_b = if *extra_names && *second_form == "use" { "use beta::OnlyBeta;\n" } else { "" };
        sc.write("ws/gamma/src/two.rs", format!("{use_b}{extra_b}#[typeshare]\npub struct FromBeta {{ pub l: Vec<{ty_b}>{extra_bf} }}\n").as_bytes());
        sc.mkdir("out");
        let mut args = cli::lang_args(*lang);
        args.extend([s("-d"), sc.path("out").to_string_lossy().into_owned(), sc.path("ws").to_string_lossy().into_owned()]);
        let r = run_cli(&args, &sc.root, &[], cli::TIMEOUT);
        let gamma = std::fs::read_to_string(sc.path(&format!("out/gamma.{}", lang.ext()))).unwrap_or_default();
        (r.class(), r.stderr.chars().take(400).collect::<String>(), gamma, args)
    });
    let mut judged = 0u64;
    for ((lang, second_form, extra_names), (class, stderr, gamma, argv)) in jobs.iter().zip(results.iter()) {
        let imports: Vec<&str> = gamma.lines().filter(|l| l.trim_start().starts_with("import ") && !l.contains("kotlinx")).collect();
        let from = |module: &str| imports.iter().any(|l| l.split(|c: char| !c.is_alphanumeric() && c != '_').any(|t| t == "Label") && l.split(|c: char| !c.is_alphanumeric() && c != '_').any(|t| t == module));
        for module in ["alpha", "beta"] {
            judged += 1;
            if *class != "ok" || !from(module) {
                rep.vios.add(Violation {
                    sig: format!("C14|{}|same-name-from-two-crates|import-missing:from={module}|second-reference={second_form}|other-names={}", lang.name(), *extra_names as u8),
                    detail: json!({"argv": argv, "exit": class, "stderr": stderr, "gamma_output": gamma, "import_lines": imports, "observation": format!("crate gamma uses alpha::Label in one file and beta::Label in another: its output must import Label from {module}")}),
                });
            }
        }
    }
    rep.cov("same_name_from_two_crates", json!({"process_runs": jobs.len(), "second_reference_forms": ["use", "glob", "qualified-path"], "other_names_imported_next_to_it": [false, true], "languages": ["typescript", "kotlin"], "judgements": judged}));
    rep.cov_add("evaluations", judged);
    rep.cov_add("traces_validated_against_impl", jobs.len() as u64);
}

/// Everything a single-file run declares — helper definitions a backend adds on its own included (Swift's `CodableVoid`)
/// — is declared somewhere in the folder output of the same sources, and the reverse. Three crates, a `()`-typed
/// member in every subset of them (a helper is needed by the first, the middle, the last file written, several, none).
fn helper_definitions_family(rep: &mut Report) {
    fn declared(text: &str) -> BTreeSet<String> {
        const KW: [&str; 9] = ["struct", "class", "enum", "type", "interface", "typealias", "object", "trait", "const"];
        let mut out = BTreeSet::new();
        for l in text.lines() {
            if l.starts_with(' ') || l.starts_with('\t') {
                continue; // top-level declarations only
            }
            let words: Vec<&str> = l.split_whitespace().collect();
            for i in 0..words.len().min(4) {
                if KW.contains(&words[i]) {
                    if let Some(n) = words.get(i + 1) {
                        let name: String = n.chars().take_while(|c| c.is_alphanumeric() || *c == '_').collect();
                        if !name.is_empty() {
                            out.insert(name);
                        }
                    }
                    break;
                }
            }
        }
        out
    }
    let mut jobs = Vec::new();
    for &lang in &crate::pipeline::ALL_LANGS {
        for mask in 0u32..8 {
            jobs.push((lang, mask));
        }
    }
    let results = par_map(&jobs, report::threads(), |(lang, mask)| {
        let sc = Scratch::new("c14v");
        for (i, krate) in ["aa", "mm", "zz"].iter().enumerate() {
            let member = if mask & (1 << i) != 0 { "pub nothing: (), pub many: Vec<()>" } else { "pub n: u32" };
            sc.write(&format!("ws/{krate}/src/lib.rs"), format!("#[typeshare]\npub struct Of{} {{ {member} }}\n#[typeshare]\npub type Ids{} = Vec<u32>;\n", krate.to_uppercase(), krate.to_uppercase()).as_bytes());
        }
        sc.mkdir("out");
        let mut a1 = cli::lang_args(*lang);
        a1.extend([s("-d"), sc.path("out").to_string_lossy().into_owned(), sc.path("ws").to_string_lossy().into_owned()]);
        let r1 = run_cli(&a1, &sc.root, &[], cli::TIMEOUT);
        let single = sc.path(&format!("single/types.{}", lang.ext()));
        sc.mkdir("single");
        let mut a2 = cli::lang_args(*lang);
        a2.extend([s("-o"), single.to_string_lossy().into_owned(), sc.path("ws").to_string_lossy().into_owned()]);
        let r2 = run_cli(&a2, &sc.root, &[], cli::TIMEOUT);
        let folder: std::collections::BTreeMap<String, String> = cli::snapshot(&sc.path("out")).into_iter().map(|(k, v)| (k, String::from_utf8_lossy(&v).into_owned())).collect();
        (r1.class(), r2.class(), format!("{}{}", r1.stderr, r2.stderr).chars().take(400).collect::<String>(), folder, std::fs::read_to_string(&single).unwrap_or_default(), a1)
    });
    let mut judged = 0u64;
    let mut with_helpers = 0u64;
    for ((lang, mask), (c1, c2, stderr, folder, single, argv)) in jobs.iter().zip(results.iter()) {
        judged += 1;
        let in_single = declared(single);
        let in_folder: BTreeSet<String> = folder.values().flat_map(|t| declared(t)).collect();
        if in_single.len() > 6 {
            with_helpers += 1;
        }
        let lost: Vec<&String> = in_single.difference(&in_folder).collect();
        let extra: Vec<&String> = in_folder.difference(&in_single).collect();
        if *c1 != "ok" || *c2 != "ok" || !lost.is_empty() || !extra.is_empty() {
            let pattern: String = (0..3).map(|i| if mask & (1 << i) != 0 { 'u' } else { '-' }).collect();
            rep.vios.add(Violation {
                sig: format!("C14|{}|declarations-of-folder-output-vs-single-file|{}|unit-members-in-crates={pattern}", lang.name(), if *c1 != "ok" || *c2 != "ok" { "run-failed".to_string() } else if !lost.is_empty() { format!("missing-from-the-folder:{}", lost.iter().map(|x| x.as_str()).collect::<Vec<_>>().join("+")) } else { format!("only-in-the-folder:{}", extra.iter().map(|x| x.as_str()).collect::<Vec<_>>().join("+")) }),
                detail: json!({"argv": argv, "exits": [c1, c2], "stderr": stderr, "folder_output": folder, "single_file_output": single, "declared_in_single_file_output": in_single, "declared_in_folder_output": in_folder}),
            });
        }
    }
    rep.cov("helper_definitions", json!({"process_runs": jobs.len() * 2, "crates": 3, "placements_of_unit_members": 8, "languages": 6, "judgements": judged, "runs_in_which_the_backend_declared_something_of_its_own": with_helpers}));
    rep.cov_add("evaluations", judged);
    rep.cov_add("traces_validated_against_impl", jobs.len() as u64 * 2);
}

/// Layouts in which the crate of a file is not simply "the directory it was found under": crates nested inside a crate's
/// directory, annotated files outside any `src`, crates and files reached through symbolic links. The crate is the
/// directory above the nearest `src` *of the path as walked*; runs at several thread counts must agree with that and
/// with each other.
fn layouts_family(rep: &mut Report) {
    let mut jobs = Vec::new();
    for layout in ["nested-crate-and-files-outside-src", "crate-directory-reached-through-a-link", "file-linked-from-elsewhere"] {
        for threads in [1usize, 2, 4, 16] {
            for rep_i in 0..3 {
                jobs.push((layout, threads, rep_i));
            }
        }
    }
    let results = par_map(&jobs, report::threads(), |(layout, threads, _)| {
        let sc = Scratch::new("c14l");
        let mut extra: Vec<String> = Vec::new();
        let mut expected: BTreeMap<&'static str, Vec<&'static str>> = BTreeMap::new();
        match *layout {
            "nested-crate-and-files-outside-src" => {
                for i in 0..6 {
                    sc.write(&format!("ws/outer/src/m{i}.rs"), format!("#[typeshare]\npub struct Outer{i} {{ pub v: u32 }}\n").as_bytes());
                }
                sc.write("ws/outer/crates/inner/src/lib.rs", b"#[typeshare]\npub struct Inner { pub v: u32 }\n");
                sc.write("ws/outer/crates/inner/src/more.rs", b"#[typeshare]\npub struct InnerMore { pub v: u32 }\n");
                sc.write("ws/outer/examples/demo.rs", b"#[typeshare]\npub struct ExampleOnly { pub v: u32 }\n");
                sc.write("ws/outer/tests/it.rs", b"#[typeshare]\npub struct TestOnly { pub v: u32 }\n");
                expected.insert("outer", vec!["Outer0", "Outer1", "Outer2", "Outer3", "Outer4", "Outer5"]);
                expected.insert("inner", vec!["Inner", "InnerMore"]);
            }
            "crate-directory-reached-through-a-link" => {
                sc.write("real/gamma_0.3/src/lib.rs", b"#[typeshare]\npub struct Gamma { pub v: u32 }\n");
                sc.write("ws/app/src/lib.rs", b"use gamma::Gamma;\n#[typeshare]\npub struct App { pub g: Gamma }\n");
                let _ = std::os::unix::fs::symlink(sc.path("real/gamma_0.3"), sc.path("ws/gamma"));
                extra.push(s("-L"));
                expected.insert("gamma", vec!["Gamma"]);
                expected.insert("app", vec!["App"]);
            }
            _ => {
                sc.write("shared/models.rs", b"#[typeshare]\npub struct Shared { pub v: u32 }\n");
                sc.write("ws/app/src/lib.rs", b"#[typeshare]\npub struct App { pub s: Shared }\n");
                let _ = std::os::unix::fs::symlink(sc.path("shared/models.rs"), sc.path("ws/app/src/models.rs"));
                expected.insert("app", vec!["App", "Shared"]);
            }
        }
        sc.mkdir("out");
        let mut args = cli::lang_args(Lang::TypeScript);
        args.extend(extra);
        args.extend([s("-d"), sc.path("out").to_string_lossy().into_owned(), sc.path("ws").to_string_lossy().into_owned()]);
        let r = run_cli(&args, &sc.root, &[("TYPESHARE_VERIF_THREADS", threads.to_string())], cli::TIMEOUT);
        let snap: BTreeMap<String, String> = cli::snapshot(&sc.path("out")).into_iter().map(|(k, v)| (k, String::from_utf8_lossy(&v).into_owned())).collect();
        (r.class(), r.stderr.chars().take(300).collect::<String>(), snap, expected, args)
    });
    let mut judged = 0u64;
    let mut first_of: BTreeMap<&str, &BTreeMap<String, String>> = BTreeMap::new();
    for ((layout, threads, _), (class, stderr, snap, expected, argv)) in jobs.iter().zip(results.iter()) {
        judged += 1;
        let detail = |what: &str| json!({"layout": layout, "threads": threads, "argv": argv, "exit": class, "stderr": stderr, "output_files": snap, "expected_definitions_per_file": expected, "observation": what});
        if *class != "ok" {
            rep.vios.add(Violation { sig: format!("C14|typescript|layouts|run-{class}|layout={layout}"), detail: detail("the run did not succeed") });
            continue;
        }
        let got: BTreeMap<String, Vec<String>> = snap.iter().map(|(f, text)| (f.trim_end_matches(".ts").to_string(), extract::extract(Lang::TypeScript, text).map(|of| of.defs.iter().map(|d| d.name().to_string()).collect()).unwrap_or_default())).collect();
        let want: BTreeMap<String, Vec<String>> = expected.iter().map(|(k, v)| (k.to_string(), v.iter().map(|x| x.to_string()).collect())).collect();
        let norm = |m: &BTreeMap<String, Vec<String>>| m.iter().map(|(k, v)| { let mut v = v.clone(); v.sort(); (k.clone(), v) }).collect::<BTreeMap<_, _>>();
        if norm(&got) != norm(&want) {
            rep.vios.add(Violation { sig: format!("C14|typescript|layouts|definitions-in-wrong-file-or-missing|layout={layout}"), detail: detail(&format!("definitions per file: {got:?}")) });
        }
        match first_of.get(layout) {
            None => {
                first_of.insert(layout, snap);
            }
            Some(f) if *f != snap => {
                rep.vios.add(Violation { sig: format!("C14|typescript|layouts|output-differs-between-runs|layout={layout}"), detail: detail("the same tree gave different files in another run (other thread count or repetition)") });
            }
            _ => {}
        }
    }
    rep.cov("layouts", json!({"process_runs": jobs.len(), "layouts": ["crate nested in a crate's directory + annotated files under examples/ and tests/ (outside any src: not part of any crate's output)", "crate directory reached through a symbolic link (-L): named after the link", "a file of a crate that is a symbolic link to a file elsewhere: belongs to the crate it was found in"], "thread_counts": [1, 2, 4, 16], "repetitions": 3, "language": "typescript"}));
    rep.cov_add("evaluations", judged);
    rep.cov_add("traces_validated_against_impl", jobs.len() as u64);
}

/// Topologies: k crates `k1..kk`, crate i holds `T<i>` (and a second file with `Extra<i>` at depth), and for every
/// pair i < j an edge "T<i> refers to T<j>" is present or absent — every subset of edges, i.e. every reference DAG
/// compatible with the crate order (chains, fans, diamonds, isolated crates). Generic oracle: file set, each
/// definition exactly once and in its crate's file, same definitions as single-file mode, exact imports.
fn topology_family(rep: &mut Report) {
    #[derive(Clone)]
    struct Topo {
        k: usize,
        edges: u32,
        qualified: bool,
        lang: Lang,
        /// where the workspace sits below the scratch root (a `src` directory *above* the crates must not matter)
        root: &'static str,
        /// every second crate's type carries a name starting with a non-ASCII capital letter
        unicode: bool,
        /// crate directories named `kv-1.<n>`: names that differ only after the last dot (no cross references:
        /// such a name cannot appear in a Rust path)
        dotted: bool,
    }
    fn cdir(n: usize, dotted: bool) -> String {
        if dotted {
            format!("kv-1.{n}")
        } else {
            format!("k{n}")
        }
    }
    fn tn(n: usize, unicode: bool) -> String {
        if unicode && n % 2 == 0 {
            format!("Ét{n}")
        } else {
            format!("T{n}")
        }
    }
    let thorough = rep.thorough();
    let mut jobs = Vec::new();
    for k in 1..=5usize {
        let pairs = k * (k - 1) / 2;
        for edges in 0..(1u32 << pairs) {
            for qualified in [false, true] {
                for &lang in &ALL_LANGS {
                    let imports_lang = matches!(lang, Lang::TypeScript | Lang::Kotlin);
                    // quick: ≤ 4 crates for the import languages, ≤ 3 for the others; thorough: 5 (import languages) / 4
                    let kmax = match (thorough, imports_lang) {
                        (false, true) => 4,
                        (false, false) => 3,
                        (true, true) => 5,
                        (true, false) => 4,
                    };
                    if k > kmax || (qualified && edges == 0) {
                        continue;
                    }
                    jobs.push(Topo { k, edges, qualified, lang, root: "ws", unicode: false, dotted: false });
                    // (not Kotlin: it writes the crate name into the package line, where a dotted name cannot be valid)
                    if edges == 0 && !qualified && k >= 2 && k <= 3 && lang != Lang::Kotlin {
                        jobs.push(Topo { k, edges, qualified, lang, root: "ws", unicode: false, dotted: true });
                    }
                    if k <= 3 && k >= 2 {
                        jobs.push(Topo { k, edges, qualified, lang, root: "ws", unicode: true, dotted: false });
                    }
                    if k <= 3 {
                        jobs.push(Topo { k, edges, qualified, lang, root: "checkout/src/proj/ws", unicode: false, dotted: false });
                    }
                    if k <= 2 {
                        jobs.push(Topo { k, edges, qualified, lang, root: "src", unicode: false, dotted: false });
                    }
                }
            }
        }
    }
    let edge_list = |t: &Topo| -> Vec<(usize, usize)> {
        let mut v = Vec::new();
        let mut bit = 0;
        for i in 0..t.k {
            for j in (i + 1)..t.k {
                if t.edges & (1 << bit) != 0 {
                    v.push((i, j));
                }
                bit += 1;
            }
        }
        v
    };
    let ws_of = |t: &Topo| -> Vec<(String, String)> {
        let es = edge_list(t);
        let mut files = Vec::new();
        for i in 0..t.k {
            let mut uses = String::new();
            let mut fields = String::from("    pub own: u32,\n");
            for (a, b) in es.iter().filter(|e| e.0 == i) {
                let _ = a;
                let n = b + 1;
                let name = tn(n, t.unicode);
                if t.qualified {
                    fields.push_str(&format!("    pub r{n}: Vec<k{n}::{name}>,\n"));
                } else {
                    uses.push_str(&format!("use k{n}::{name};\n"));
                    fields.push_str(&format!("    pub r{n}: Option<{name}>,\n"));
                }
            }
            let n = i + 1;
            let own = tn(n, t.unicode);
            files.push((format!("{}/{}/src/lib.rs", t.root, cdir(n, t.dotted)), format!("{uses}#[typeshare]\npub struct {own} {{\n{fields}}}\n")));
            // a second file of the same crate, deeper, referring to the crate's own type
            files.push((format!("{}/{}/src/sub/more.rs", t.root, cdir(n, t.dotted)), format!("use crate::{own};\n#[typeshare]\npub struct Extra{n} {{\n    pub t: {own},\n}}\n")));
        }
        files
    };
    let obs = par_map(&jobs, report::threads(), |t| {
        let sc = Scratch::new("c14t");
        let ws = ws_of(t);
        for (p, src) in &ws {
            sc.write(p, src.as_bytes());
        }
        sc.mkdir("out");
        let args = cli::lang_args(t.lang);
        let mut margs = args.clone();
        margs.extend([s("-d"), sc.path("out").to_string_lossy().into_owned(), sc.path(t.root).to_string_lossy().into_owned()]);
        let r = run_cli(&margs, &sc.root, &[], cli::TIMEOUT);
        let files: BTreeMap<String, String> = cli::snapshot(&sc.path("out")).into_iter().map(|(k, v)| (k, String::from_utf8_lossy(&v).into_owned())).collect();
        let single_path = sc.path(&format!("single/types.{}", t.lang.ext()));
        sc.mkdir("single");
        let mut sargs = args.clone();
        sargs.extend([s("-o"), single_path.to_string_lossy().into_owned(), sc.path(t.root).to_string_lossy().into_owned()]);
        let r2 = run_cli(&sargs, &sc.root, &[], cli::TIMEOUT);
        Obs { class: r.class(), stderr: r.stderr.chars().take(800).collect(), files, single: std::fs::read_to_string(&single_path).unwrap_or_default(), single_class: r2.class(), argv: margs }
    });
    let mut judgements = 0u64;
    let mut with_edges = 0u64;
    for (t, o) in jobs.iter().zip(obs.iter()) {
        let lang = t.lang;
        let es = edge_list(t);
        if !es.is_empty() {
            with_edges += 1;
        }
        let out_deg_max = (0..t.k).map(|i| es.iter().filter(|e| e.0 == i).count()).max().unwrap_or(0);
        let in_deg_max = (0..t.k).map(|i| es.iter().filter(|e| e.1 == i).count()).max().unwrap_or(0);
        let shape = format!("crates={}|edges={}|max_out={out_deg_max}|max_in={in_deg_max}|qualified={}|non_ascii_names={}|root={}", t.k, es.len(), t.qualified as u8, t.unicode as u8, match t.root { "ws" => "plain", "src" => "directory-named-src", _ => "below-an-outer-src" });
        let ws = ws_of(t);
        let detail = |what: &str| json!({"argv": o.argv, "edges": es.iter().map(|(a, b)| format!("T{}->T{}", a + 1, b + 1)).collect::<Vec<_>>(), "workspace": ws.iter().map(|(p, s)| json!({"path": p, "source": s})).collect::<Vec<_>>(), "generated_files": o.files, "stderr": o.stderr, "observation": what});
        judgements += 1;
        if o.class != "ok" {
            rep.vios.add(Violation { sig: format!("C14|{}|topology|run-failed:{}|{shape}", lang.name(), o.class), detail: detail("multi-file run failed") });
            continue;
        }
        let expected_files: BTreeSet<String> = (1..=t.k).map(|n| pipeline::out_file_name(lang, &cdir(n, t.dotted).replace('-', "_"))).collect();
        if expected_files.len() != t.k {
            rep.machinery(format!("reference model maps {} crates to {} file names", t.k, expected_files.len()));
        }
        let got_files: BTreeSet<String> = o.files.keys().filter(|k| *k != "Codable.swift").cloned().collect();
        if got_files != expected_files {
            rep.vios.add(Violation { sig: format!("C14|{}|topology|file-set|crates={}|dotted_crate_names={}|root={}", lang.name(), t.k, t.dotted as u8, match t.root { "ws" => "plain", "src" => "directory-named-src", _ => "below-an-outer-src" }), detail: detail(&format!("expected files {expected_files:?}, got {got_files:?}")) });
            continue;
        }
        let mut parsed: BTreeMap<String, OutFile> = BTreeMap::new();
        let mut bad = false;
        for (f, text) in o.files.iter().filter(|(f, _)| *f != "Codable.swift") {
            match extract::extract(lang, text) {
                Ok(of) => {
                    parsed.insert(f.clone(), of);
                }
                Err(e) => {
                    rep.vios.add(Violation { sig: format!("C14|{}|topology|unparseable-output:{}", lang.name(), e.class()), detail: detail(&format!("{f}: {}", e.msg())) });
                    bad = true;
                }
            }
        }
        if bad {
            continue;
        }
        // partition: T<n> and Extra<n> exactly once, in k<n>'s file
        for n in 1..=t.k {
            for name in [tn(n, t.unicode), format!("Extra{n}")] {
                judgements += 1;
                let home = pipeline::out_file_name(lang, &cdir(n, t.dotted).replace('-', "_"));
                let total: usize = parsed.values().map(|of| of.defs.iter().filter(|d| d.name() == name).count()).sum();
                let at_home = parsed.get(&home).map(|of| of.defs.iter().filter(|d| d.name() == name).count()).unwrap_or(0);
                if total != 1 || at_home != 1 {
                    rep.vios.add(Violation { sig: format!("C14|{}|topology|definition-misplaced|item={}|{shape}", lang.name(), if name.starts_with("Extra") { "Extra" } else { "T" }), detail: detail(&format!("{name}: {total} definition(s) overall, {at_home} in {home}")) });
                }
            }
        }
        // same definitions as single-file mode
        judgements += 1;
        if o.single_class == "ok" {
            if let Ok(sof) = extract::extract(lang, &o.single) {
                let mut a: Vec<String> = sof.defs.iter().map(def_summary).collect();
                let mut b: Vec<String> = parsed.values().flat_map(|of| of.defs.iter().map(def_summary)).collect();
                a.sort();
                b.sort();
                if a != b {
                    rep.vios.add(Violation { sig: format!("C14|{}|topology|definitions-differ-from-single-file|{shape}", lang.name()), detail: detail(&format!("single-file: {a:?}\nmulti-file: {b:?}")) });
                }
            }
        } else {
            rep.vios.add(Violation { sig: format!("C14|{}|topology|single-file-run-failed:{}", lang.name(), o.single_class), detail: detail("the same tree must also generate in single-file mode") });
        }
        // imports
        if matches!(lang, Lang::TypeScript | Lang::Kotlin) {
            for (f, of) in &parsed {
                let defined_here: BTreeSet<String> = of.defs.iter().map(|d| d.name().to_string()).collect();
                let mut imported: BTreeMap<String, String> = BTreeMap::new();
                for (module, names) in &of.imports {
                    if lang == Lang::Kotlin && module.starts_with("kotlinx.") {
                        continue;
                    }
                    let m = if lang == Lang::TypeScript { module.trim_start_matches("./").to_string() } else { module.rsplit('.').next().unwrap_or("").to_string() };
                    for n in names {
                        imported.insert(n.clone(), m.clone());
                    }
                }
                let mut want: BTreeMap<String, String> = BTreeMap::new();
                for r in referenced_names(of) {
                    if defined_here.contains(&r) {
                        continue;
                    }
                    if let Some((g, _)) = parsed.iter().find(|(g, x)| *g != f && x.defs.iter().any(|d| d.name() == r)) {
                        want.insert(r.clone(), g.rsplit_once('.').map(|x| x.0.to_string()).unwrap_or(g.clone()));
                    } else if (1..=t.k).any(|n| tn(n, t.unicode) == r) {
                        rep.vios.add(Violation { sig: format!("C14|{}|topology|reference-to-undefined-name|{shape}", lang.name()), detail: detail(&format!("{f} refers to {r}, which no generated file defines")) });
                    }
                }
                judgements += 1;
                if imported != want {
                    let missing: Vec<&String> = want.keys().filter(|k| !imported.contains_key(*k)).collect();
                    let extra: Vec<&String> = imported.keys().filter(|k| !want.contains_key(*k)).collect();
                    let wrong: Vec<&String> = want.iter().filter(|(k, m)| imported.get(*k).map(|x| x != *m).unwrap_or(false)).map(|(k, _)| k).collect();
                    let class = if !missing.is_empty() { "import-missing" } else if !wrong.is_empty() { "import-from-wrong-module" } else { "import-not-needed" };
                    rep.vios.add(Violation { sig: format!("C14|{}|topology|{class}|{shape}", lang.name()), detail: detail(&format!("{f}: imports {imported:?}, expected {want:?} (missing {missing:?}, wrong module {wrong:?}, not needed {extra:?})")) });
                }
            }
        }
    }
    rep.cov("topologies", json!({"workspaces": jobs.len(), "with_cross_crate_references": with_edges, "crates": if thorough { "1..=5 (TS, Kotlin), 1..=4 (others)" } else { "1..=4 (TS, Kotlin), 1..=3 (others)" }, "edge_sets": "every subset of {i -> j : i < j}", "reference_styles": ["use + bare name", "qualified path"], "files_per_crate": 2, "type_names": ["T<n>", "every second one starting with a non-ASCII capital (k = 2, 3)"], "workspace_location": ["<scratch>/ws", "<scratch>/checkout/src/proj/ws (k <= 3)", "<scratch>/src (k <= 2)"], "judgements": judgements}));
    rep.cov_add("evaluations", judgements);
    rep.cov_add("states", jobs.len() as u64);
    rep.cov_add("transitions", jobs.len() as u64 * 2);
    rep.cov_add("traces_validated_against_impl", jobs.len() as u64 * 2);
    rep.cov_add("distinct_nontrivial", with_edges);
}

pub fn run(args: &[String]) -> i32 {
    let tier = report::tier_from_env(args);
    let mut rep = Report::new("C14", &tier);
    if !cli::bin_available() {
        rep.machinery(format!("hooks-on CLI binary missing at {}", cli::BIN));
        return rep.finish();
    }
    if crate_of("ws/my-crate/src/a/b.rs") != "my_crate" || crate_of("ws/x/src/src/y.rs") != "src" {
        // directory above the *last* `src`
        rep.machinery("control: crate_of() wrong");
    }
    let thorough = rep.thorough();
    let mut cases = Vec::new();
    for form in FORMS {
        for renamed in [false, true] {
            for mapped in [false, true] {
                for homonym in [false, true] {
                    for position in POSITIONS {
                        for deep in [false, true] {
                            for lang in ALL_LANGS {
                                if !thorough && ((deep && position != "field") || (mapped && renamed)) {
                                    continue;
                                }
                                cases.push(Case { form, renamed, mapped, homonym, homonym_renamed: false, position, deep, dashed: deep || renamed, lang, target_kind: "struct" });
                                if homonym && !mapped && !deep && position == "field" {
                                    cases.push(Case { form, renamed, mapped, homonym, homonym_renamed: true, position, deep, dashed: renamed, lang, target_kind: "struct" });
                                }
                                // the other kinds of target for the plain reference forms (thorough: every form)
                                if !mapped && !homonym && !deep && position == "field" && (thorough || ["use-single", "use-group", "use-glob", "qualified-path", "use-crate", "pub-use-single"].contains(&form)) {
                                    for kind in &TARGET_KINDS[1..] {
                                        cases.push(Case { form, renamed, mapped, homonym, homonym_renamed: false, position, deep, dashed: renamed, lang, target_kind: kind });
                                    }
                                }
                            }
                        }
                    }
                }
            }
        }
    }
    let obs = par_map(&cases, report::threads(), run_case);
    let mut judgements = 0u64;
    let mut outcomes = BTreeSet::new();
    let mut nontrivial = 0u64;
    for (c, o) in cases.iter().zip(obs.iter()) {
        let mut v = Vec::new();
        let (j, oc) = judge(c, o, &mut v);
        judgements += j;
        outcomes.insert(format!("{}|{oc}", c.lang.name()));
        if !same_crate(c.form) {
            nontrivial += 1;
        }
        for x in v {
            rep.vios.add(x);
        }
    }
    if let Some((c, o)) = cases.iter().zip(obs.iter()).find(|(c, _)| c.lang == Lang::TypeScript && c.form == "use-group" && c.homonym) {
        rep.sample(json!({"case": format!("{c:?}"), "workspace": workspace(c), "generated_files": o.files}));
    }
    rep.cov("evaluations", json!(judgements));
    rep.cov("states", json!(cases.len()));
    rep.cov("transitions", json!(cases.len() * 2));
    rep.cov("traces_validated_against_impl", json!(cases.len() * 2));
    rep.cov("distinct_nontrivial", json!(nontrivial));
    rep.cov("distinct_outcomes", json!(outcomes.len()));
    rep.cov("bounds", json!({"reference_forms": FORMS, "target_renamed": [false, true], "target_kinds": TARGET_KINDS, "target_type_mapped": [false, true], "same_named_type_in_third_crate": ["no", "yes", "yes, serde-renamed (plus a fourth crate with another renamed homonym)"], "positions": POSITIONS, "file_depth": ["src/lib.rs", "src/a/b.rs (and dashed crate name)"], "languages": 6, "crates": "2-3 (reference forms), 1-5 (topologies)"}));
    topology_family(&mut rep);
    same_name_from_two_crates_family(&mut rep);
    layouts_family(&mut rep);
    helper_definitions_family(&mut rep);
    rep.cov("exhaustive", json!(true));
    rep.cov("rule", json!("full product of reference form × serde(rename) on the target × type mapping of the target × same-named type in a third crate × reference position × file depth/dashed crate name × language, each workspace generated with -d and with -o by the real binary: file set and names per crate, each definition in its crate's file, definitions equal to single-file mode, and (TypeScript, Kotlin) every cross-file reference imported from the defining module and no import of a name its module does not define. non-trivial = the reference crosses a crate boundary."));
    rep.assume("over-import by `use c::*` (names defined in c but unused) is allowed by the property");
    rep.finish()
}
