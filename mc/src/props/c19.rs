//! C19 — `#[typeshare]` is transparent to the Rust compiler and to serde.
//! E1 enumeration + E4 batch compile: every case is emitted twice in one generated crate (with the
//! typeshare attributes / with exactly those attributes deleted), compiled by rustc and compared.
use crate::report::{self, Report, Violation};
use serde_json::json;
use std::collections::BTreeMap;
use std::path::PathBuf;
use std::process::Command;

const ITEM_ARGS: [&str; 8] = [
    "", "swift = \"Equatable\"", "kotlin = \"JvmInline\"", "serialized_as = \"String\"", "redacted", "swift = \"Hashable\", redacted",
    // two item-level attributes on one item (rendered inside `#[typeshare(…)]`, so the text closes the first and opens the second)
    "swift = \"Codable\")]\n#[typeshare(kotlin = \"JvmInline\"", ")]\n#[typeshare(swift = \"Equatable\"",
];
const HELPERS: [&[&str]; 6] = [
    &[],
    &["#[typeshare(skip)]"],
    &["#[typeshare(serialized_as = \"String\")]"],
    &["#[typeshare(typescript(readonly))]"],
    &["#[typeshare(typescript(type = \"bigint\"), kotlin(type = \"Long\"))]"],
    &["#[typeshare(skip)]", "#[typeshare(serialized_as = \"u32\")]"],
];
/// neighbouring non-typeshare attributes (must survive untouched); `{R}` is a per-member unique rename
const NEIGHBOURS: [&str; 13] = [
    "",
    "#[serde(rename = \"{R}\")]",
    "#[serde(skip)]",
    "#[doc = \" documented member\"]",
    "#[cfg(all())]",
    "#[cfg(any())]",
    "#[allow(dead_code)]",
    // attributes that are not typeshare's but mention the word
    "#[serde(rename = \"typeshare_{R}\")]",
    "#[doc = \" see the typeshare docs\"]",
    "#[cfg(not(feature = \"typeshare\"))]",
    // conditional attributes on members: list-shaped, name-value-shaped, and one whose predicate is false
    "#[cfg_attr(all(), allow(dead_code))]",
    "#[cfg_attr(all(), doc = \" conditionally documented member\")]",
    "#[cfg_attr(any(), serde(skip))]",
];

#[derive(Clone, Debug, Default)]
struct Deco {
    helper: usize,
    before: usize,
    after: usize,
}

impl Deco {
    fn plain(&self) -> bool {
        self.helper == 0 && self.before == 0 && self.after == 0
    }
    /// (attributes with typeshare helpers, attributes with the helpers deleted)
    fn render(&self, unique: &str, serde_ok: bool) -> (String, String) {
        let nb = |i: usize| -> String {
            let n = NEIGHBOURS[i];
            if !serde_ok && n.contains("serde") {
                return "#[allow(dead_code)]".to_string();
            }
            n.replace("{R}", unique)
        };
        let b = nb(self.before);
        let a = nb(self.after);
        let h = HELPERS[self.helper].join(" ");
        (format!("{b} {h} {a}"), format!("{b} {a}"))
    }
    fn compiled_out(&self) -> bool {
        self.before == 5 || self.after == 5
    }
    fn serde_skipped(&self) -> bool {
        self.before == 2 || self.after == 2
    }
}

#[derive(Clone, Debug)]
struct Case {
    id: usize,
    kind: &'static str,
    item_arg: usize,
    /// decoration per member position
    decos: Vec<Deco>,
    /// derive before typeshare (only for cases without nested helpers)
    derive_first: bool,
}

const KINDS: [(&str, usize); 18] = [
    // data-carrying variants with explicit discriminants (legal under a primitive repr)
    ("repr-enum-with-discriminants", 4),
    // tuple structs whose where-clause comes after the field list and itself contains bracketed / parenthesised groups
    ("generic-tuple-struct-where-groups", 2), ("generic-tuple-struct-where-fn-bound", 1),
    ("named-struct", 2), ("tuple-struct", 2), ("unit-struct", 0), ("enum", 6), ("union", 2), ("alias", 0), ("const", 0), ("generic-struct", 2), ("generic-enum", 3),
    // the same items with other visibilities (the macro sees the visibility tokens before the item keyword)
    ("alias-pub-crate", 0), ("alias-private", 0), ("alias-generic-pub-super", 0), ("const-pub-crate", 0), ("const-pub-in-path", 0), ("static-like-const-private", 0),
];

fn serde_capable(kind: &str) -> bool {
    !(matches!(kind, "union" | "alias" | "const") || kind.starts_with("alias-") || kind.starts_with("const-") || kind.starts_with("static-"))
}

/// source of one module (`with`: typeshare attributes present)
fn module_src(c: &Case, with: bool) -> (String, Option<String>) {
    let serde_ok = serde_capable(c.kind);
    let d = |i: usize, tag: &str| -> String {
        let (w, wo) = c.decos[i].render(&format!("{tag}{i}"), serde_ok);
        if with {
            w
        } else {
            wo
        }
    };
    let ts = if !with {
        String::new()
    } else if ITEM_ARGS[c.item_arg].is_empty() {
        "#[typeshare]".to_string()
    } else {
        format!("#[typeshare({})]", ITEM_ARGS[c.item_arg])
    };
    let derives = if serde_ok { "#[derive(Debug, Clone, PartialEq, Serialize, Deserialize)]" } else { "" };
    let head = if c.derive_first { format!("{derives}\n{ts}\n#[verif_dump]") } else { format!("{ts}\n#[verif_dump]\n{derives}") };
    let any_out = c.decos.iter().any(|x| x.compiled_out());
    let any_skip = c.decos.iter().any(|x| x.serde_skipped());
    let (body, value): (String, Option<String>) = match c.kind {
        "named-struct" => (
            format!("{head}\npub struct Subject {{\n    {} pub alpha: u32,\n    {} pub beta: String,\n}}\n", d(0, "m"), d(1, "m")),
            (!any_out).then(|| "vec![Subject { alpha: 7, beta: \"b\".to_string() }]".to_string()),
        ),
        "tuple-struct" => (format!("{head}\npub struct Subject({} pub u32, {} pub String);\n", d(0, "t"), d(1, "t")), (!any_out && !any_skip).then(|| "vec![Subject(7, \"b\".to_string())]".to_string())),
        "unit-struct" => (format!("{head}\npub struct Subject;\n"), Some("vec![Subject]".to_string())),
        "enum" => (
            format!(
                "{head}\n#[serde(tag = \"type\", content = \"content\")]\npub enum Subject {{\n    {} Unit,\n    {} Tuple({} u32, {} String),\n    {} Named {{ {} gamma: bool }},\n    Last,\n}}\n",
                d(0, "v"),
                d(1, "v"),
                d(2, "f"),
                d(3, "f"),
                d(4, "v"),
                d(5, "f")
            ),
            (!any_out && !any_skip).then(|| "vec![Subject::Unit, Subject::Tuple(7, \"b\".to_string()), Subject::Named { gamma: true }, Subject::Last]".to_string()),
        ),
        "union" => (format!("{ts}\n#[verif_dump]\n#[derive(Clone, Copy)]\npub union Subject {{\n    {} pub a: u32,\n    {} pub b: f32,\n}}\n", d(0, "u"), d(1, "u")), None),
        "alias" => (format!("{ts}\n#[verif_dump]\npub type Subject = Vec<u32>;\n"), None),
        "alias-pub-crate" => (format!("{ts}\n#[verif_dump]\npub(crate) type Subject = Vec<u32>;\n"), None),
        "alias-private" => (format!("{ts}\n#[verif_dump]\ntype Subject = Vec<u32>;\n"), None),
        "alias-generic-pub-super" => (format!("{ts}\n#[verif_dump]\npub(super) type Subject<T> = Vec<T>;\n"), None),
        "const-pub-crate" => (format!("{ts}\n#[verif_dump]\npub(crate) const SUBJECT: u32 = 5;\n"), None),
        "const-pub-in-path" => (format!("{ts}\n#[verif_dump]\npub(in crate) const SUBJECT: u32 = 5;\n"), None),
        "static-like-const-private" => (format!("{ts}\n#[verif_dump]\nconst SUBJECT: &str = \"text\";\n"), None),
        "const" => (format!("{ts}\n#[verif_dump]\npub const SUBJECT: u32 = 5;\n"), None),
        "repr-enum-with-discriminants" => (
            format!(
                "{head}\n#[repr(u8)]\n#[serde(tag = \"type\", content = \"content\")]\npub enum Subject {{\n    Unit = 1,\n    {} Tuple({} u32, {} String) = 4,\n    Named {{ {} gamma: bool }} = 7,\n    Last = 9,\n}}\n",
                d(0, "v"),
                d(1, "f"),
                d(2, "f"),
                d(3, "f")
            ),
            (!any_out && !any_skip).then(|| "vec![Subject::Unit, Subject::Tuple(7, \"b\".to_string()), Subject::Named { gamma: true }, Subject::Last]".to_string()),
        ),
        "generic-tuple-struct-where-groups" => (
            format!("{head}\n#[serde(bound = \"T: Serialize + serde::de::DeserializeOwned\")]\npub struct Subject<T>({} pub u32, {} pub String, pub std::marker::PhantomData<T>)\nwhere\n    T: Clone + std::fmt::Debug,\n    [T; 2]: Clone,\n    (T, T): Clone;\n", d(0, "t"), d(1, "t")),
            (!any_out && !any_skip).then(|| "vec![Subject::<u32>(7, \"b\".to_string(), std::marker::PhantomData)]".to_string()),
        ),
        "generic-tuple-struct-where-fn-bound" => (
            format!("{head}\n#[serde(bound = \"T: Serialize + serde::de::DeserializeOwned\")]\npub struct Subject<T>({} pub Vec<T>, pub std::marker::PhantomData<T>)\nwhere\n    T: Clone + std::fmt::Debug,\n    fn(T) -> (T, [u8; 4]): Copy;\n", d(0, "t")),
            (!any_out && !any_skip).then(|| "vec![Subject::<u32>(vec![7, 8], std::marker::PhantomData)]".to_string()),
        ),
        "generic-struct" => (
            format!("{head}\n#[serde(bound = \"T: Serialize + serde::de::DeserializeOwned\")]\npub struct Subject<T>\nwhere\n    T: Clone + std::fmt::Debug,\n{{\n    {} pub first: Vec<T>,\n    {} pub second: Option<T>,\n}}\n", d(0, "g"), d(1, "g")),
            (!any_out).then(|| "vec![Subject::<u32> { first: vec![1, 2], second: Some(3) }]".to_string()),
        ),
        _ => (
            format!("{head}\n#[serde(bound = \"T: Serialize + serde::de::DeserializeOwned + Default\")]\npub enum Subject<T: Clone + Default> {{\n    {} A(T),\n    {} B {{ {} t: T }},\n    C,\n}}\n", d(0, "v"), d(1, "v"), d(2, "f")),
            (!any_out && !any_skip).then(|| "vec![Subject::<u32>::A(1), Subject::<u32>::B { t: 2 }, Subject::<u32>::C]".to_string()),
        ),
    };
    // serde(skip) needs Default on skipped members' types (all primitive here); tuple/enum skip cases are token-only
    let src = format!("#![allow(dead_code, unused_imports)]\nuse serde::{{Deserialize, Serialize}};\nuse typeshare_annotation::typeshare;\nuse verif_dump::verif_dump;\n\n{body}\n{}", match &value {
        Some(v) if serde_ok => format!("pub fn values() -> Vec<String> {{\n    let vs = {v};\n    vs.iter().map(|v| serde_json::to_string(v).unwrap()).collect()\n}}\npub fn reparse(json: &[String]) -> Vec<String> {{\n    json.iter().map(|j| match serde_json::from_str::<{}>(j) {{ Ok(v) => serde_json::to_string(&v).unwrap(), Err(e) => format!(\"ERR {{e}}\") }}).collect()\n}}\n", if c.kind.starts_with("generic") { "Subject<u32>" } else { "Subject" }),
        _ => String::new(),
    });
    (src, if serde_ok { value } else { None })
}

fn enumerate(thorough: bool) -> Vec<Case> {
    let mut cases = Vec::new();
    let push = |kind: &'static str, item_arg: usize, decos: Vec<Deco>, derive_first: bool, cases: &mut Vec<Case>| {
        let id = cases.len();
        cases.push(Case { id, kind, item_arg, decos, derive_first });
    };
    for (kind, n) in KINDS {
        // every item-level argument list, members plain
        for a in 0..ITEM_ARGS.len() {
            push(kind, a, vec![Deco::default(); n], false, &mut cases);
        }
        // derive written before #[typeshare]: only meaningful without nested helpers
        if serde_capable(kind) {
            push(kind, 0, vec![Deco::default(); n], true, &mut cases);
            push(kind, 4, vec![Deco::default(); n], true, &mut cases);
        }
        for pos in 0..n {
            for helper in 0..HELPERS.len() {
                for before in 0..NEIGHBOURS.len() {
                    for after in 0..NEIGHBOURS.len() {
                        if !thorough && before != 0 && after != 0 {
                            continue; // quick: helper × (one neighbour before | one neighbour after)
                        }
                        if helper == 0 && before == 0 && after == 0 {
                            continue;
                        }
                        // the same attribute twice on one member is not a meaningful program
                        // (two renames on one member likewise)
                        if (before == after && before != 0 && matches!(before, 1 | 2 | 7)) || (matches!(before, 1 | 7) && matches!(after, 1 | 7)) {
                            continue;
                        }
                        let mut decos = vec![Deco::default(); n];
                        decos[pos] = Deco { helper, before, after };
                        push(kind, if helper % 2 == 0 { 0 } else { 4 }, decos.clone(), false, &mut cases);
                        // a nested helper under every item-level argument list (the macro sees both)
                        if helper != 0 && before == 0 && after == 0 {
                            for a in 1..ITEM_ARGS.len() {
                                if a != 4 || helper % 2 == 0 {
                                    push(kind, a, decos.clone(), false, &mut cases);
                                }
                            }
                        }
                    }
                }
            }
        }
        // helpers on two members at once (every pair of positions, every pair of helpers)
        {
            // quick: the two most common helpers; thorough: every helper
            let hmax = if thorough { HELPERS.len() } else { 3 };
            for p in 0..n {
                for q in (p + 1)..n {
                    for h1 in 1..hmax {
                        for h2 in 1..hmax {
                            let mut decos = vec![Deco::default(); n];
                            decos[p] = Deco { helper: h1, before: 3, after: 0 };
                            decos[q] = Deco { helper: h2, before: 0, after: 1 };
                            push(kind, 1, decos, false, &mut cases);
                        }
                    }
                }
            }
        }
    }
    cases
}

struct CrateResult {
    built: bool,
    build_log: String,
    lines: BTreeMap<usize, serde_json::Value>,
    failed_cases: Vec<usize>,
    wall_s: f64,
}

const BINS: usize = 16;

/// One generated cargo workspace of `BINS` binary crates (built in parallel by cargo), each holding a share of the cases.
fn build_and_run(name: &str, cases: &[&Case]) -> CrateResult {
    let start = std::time::Instant::now();
    let dir = PathBuf::from("/verif/target/e4").join(name);
    let _ = std::fs::remove_dir_all(&dir);
    std::fs::create_dir_all(&dir).unwrap();
    let nb = BINS.min(cases.len().max(1));
    let members: Vec<String> = (0..nb).map(|i| format!("\"bin_{i}\"")).collect();
    std::fs::write(dir.join("Cargo.toml"), format!("[workspace]\nresolver = \"2\"\nmembers = [{}]\n\n[profile.dev]\ndebug = false\nincremental = false\nopt-level = 0\n", members.join(", "))).unwrap();
    let _ = std::fs::copy("/repo/Cargo.lock", dir.join("Cargo.lock"));
    for bi in 0..nb {
        let bdir = dir.join(format!("bin_{bi}"));
        std::fs::create_dir_all(bdir.join("src")).unwrap();
        std::fs::write(
            bdir.join("Cargo.toml"),
            format!("[package]\nname = \"c19_bin_{bi}\"\nversion = \"0.1.0\"\nedition = \"2021\"\n\n[dependencies]\nserde = {{ version = \"1\", features = [\"derive\"] }}\nserde_json = \"1\"\ntypeshare-annotation = {{ path = \"/repo/annotation\" }}\nverif_dump = {{ path = \"/verif/mc/verif_dump\" }}\n"),
        )
        .unwrap();
        let mine: Vec<&&Case> = cases.iter().enumerate().filter(|(i, _)| i % nb == bi).map(|(_, c)| c).collect();
        let mut main = String::from("#![allow(non_snake_case, dead_code)]\n");
        for c in &mine {
            let (a, _) = module_src(c, true);
            let (b, _) = module_src(c, false);
            std::fs::write(bdir.join(format!("src/case_{}_a.rs", c.id)), a).unwrap();
            std::fs::write(bdir.join(format!("src/case_{}_b.rs", c.id)), b).unwrap();
            main.push_str(&format!("mod case_{0}_a;\nmod case_{0}_b;\n", c.id));
        }
        main.push_str("fn esc(s: &str) -> String { serde_json::to_string(s).unwrap() }\nfn main() {\n");
        for c in &mine {
            let has_values = module_src(c, true).1.is_some();
            main.push_str(&format!("    {{\n        let ta = case_{0}_a::TOKENS; let tb = case_{0}_b::TOKENS;\n", c.id));
            if has_values {
                main.push_str(&format!(
                    "        let va = case_{0}_a::values(); let vb = case_{0}_b::values();\n        let ra = case_{0}_a::reparse(&vb); let rb = case_{0}_b::reparse(&va);\n        println!(\"{{{{\\\"case\\\":{0},\\\"tokens_equal\\\":{{}},\\\"a\\\":{{}},\\\"b\\\":{{}},\\\"json_equal\\\":{{}},\\\"cross_parse_equal\\\":{{}},\\\"json\\\":{{}}}}}}\", ta == tb, esc(ta), esc(tb), va == vb, ra == rb && ra == va, esc(&va.join(\" \")));\n",
                    c.id
                ));
            } else {
                main.push_str(&format!("        println!(\"{{{{\\\"case\\\":{0},\\\"tokens_equal\\\":{{}},\\\"a\\\":{{}},\\\"b\\\":{{}}}}}}\", ta == tb, esc(ta), esc(tb));\n", c.id));
            }
            main.push_str("    }\n");
        }
        main.push_str("}\n");
        std::fs::write(bdir.join("src/main.rs"), main).unwrap();
    }
    let out = Command::new("cargo")
        .args(["build", "--offline", "--quiet", "--workspace", "--message-format", "short"])
        .current_dir(&dir)
        .env("CARGO_TARGET_DIR", "/verif/target/e4/target")
        .env("CARGO_NET_OFFLINE", "true")
        .env("RUSTFLAGS", "-Awarnings -Ccodegen-units=4")
        .output();
    let Ok(out) = out else {
        return CrateResult { built: false, build_log: "cannot run cargo".into(), lines: BTreeMap::new(), failed_cases: vec![], wall_s: 0.0 };
    };
    let log = format!("{}{}", String::from_utf8_lossy(&out.stdout), String::from_utf8_lossy(&out.stderr));
    if !out.status.success() {
        let mut failed: Vec<usize> = Vec::new();
        for l in log.lines() {
            if let Some(i) = l.find("src/case_") {
                let rest = &l[i + 9..];
                let n: String = rest.chars().take_while(|c| c.is_ascii_digit()).collect();
                if let Ok(n) = n.parse() {
                    if !failed.contains(&n) {
                        failed.push(n);
                    }
                }
            }
        }
        return CrateResult { built: false, build_log: log.chars().take(8000).collect(), lines: BTreeMap::new(), failed_cases: failed, wall_s: start.elapsed().as_secs_f64() };
    }
    let mut lines = BTreeMap::new();
    for bi in 0..nb {
        if let Ok(r) = Command::new(format!("/verif/target/e4/target/debug/c19_bin_{bi}")).output() {
            for l in String::from_utf8_lossy(&r.stdout).lines() {
                if let Ok(v) = serde_json::from_str::<serde_json::Value>(l) {
                    if let Some(id) = v["case"].as_u64() {
                        lines.insert(id as usize, v);
                    }
                }
            }
        }
    }
    let _ = std::fs::remove_dir_all(&dir);
    CrateResult { built: true, build_log: String::new(), lines, failed_cases: vec![], wall_s: start.elapsed().as_secs_f64() }
}

fn describe(c: &Case) -> serde_json::Value {
    json!({"item": c.kind, "typeshare_args": ITEM_ARGS[c.item_arg], "derive_before_typeshare": c.derive_first,
           "members": c.decos.iter().enumerate().filter(|(_, d)| !d.plain()).map(|(i, d)| json!({"position": i, "helper": HELPERS[d.helper], "before": NEIGHBOURS[d.before], "after": NEIGHBOURS[d.after]})).collect::<Vec<_>>()})
}

fn shape(c: &Case) -> String {
    let m: Vec<String> = c.decos.iter().enumerate().filter(|(_, d)| !d.plain()).map(|(i, d)| format!("m{i}:h{}b{}a{}", d.helper, d.before, d.after)).collect();
    format!("item={}|args={}|derive_first={}|{}", c.kind, c.item_arg, c.derive_first as u8, m.join(","))
}

/// builds the dependencies of the generated crates once (serde, serde_derive, typeshare-annotation, verif_dump)
/// The attribute reached the way the documentation tells users to: through the `typeshare` library crate's re-export,
/// under each feature selection of that crate a consumer may legitimately write. One tiny crate per selection, the
/// annotated and the stripped twin in it; both must build and serialise alike.
fn facade_family(rep: &mut Report) {
    const SELECTIONS: [(&str, &str); 3] = [
        ("default-features", "typeshare = { path = \"/repo/lib\" }"),
        ("no-default-features", "typeshare = { path = \"/repo/lib\", default-features = false }"),
        ("no-default-features-renamed-dependency", "ts = { package = \"typeshare\", path = \"/repo/lib\", default-features = false }"),
    ];
    let mut results = Vec::new();
    for (name, dep) in SELECTIONS {
        let dir = PathBuf::from("/verif/target/e4").join(format!("facade_{}", name.replace('-', "_")));
        let _ = std::fs::remove_dir_all(&dir);
        std::fs::create_dir_all(dir.join("src")).unwrap();
        let _ = std::fs::copy("/repo/Cargo.lock", dir.join("Cargo.lock"));
        std::fs::write(dir.join("Cargo.toml"), format!("[package]\nname = \"c19_facade\"\nversion = \"0.1.0\"\nedition = \"2021\"\n\n[workspace]\n\n[dependencies]\nserde = {{ version = \"1\", features = [\"derive\"] }}\nserde_json = \"1\"\n{dep}\n\n[profile.dev]\ndebug = false\nincremental = false\n")).unwrap();
        let krate = if dep.starts_with("ts ") { "ts" } else { "typeshare" };
        let main = format!(
            "use serde::Serialize;\nmod a {{\n    use serde::Serialize;\n    use {krate}::typeshare;\n    #[typeshare(swift = \"Equatable\")]\n    #[derive(Serialize)]\n    #[serde(rename_all = \"camelCase\")]\n    pub struct Subject {{\n        #[typeshare(serialized_as = \"String\")]\n        pub user_id: {krate}::U53,\n        #[serde(skip)]\n        #[typeshare(skip)]\n        pub hidden: u32,\n    }}\n}}\nmod b {{\n    use serde::Serialize;\n    #[derive(Serialize)]\n    #[serde(rename_all = \"camelCase\")]\n    pub struct Subject {{\n        pub user_id: {krate}::U53,\n        #[serde(skip)]\n        pub hidden: u32,\n    }}\n}}\nfn show<T: Serialize>(t: &T) -> String {{ serde_json::to_string(t).unwrap() }}\nfn main() {{\n    let v = {krate}::U53::try_from(7u64).unwrap();\n    println!(\"{{}}\", show(&a::Subject {{ user_id: v, hidden: 1 }}));\n    println!(\"{{}}\", show(&b::Subject {{ user_id: v, hidden: 1 }}));\n}}\n"
        );
        std::fs::write(dir.join("src/main.rs"), main).unwrap();
        let out = Command::new("cargo")
            .args(["run", "--offline", "--quiet", "--message-format", "short"])
            .current_dir(&dir)
            .env("CARGO_TARGET_DIR", format!("/verif/target/e4/target_facade_{}", name.replace('-', "_")))
            .env("CARGO_NET_OFFLINE", "true")
            .env("RUSTFLAGS", "-Awarnings")
            .output();
        let (ok, log, stdout) = match out {
            Ok(o) => (o.status.success(), String::from_utf8_lossy(&o.stderr).chars().take(3000).collect::<String>(), String::from_utf8_lossy(&o.stdout).into_owned()),
            Err(e) => (false, format!("cannot run cargo: {e}"), String::new()),
        };
        let lines: Vec<&str> = stdout.lines().collect();
        let same = ok && lines.len() == 2 && lines[0] == lines[1] && lines[0].contains("userId");
        if !same {
            // tell an annotated-side failure from a harness problem: the stripped twin alone is plain serde
            if log.contains("cannot run cargo") || log.contains("failed to select a version") || log.contains("no matching package") {
                rep.machinery(format!("facade crate ({name}) could not be set up: {}", log.chars().take(400).collect::<String>()));
            } else {
                rep.vios.add(Violation {
                    sig: format!("C19|attribute-through-the-library-re-export|features={name}|{}", if !ok { "annotated-program-does-not-build" } else { "twins-serialise-differently" }),
                    detail: json!({"dependency_line": dep, "build_log": log, "stdout": stdout, "observation": "the program that uses #[typeshare] through the library crate must build and behave like the one without the attributes"}),
                });
            }
        }
        results.push(json!({"features": name, "built_and_equal": same}));
    }
    rep.cov("attribute_through_the_library_re_export", json!(results));
    rep.cov_add("evaluations", SELECTIONS.len() as u64);
}

pub fn warm() {
    let cases = enumerate(false);
    let first: Vec<&Case> = cases.iter().take(2).collect();
    let r = build_and_run("c19_warm", &first);
    println!("c19 warm build: built={} {:.1}s", r.built, r.wall_s);
}

pub fn run(args: &[String]) -> i32 {
    let tier = report::tier_from_env(args);
    let mut rep = Report::new("C19", &tier);
    let thorough = rep.thorough();
    let cases = enumerate(thorough);
    // batches: one generated crate each (built one after the other; rustc itself uses all cores)
    let per = if thorough { 4000 } else { 5000 };
    let mut compiled = 0u64;
    let mut tokens_judged = 0u64;
    let mut json_judged = 0u64;
    let mut walls = Vec::new();
    for (bi, chunk) in cases.chunks(per).enumerate() {
        let mut active: Vec<&Case> = chunk.iter().collect();
        for attempt in 0..4 {
            let r = build_and_run(&format!("c19_{tier}_{bi}"), &active);
            walls.push((r.wall_s * 10.0).round() / 10.0);
            if !r.built {
                if r.failed_cases.is_empty() || attempt == 3 {
                    rep.machinery(format!("generated crate does not build and the failing cases could not be isolated:\n{}", r.build_log.chars().take(1500).collect::<String>()));
                    break;
                }
                // cases that do not compile: with and without the typeshare attributes? the stripped twin alone must compile
                for id in &r.failed_cases {
                    if let Some(c) = chunk.iter().find(|c| c.id == *id) {
                        let in_a = r.build_log.contains(&format!("src/case_{id}_a.rs"));
                        let in_b = r.build_log.contains(&format!("src/case_{id}_b.rs"));
                        let errs: Vec<&str> = r.build_log.lines().filter(|l| l.contains(&format!("src/case_{id}_"))).take(4).collect();
                        if in_b {
                            // the un-annotated program itself does not compile: generator problem, not a verdict
                            rep.machinery(format!("stripped twin of case {id} does not compile: {errs:?}"));
                        } else if in_a {
                            rep.vios.add(Violation {
                                sig: format!("C19|annotated-program-does-not-compile|{}", shape(c)),
                                detail: json!({"case": describe(c), "annotated_source": module_src(c, true).0, "stripped_source": module_src(c, false).0, "rustc": errs}),
                            });
                        }
                    }
                }
                active.retain(|c| !r.failed_cases.contains(&c.id));
                continue;
            }
            for c in &active {
                compiled += 1;
                let Some(v) = r.lines.get(&c.id) else {
                    rep.machinery(format!("no result line for case {}", c.id));
                    continue;
                };
                tokens_judged += 1;
                if v["tokens_equal"].as_bool() != Some(true) {
                    rep.vios.add(Violation {
                        sig: format!("C19|item-tokens-differ|{}", shape(c)),
                        detail: json!({"case": describe(c), "annotated_source": module_src(c, true).0, "tokens_after_typeshare": v["a"], "tokens_of_stripped_twin": v["b"]}),
                    });
                }
                if v.get("json_equal").is_some() {
                    json_judged += 1;
                    if v["json_equal"].as_bool() != Some(true) || v["cross_parse_equal"].as_bool() != Some(true) {
                        rep.vios.add(Violation {
                            sig: format!("C19|serialised-form-differs|{}", shape(c)),
                            detail: json!({"case": describe(c), "annotated_source": module_src(c, true).0, "result": v}),
                        });
                    }
                }
            }
            break;
        }
    }
    if let Some(c) = cases.iter().find(|c| c.kind == "enum" && c.decos.iter().any(|d| d.helper == 5)) {
        rep.sample(json!({"case": describe(c), "annotated_module": module_src(c, true).0, "stripped_module": module_src(c, false).0}));
    }
    rep.cov("evaluations", json!(tokens_judged + json_judged));
    rep.cov("states", json!(cases.len()));
    rep.cov("transitions", json!(cases.len() * 2));
    rep.cov("traces_validated_against_impl", json!(compiled));
    rep.cov("distinct_nontrivial", json!(cases.iter().filter(|c| c.decos.iter().any(|d| d.helper != 0)).count()));
    rep.cov("cases", json!(cases.len()));
    rep.cov("cases_compiled_and_run", json!(compiled));
    rep.cov("token_comparisons", json!(tokens_judged));
    rep.cov("serde_json_comparisons", json!(json_judged));
    rep.cov("crate_build_wall_s", json!(walls));
    rep.cov("exhaustive", json!(true));
    facade_family(&mut rep);
    rep.cov("rule", json!("9 item kinds × every #[typeshare(...)] argument list × for every member position: every helper attribute list × neighbouring attribute (13 kinds, incl. cfg_attr with a list-shaped, a name-value and an inactive entry) before × after (quick: one neighbour at a time; thorough: both, plus helpers on two members at once) × derive before/after #[typeshare]; every case emitted twice (annotated / stripped twin) in one generated crate, compiled by rustc with the real typeshare-annotation macro; a harness attribute macro below #[typeshare] records the item's tokens: they must equal the twin's, and serde_json output / cross-deserialisation must agree. non-trivial = at least one nested helper attribute present."));
    rep.assume("one toolchain (the installed rustc); serde 1.0.214 from the cargo cache");
    rep.assume("cases in which a member is compiled out (cfg(any())) or serde-skipped in tuple/enum position are compared on tokens only");
    rep.finish()
}
