//! C15 — documentation text is carried only inside comments of the generated code.
use super::common::{merge, require_nonvacuous, Acc};
use crate::explore::{explore, Chooser, Mode};
use crate::extract;
use crate::pipeline::{self, Cfg, Lang, Outcome, SrcFile, ALL_LANGS};
use crate::prog::*;
use crate::report::{self, Report, Violation};
use serde_json::json;
use std::collections::HashMap;
use std::sync::Mutex;

// the plain-text token is spelled so that, right after the backslash token, it reads as a unicode escape of a line break
const TOKENS: [&str; 12] = ["u000a", "\n", "*/", "/*", "//", "\"\"\"", "'''", "\\", "#", "`", "\"", "'"];
const TOKEN_NAMES: [&str; 12] = ["word", "NL", "*/", "/*", "//", "\"\"\"", "'''", "backslash", "#", "backtick", "\"", "'"];
const SYNTAXES: [&str; 4] = ["line", "block", "attr", "raw-attr"];
const POSITIONS: [&str; 14] = ["type", "field", "unit-variant", "variant", "variant-field", "alias", "unit-enum-type", "algebraic-enum-type", "algebraic-unit-variant", "algebraic-struct-variant", "newtype-struct", "unit-struct",
    // members a backend declares through a call or an annotation of its own (optional, bound to another key)
    "optional-field", "renamed-variant-field"];
/// item-level `#[typeshare(..)]` arguments that send an item through another writer of a backend
const DECORS: [&str; 4] = ["none", "kotlin-JvmInline-on-alias-and-newtype", "redacted-everywhere-plus-JvmInline", "swift-decorators-and-constraints"];

#[derive(Clone, Debug)]
pub struct Case {
    pub word: Vec<usize>,
    pub spaced: bool,
    pub syntax: &'static str,
    pub position: &'static str,
    pub lang: Lang,
    /// a second one-line `///` doc on the same element: 0 none, 1 plain text before, 2 plain text after the enumerated
    /// one, 3 an empty `///` line after it (the doc ends in an empty line), 4 an empty `///` line before it
    pub companion: usize,
    /// index into `DECORS`
    pub decor: usize,
}

pub fn gen(ch: &mut Chooser, max_len: usize) -> Case {
    let len = 1 + ch.choose("len", max_len);
    let word: Vec<usize> = (0..len).map(|_| ch.choose("token", TOKENS.len())).collect();
    let spaced = ch.flag("spaced");
    // (quick tier: the raw-string spelling for words of up to two tokens)
    let syntax = if max_len < 4 && len == 3 { *ch.pick("syntax", &SYNTAXES[..3]) } else { *ch.pick("syntax", &SYNTAXES) };
    let position = *ch.pick("position", &POSITIONS);
    let lang = *ch.pick("lang", &ALL_LANGS);
    // quick tier: the companion dimension for words of up to two tokens (the three-token words run without it)
    // (thorough: all five forms up to three tokens, the two plain-text forms for the four-token words)
    let companion = if len <= 2 || (max_len >= 4 && len <= 3) { ch.choose("companion_line_doc", 6) } else if max_len >= 4 { ch.choose("companion_line_doc", 3) } else { 0 };
    // the decorated programs for the shortest words (one token in quick, up to two in thorough)
    let decor = if len == 1 || (max_len >= 4 && len <= 2) { ch.choose("item_decorators", DECORS.len()) } else { 0 };
    Case { word, spaced, syntax, position, lang, companion, decor }
}

pub fn payload(c: &Case) -> String {
    let sep = if c.spaced { " " } else { "" };
    let body: Vec<&str> = c.word.iter().map(|i| TOKENS[*i]).collect();
    format!("DOCB7{sep}{}{sep}DOCE7", body.join(sep))
}

/// None when the Rust syntax cannot express the payload
pub fn doc_for(c: &Case) -> Option<Doc> {
    let p = payload(c);
    match c.syntax {
        "line" => Some(Doc::Line(p)),
        "block" => {
            // a block doc comment cannot contain its own terminator, and `/*` nests
            if p.contains("*/") || p.contains("/*") {
                None
            } else {
                Some(Doc::Block(p))
            }
        }
        "raw-attr" => {
            // r##"…"## ends at the first `"##`
            if p.contains("\"##") {
                None
            } else {
                Some(Doc::RawAttr(p))
            }
        }
        _ => Some(Doc::Attr(p)),
    }
}

pub fn program(position: &str, doc: Option<Doc>) -> File {
    program_with(position, doc.into_iter().collect(), 0)
}

/// `docs`: the doc attributes of the chosen position, in source order
pub fn program_with(position: &str, all: Vec<Doc>, decor: usize) -> File {
    let docs = |pos: &str| -> Vec<Doc> { if pos == position { all.clone() } else { vec![] } };
    let mut s = Item::strukt("Shape", vec![{
        let mut f = Field::new("side", Ty::Prim("u32"));
        f.docs = docs("field");
        f
    }, {
        let mut f = Field::new("maybe", Ty::Option(Box::new(Ty::Prim("u32"))));
        f.docs = docs("optional-field");
        f
    }]);
    s.docs = docs("type");
    let mut u = Item::enumm("Unit", vec![
        {
            let mut v = Variant::new("North", VKind::Unit);
            v.docs = docs("unit-variant");
            v
        },
        Variant::new("South", VKind::Unit),
    ]);
    u.docs = docs("unit-enum-type");
    let mut e = Item::enumm("Alg", vec![
        {
            let mut v = Variant::new("Num", VKind::Newtype(Ty::Prim("u32")));
            v.docs = docs("variant");
            v
        },
        {
            let mut v = Variant::new("Rec", VKind::Struct(vec![{
                let mut f = Field::new("inner", Ty::Prim("bool"));
                f.docs = docs("variant-field");
                f
            }, {
                let mut f = Field::new("other_name", Ty::Prim("String"));
                f.rename = Some("other-name".into());
                f.docs = docs("renamed-variant-field");
                f
            }]));
            v.docs = docs("algebraic-struct-variant");
            v
        },
        {
            let mut v = Variant::new("Nil", VKind::Unit);
            v.docs = docs("algebraic-unit-variant");
            v
        },
    ]);
    e.docs = docs("algebraic-enum-type");
    let mut a = Item::new("Name", IKind::Alias(Ty::Prim("String")));
    a.docs = docs("alias");
    let mut n = Item::new("Wrapped", IKind::Newtype(Ty::Prim("String")));
    n.docs = docs("newtype-struct");
    let mut m = Item::new("Marker", IKind::UnitStruct);
    m.docs = docs("unit-struct");
    let q = |x: &str| x.to_string();
    match decor {
        1 => {
            a.ts_args.push(q("kotlin = \"JvmInline\""));
            n.ts_args.push(q("kotlin = \"JvmInline\""));
        }
        2 => {
            for it in [&mut a, &mut n] {
                it.ts_args.push(q("kotlin = \"JvmInline\""));
                it.ts_args.push(q("redacted"));
            }
            for it in [&mut s, &mut u, &mut e, &mut m] {
                it.ts_args.push(q("redacted"));
            }
        }
        3 => {
            for it in [&mut s, &mut u, &mut e, &mut a, &mut n, &mut m] {
                it.ts_args.push(q("swift = \"Equatable, Hashable\""));
            }
            s.ts_args.push(q("swiftGenericConstraints = \"T: Equatable\""));
        }
        _ => {}
    }
    File::single(vec![s, u, e, a, n, m])
}

type Baseline = Result<Vec<String>, String>;
static BASELINES: Mutex<Option<HashMap<(Lang, usize), Baseline>>> = Mutex::new(None);

fn baseline(lang: Lang, decor: usize) -> Baseline {
    let mut g = BASELINES.lock().unwrap();
    let map = g.get_or_insert_with(HashMap::new);
    if let Some(b) = map.get(&(lang, decor)) {
        return b.clone();
    }
    let src = render_file(&program_with("none", vec![], decor));
    let o = pipeline::run(&[SrcFile::single(src)], lang, &Cfg::plain());
    let r = match o {
        Outcome::Ok(m) => {
            let text = m.values().next().cloned().unwrap_or_default();
            extract::code_tokens(lang, &text).map(|(code, _)| code).map_err(|e| e.msg())
        }
        other => Err(format!("baseline did not generate: {}", other.kind())),
    };
    map.insert((lang, decor), r.clone());
    r
}

pub fn check_case(c: &Case, choices: &[u32], acc: &mut Acc) {
    let Some(doc) = doc_for(c) else {
        acc.out_of_scope += 1;
        acc.count("inexpressible_in_rust_syntax", 1);
        return;
    };
    let plain = Doc::Line("plain companion line".into());
    let file = program_with(
        c.position,
        match c.companion {
            1 => vec![plain, doc],
            2 => vec![doc, plain],
            3 => vec![doc, Doc::Line(String::new())],
            4 => vec![Doc::Line(String::new()), doc],
            // the same plain line twice after it
            5 => vec![doc, plain.clone(), plain],
            _ => vec![doc],
        },
        c.decor,
    );
    let source = render_file(&file);
    if let Err(e) = syn_ok(&source) {
        acc.machinery(format!("renderer produced invalid Rust: {e}\n{source}"));
        return;
    }
    let base = match baseline(c.lang, c.decor) {
        Ok(b) => b,
        Err(e) => {
            acc.machinery(format!("baseline failed for {}: {e}", c.lang.name()));
            return;
        }
    };
    acc.runs += 1;
    let kinds: Vec<&str> = {
        let mut k: Vec<&str> = c.word.iter().map(|i| TOKEN_NAMES[*i]).collect();
        k.sort();
        k.dedup();
        k
    };
    let special: Vec<&str> = kinds.iter().copied().filter(|k| *k != "word").collect();
    let shape = format!("pos={}|syntax={}|tokens={}{}", c.position, c.syntax, if special.is_empty() { "plain".to_string() } else { special.join(",") }, if c.decor == 0 { String::new() } else { format!("|items={}", DECORS[c.decor]) });
    let o = pipeline::run(&[SrcFile::single(source.clone())], c.lang, &Cfg::plain());
    let text = match &o {
        Outcome::Ok(m) => m.values().next().cloned().unwrap_or_default(),
        other => {
            acc.vios.add(Violation {
                sig: format!("C15|{}|no-output:{}|{shape}", c.lang.name(), other.kind()),
                detail: json!({"choices": choices, "lang": c.lang.name(), "source": source, "failure": format!("{other:?}").chars().take(300).collect::<String>()}),
            });
            return;
        }
    };
    acc.inputs.insert(report::fnv64(&source));
    acc.judgements += 1;
    if !special.is_empty() {
        acc.nontrivial.insert(report::fnv64(&format!("{source}|{}", c.lang.name())));
    }
    let detail = |extra: serde_json::Value| {
        let mut d = json!({"choices": choices, "lang": c.lang.name(), "position": c.position, "syntax": c.syntax, "doc_payload": payload(c), "source": source, "output": text});
        d["observation"] = extra;
        d
    };
    match extract::code_tokens(c.lang, &text) {
        Err(e) => {
            acc.outcomes.insert(report::fnv64(&format!("{}|lex", c.lang.name())));
            acc.vios.add(Violation { sig: format!("C15|{}|comment-or-string-left-open|{shape}", c.lang.name()), detail: detail(json!(e.msg())) });
        }
        Ok((code, comments)) => {
            let mut okk = true;
            if code != base {
                okk = false;
                // first differing token, for the report
                let i = code.iter().zip(base.iter()).position(|(a, b)| a != b).unwrap_or(code.len().min(base.len()));
                acc.vios.add(Violation {
                    sig: format!("C15|{}|doc-text-became-code|{shape}", c.lang.name()),
                    detail: detail(json!({"first_difference_at_token": i, "with_docs": code.get(i), "without_docs": base.get(i), "code_tokens_with_docs": code.len(), "code_tokens_without_docs": base.len()})),
                });
            }
            let has_b = comments.iter().any(|c| c.contains("DOCB7"));
            let has_e = comments.iter().any(|c| c.contains("DOCE7"));
            if !(has_b && has_e) {
                let anywhere = text.contains("DOCB7") || text.contains("DOCE7");
                if anywhere || code == base {
                    okk = false;
                    acc.vios.add(Violation {
                        sig: format!("C15|{}|{}|{shape}", c.lang.name(), if anywhere { "sentinel-outside-comment" } else { "doc-not-reproduced" }),
                        detail: detail(json!({"DOCB_in_comment": has_b, "DOCE_in_comment": has_e})),
                    });
                }
            }
            // backends that write docs as line comments have nothing to escape: every line of the doc is there verbatim
            if matches!(c.lang, Lang::Scala | Lang::Swift | Lang::Go | Lang::Kotlin) && code == base {
                let all: String = comments.join("\n");
                // an empty doc line written before / after the doc is an empty comment line at that place
                if matches!(c.companion, 3 | 4) {
                    let strip = |l: &str| l.trim().trim_start_matches(|ch: char| ch == '/' || ch == '*' || ch == '!').trim().to_string();
                    let lines: Vec<String> = comments.iter().flat_map(|cm| cm.split('\n').map(strip).collect::<Vec<_>>()).collect();
                    let found = if c.companion == 3 {
                        lines.iter().position(|l| l.contains("DOCE7")).map(|i| lines.get(i + 1).map(|n| n.is_empty()).unwrap_or(false))
                    } else {
                        lines.iter().position(|l| l.contains("DOCB7")).map(|i| i > 0 && lines[i - 1].is_empty())
                    };
                    if found == Some(false) {
                        okk = false;
                        acc.vios.add(Violation {
                            sig: format!("C15|{}|doc-line-not-reproduced-verbatim|{shape}|empty-doc-line-{}", c.lang.name(), if c.companion == 3 { "after" } else { "before" }),
                            detail: detail(json!({"doc_line": "(an empty doc line)", "comment_lines": lines})),
                        });
                    }
                }
                // (the companion line as often as it was written)
                let companion_lines = match c.companion { 1 | 2 => 1, 5 => 2, _ => 0 };
                if all.matches("plain companion line").count() != companion_lines {
                    okk = false;
                    acc.vios.add(Violation {
                        sig: format!("C15|{}|doc-line-not-reproduced-verbatim|{shape}|companion-lines", c.lang.name()),
                        detail: detail(json!({"doc_line": "plain companion line", "written": companion_lines, "found": all.matches("plain companion line").count(), "comments": comments})),
                    });
                }
                for line in payload(c).split('\n').map(|l| l.trim()).filter(|l| !l.is_empty()) {
                    if !all.contains(line) {
                        okk = false;
                        acc.vios.add(Violation {
                            sig: format!("C15|{}|doc-line-not-reproduced-verbatim|{shape}", c.lang.name()),
                            detail: detail(json!({"doc_line": line, "comments": comments})),
                        });
                        break;
                    }
                }
            }
            acc.outcomes.insert(report::fnv64(&format!("{}|{okk}", c.lang.name())));
        }
    }
    if acc.samples.len() < 2 && c.word.len() >= 2 && !special.is_empty() {
        acc.sample(json!({"lang": c.lang.name(), "position": c.position, "syntax": c.syntax, "doc_payload": payload(c)}));
    }
}

fn controls(rep: &mut Report) {
    // text that escaped a comment must change the code token stream
    let good = "/// DOCB7 a DOCE7\n@Serializable\nobject X\n";
    let bad = "/// DOCB7 a\nb DOCE7\n@Serializable\nobject X\n";
    let g = extract::code_tokens(Lang::Kotlin, good);
    let b = extract::code_tokens(Lang::Kotlin, bad);
    match (g, b) {
        (Ok((gc, gm)), Ok((bc, _))) => {
            if gc == bc || !gm.iter().any(|c| c.contains("DOCE7")) {
                rep.machinery("control: escaped doc text not visible in the code token stream");
            }
        }
        _ => rep.machinery("control: canned Kotlin did not tokenize"),
    }
    // a docstring closed early either leaves code tokens behind or an unterminated string: both are visible
    let early = extract::code_tokens(Lang::Python, "class A:\n    \"\"\"\n    doc \"\"\" x\n    \"\"\"\n    pass\n");
    let visible = match early {
        Ok((c, _)) => c.iter().any(|t| t == "x"),
        Err(_) => true,
    };
    if !visible {
        rep.machinery("control: python docstring terminated early is not visible to the tokenizer");
    }
}

pub fn run(args: &[String]) -> i32 {
    let tier = report::tier_from_env(args);
    let mut rep = Report::new("C15", &tier);
    controls(&mut rep);
    let max_len = if rep.thorough() { 4 } else { 3 };
    let (accs, stats) = explore(
        |ch| {
            gen(ch, max_len);
        },
        |ch, acc: &mut Acc| {
            let c = gen(ch, max_len);
            check_case(&c, &ch.choices(), acc);
        },
        Mode::Product,
        3,
        report::threads(),
        u64::MAX,
    );
    merge(&mut rep, "doc_words", accs, &stats, json!({"alphabet": TOKEN_NAMES, "max_word_length": max_len, "separators": ["none", "space"], "companion_doc": ["none", "one-line /// before", "one-line /// after", "empty /// line after", "empty /// line before", "the same one-line /// twice after"], "rust_syntaxes": SYNTAXES, "positions": POSITIONS, "item_decorators": DECORS, "item_decorators_for_words_up_to": if max_len >= 4 { 2 } else { 1 }, "languages": 6}));
    require_nonvacuous(&mut rep);
    rep.cov("rule", json!("every word up to the stated length over the doc-token alphabet, joined with or without spaces, wrapped in sentinels DOCB7/DOCE7, written in each Rust doc syntax that can express it, attached to each documentable position, for each language; oracle: the code token stream (comments and docstrings removed) of the output equals that of the same program without docs, tokenizing never ends inside an open comment/string, and both sentinels occur inside comment tokens. non-trivial = the word contains a token other than plain text."));
    rep.assume("the per-language tokenizers of mc/src/extract/lex.rs decide what is a comment / docstring");
    rep.finish()
}
