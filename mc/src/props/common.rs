//! Shared accumulator / merge logic for the E1-based property checks.
use crate::explore::ExploreStats;
use crate::report::{Report, VioSet};
use serde_json::{json, Value};
use std::collections::HashSet;

#[derive(Default)]
pub struct Acc {
    pub vios: VioSet,
    /// oracle judgements made
    pub judgements: u64,
    /// pipeline executions on the real code
    pub runs: u64,
    pub inputs: HashSet<u64>,
    pub nontrivial: HashSet<u64>,
    pub outcomes: HashSet<u64>,
    pub out_of_scope: u64,
    pub samples: Vec<Value>,
    pub machinery: Vec<String>,
    pub counters: std::collections::BTreeMap<String, u64>,
}

impl Acc {
    pub fn count(&mut self, k: &str, n: u64) {
        *self.counters.entry(k.to_string()).or_insert(0) += n;
    }
    pub fn sample(&mut self, v: Value) {
        if self.samples.len() < 4 {
            self.samples.push(v);
        }
    }
    pub fn machinery(&mut self, s: String) {
        if self.machinery.len() < 5 {
            self.machinery.push(s);
        }
    }
}

pub fn merge(rep: &mut Report, section: &str, accs: Vec<Acc>, stats: &ExploreStats, bounds: Value) {
    let mut inputs: HashSet<u64> = HashSet::new();
    let mut nontrivial: HashSet<u64> = HashSet::new();
    let mut outcomes: HashSet<u64> = HashSet::new();
    let (mut judgements, mut runs, mut oos) = (0u64, 0u64, 0u64);
    let mut counters: std::collections::BTreeMap<String, u64> = Default::default();
    let mut n_samples = 0;
    for a in accs {
        rep.vios.merge(a.vios);
        judgements += a.judgements;
        runs += a.runs;
        oos += a.out_of_scope;
        inputs.extend(a.inputs);
        nontrivial.extend(a.nontrivial);
        outcomes.extend(a.outcomes);
        for (k, v) in a.counters {
            *counters.entry(k).or_insert(0) += v;
        }
        for s in a.samples {
            if n_samples < 3 {
                rep.sample(s);
                n_samples += 1;
            }
        }
        for m in a.machinery {
            rep.machinery(m);
        }
    }
    for d in &stats.divergences {
        rep.machinery(format!("explorer divergence: {d}"));
    }
    rep.cov(
        section,
        json!({"executions": stats.executions, "choice_points": stats.choice_points, "max_depth": stats.max_depth, "pipeline_runs": runs, "judgements": judgements,
               "distinct_inputs": inputs.len(), "distinct_nontrivial": nontrivial.len(), "distinct_outcomes": outcomes.len(), "out_of_scope_skipped": oos,
               "exhaustive": !stats.cap_hit, "cap_hit": stats.cap_hit, "bounds": bounds, "counters": counters}),
    );
    rep.cov_add("evaluations", judgements);
    rep.cov_add("states", inputs.len() as u64);
    rep.cov_add("transitions", stats.choice_points);
    rep.cov_add("traces_validated_against_impl", runs);
    rep.cov_add("distinct_nontrivial", nontrivial.len() as u64);
    rep.cov_add("distinct_outcomes", outcomes.len() as u64);
    rep.cov_add("out_of_scope_skipped", oos);
    if stats.cap_hit {
        rep.cov("exhaustive", json!(false));
    } else if !rep.coverage.contains_key("exhaustive") {
        rep.cov("exhaustive", json!(true));
    }
}

/// vacuity guard: a sweep in which nothing non-trivial happened proves nothing
pub fn require_nonvacuous(rep: &mut Report) {
    let nt = rep.coverage.get("distinct_nontrivial").and_then(|v| v.as_u64()).unwrap_or(0);
    let oc = rep.coverage.get("distinct_outcomes").and_then(|v| v.as_u64()).unwrap_or(0);
    if nt < 2 || oc < 2 {
        rep.machinery(format!("vacuous run: distinct_nontrivial={nt} distinct_outcomes={oc}"));
    }
}


/// The "ambient" family of an E1 check: every case with at most `k` deviations from the all-default case, where one of
/// the dimensions is an ambient variation of the program (noise attributes, modules, item order, noise items,
/// attribute style) that the property's verdict must not depend on.
pub fn ambient_family<G, C>(rep: &mut Report, name: &str, k: usize, gen_only: G, check: C)
where
    G: Fn(&mut crate::explore::Chooser) + Sync,
    C: Fn(&mut crate::explore::Chooser, &mut Acc) + Sync,
{
    use crate::explore::{explore, Mode};
    let n = crate::prog::AMBIENTS.len();
    let (accs, stats) = explore(
        |ch| {
            ch.choose("ambient", n);
            gen_only(ch);
        },
        |ch, acc: &mut Acc| {
            let amb = ch.choose("ambient", n);
            crate::refmodel::with_ambient(amb, || check(ch, acc));
        },
        Mode::Deviations(k),
        2,
        crate::report::threads(),
        u64::MAX,
    );
    merge(rep, name, accs, &stats, serde_json::json!({"ambient_variations": crate::prog::AMBIENTS, "max_deviations_from_the_default_case": k, "note": "the ambient variation counts as one deviation"}));
}
