//! C17 — re-running is idempotent and the output depends only on the latest inputs.
//! E2: explicit-state breadth-first search to closure; every transition runs the real binary.
use crate::cli::{self, old_time, par_map, run_cli, s, set_mtime, Scratch};
use crate::pipeline::{Lang, ALL_LANGS};
use crate::report::{self, Report, Violation};
use serde_json::json;
use std::collections::{BTreeMap, BTreeSet, VecDeque};

type State = BTreeMap<String, Vec<u8>>;

/// source-tree versions: (name, files)
fn versions(lang: Lang) -> Vec<(&'static str, Vec<(&'static str, String)>)> {
    let a = "#[typeshare]\npub struct Alpha { pub id: u32, pub name: String }\n";
    let b = "#[typeshare]\n#[serde(tag = \"type\", content = \"content\")]\npub enum Beta { One(Alpha), Two { x: u32 }, Three }\n";
    let b_renamed = "#[typeshare]\n#[serde(rename = \"BetaRenamed\", tag = \"type\", content = \"content\")]\npub enum Beta { One(Alpha), Two { x: u32, y: Option<String> }, Three }\n";
    // (an alias of an alias of a struct as a payload: what a backend works out about such a chain must come out the same in
    // every process)
    let c = "#[typeshare]\npub type Gamma = Vec<Alpha>;\n#[typeshare]\npub type Origin = Position;\n#[typeshare]\npub type Position = Alpha;\n#[typeshare]\n#[serde(tag = \"type\", content = \"content\")]\npub enum Moves { Jump(Origin), Walk(Position), Stay }\n";
    let unit_user = "#[typeshare]\npub struct UsesUnit { pub nothing: (), pub list: Vec<()> }\n";
    let no_unit = "#[typeshare]\npub struct UsesUnit { pub nothing: u32, pub list: Vec<u8> }\n";
    let _ = lang;
    // outputs well beyond common buffer sizes (8 KiB, 64 KiB): 700 structs
    let large: String = (0..700).map(|i| format!("#[typeshare]\npub struct Big{i:03} {{ pub first_field_of_the_struct: u32, pub second_field_of_the_struct: Option<String>, pub third: Vec<Big000> }}\n")).collect();
    // the same length in every language, and far beyond the first 8 KiB / 64 KiB of the output: one member renamed
    let large_changed = large.replace("pub struct Big699 { pub first_field_of_the_struct: u32", "pub struct Big699 { pub first_field_of_the_strucx: u32");
    debug_assert_ne!(large, large_changed);
    // order matters: the quick tier takes the first nine (the graphs run with a configuration file: the first six)
    vec![
        ("V0-base", vec![("ws/x/src/lib.rs", format!("{a}\n{b}"))]),
        ("V1-type-added", vec![("ws/x/src/lib.rs", format!("{a}\n{b}\n{c}"))]),
        ("V3-moved-to-other-crate", vec![("ws/x/src/lib.rs", a.to_string()), ("ws/y/src/lib.rs", format!("use x::Alpha;\n{b}"))]),
        // only the alphabetically later crate differs from V3 (the earlier crate's file is already up to date)
        ("V7-later-crate-changed", vec![("ws/x/src/lib.rs", a.to_string()), ("ws/y/src/lib.rs", format!("use x::Alpha;\n{b_renamed}\n{unit_user}"))]),
        ("V4-uses-unit", vec![("ws/x/src/lib.rs", format!("{a}\n{unit_user}"))]),
        // the sources of V4 under another configuration (only the graphs run with a configuration file see the difference):
        // other list-valued settings for the same helper
        ("V11-uses-unit-other-configuration", vec![("ws/x/src/lib.rs", format!("{a}\n{unit_user}")), ("cfg/typeshare.toml", "[swift]\ndefault_decorators = [\"Hashable\"]\ncodablevoid_constraints = [\"Equatable\"]\n\n[go]\nuppercase_acronyms = [\"ID\"]\n".to_string())]),
        // six source files that belong to two crates (symbolic links in the second crate's src): every transition is a fresh
        // race between the walker threads, and whoever reaches a file first must not decide which output gets its types
        ("V12-files-shared-by-two-crates", {
            let mut v: Vec<(&'static str, String)> = vec![("ws/x/src/lib.rs", a.to_string()), ("ws/y/src/lib.rs", format!("use x::Alpha;\n{b}"))];
            const SHARED: [(&str, &str); 6] = [("ws/x/src/s0.rs", "ws/y/src/l0.rs"), ("ws/x/src/s1.rs", "ws/y/src/l1.rs"), ("ws/x/src/s2.rs", "ws/y/src/l2.rs"), ("ws/x/src/s3.rs", "ws/y/src/l3.rs"), ("ws/x/src/s4.rs", "ws/y/src/l4.rs"), ("ws/x/src/s5.rs", "ws/y/src/l5.rs")];
            for (i, (real, link)) in SHARED.iter().enumerate() {
                v.push((real, format!("#[typeshare]\npub struct Shared{i} {{ pub v{i}: u32 }}\n")));
                v.push((link, format!("->{real}")));
            }
            v
        }),
        ("V9-large-output", vec![("ws/x/src/lib.rs", format!("{a}\n{large}"))]),
        // differs from V9 only near the end of a large output, by bytes only: every file has the same length as before
        ("V10-large-output-tail-changed-same-length", vec![("ws/x/src/lib.rs", format!("{a}\n{large_changed}"))]),
        // one crate, four files, each with an item whose serde name sorts on the other side of its neighbours than its Rust
        // name: every run is a fresh arrival order of the four files
        ("V13-renamed-items-in-several-files", vec![
            ("ws/x/src/lib.rs", "#[typeshare]\n#[serde(rename = \"Zulu\")]\npub struct Alpha { pub id: u32, pub name: String }\n".to_string()),
            ("ws/x/src/m.rs", "#[typeshare]\npub struct Mike { pub m: u32 }\n".to_string()),
            ("ws/x/src/y.rs", "#[typeshare]\n#[serde(rename = \"Bravo\")]\npub struct Yankee { pub y: u32 }\n".to_string()),
            ("ws/x/src/c.rs", "#[typeshare]\n#[serde(rename = \"November\", tag = \"type\", content = \"content\")]\npub enum Charlie { One(u32), Two }\n".to_string()),
        ]),
        ("V2-renamed-and-changed", vec![("ws/x/src/lib.rs", format!("{a}\n{b_renamed}"))]),
        ("V5-unit-removed", vec![("ws/x/src/lib.rs", format!("{a}\n{no_unit}"))]),
        // only the earlier crate differs from V3
        ("V8-earlier-crate-changed", vec![("ws/x/src/lib.rs", format!("{a}\n{c}")), ("ws/y/src/lib.rs", format!("use x::Alpha;\n{b}"))]),
        ("V6-nothing-annotated", vec![("ws/x/src/lib.rs", "pub struct Plain { pub a: u32 }\n".to_string())]),
    ]
}

struct StepResult {
    class: &'static str,
    code: Option<i32>,
    after: State,
    /// files whose mtime differs from the fixed past instant after the run
    touched: BTreeSet<String>,
    stderr: String,
    argv: Vec<String>,
}

fn out_rel(lang: Lang, multi: bool) -> String {
    if multi {
        "out".into()
    } else {
        format!("out/types.{}", lang.ext())
    }
}

/// `loc`: "plain" — the output path is an ordinary file / directory; "configured" — the same, run with a typeshare.toml
/// whose multi-valued settings each have several entries; "through-symlink" — the output file (single-file mode,
/// when it exists) or the output directory (multi-file mode) is a symbolic link to the real one
fn step(lang: Lang, multi: bool, loc: &str, version: &[(&'static str, String)], before: &State) -> StepResult {
    let sc = Scratch::new("c17");
    for (p, src) in version {
        // `-><path>`: a symbolic link to that file of the same tree
        if let Some(target) = src.strip_prefix("->") {
            if let Some(dir) = std::path::Path::new(p).parent() {
                sc.mkdir(&dir.to_string_lossy());
            }
            let _ = std::os::unix::fs::symlink(sc.path(target), sc.path(p));
        } else {
            sc.write(p, src.as_bytes());
        }
    }
    // as after a real run, the previous output is newer than every source file and directory (a make-style "up to date"
    // shortcut would see exactly that)
    {
        fn age(p: &std::path::Path, t: std::time::SystemTime) {
            if let Ok(rd) = std::fs::read_dir(p) {
                for e in rd.flatten() {
                    let q = e.path();
                    if q.is_dir() && !q.is_symlink() {
                        age(&q, t);
                    }
                    if let Ok(f) = std::fs::File::open(&q) {
                        let _ = f.set_modified(t);
                    }
                }
            }
            if let Ok(f) = std::fs::File::open(p) {
                let _ = f.set_modified(t);
            }
        }
        age(&sc.path("ws"), old_time() - std::time::Duration::from_secs(86_400));
    }
    let linked = loc == "through-symlink";
    if linked && multi {
        sc.mkdir("real_out");
        let _ = std::os::unix::fs::symlink(sc.path("real_out"), sc.path("out"));
    } else {
        sc.mkdir("out");
    }
    let single_name = format!("types.{}", lang.ext());
    for (rel, bytes) in before {
        if linked && !multi && *rel == single_name {
            let p = sc.write(&format!("real/{rel}"), bytes);
            set_mtime(&p, old_time());
            let _ = std::os::unix::fs::symlink(&p, sc.path(&format!("out/{rel}")));
            continue;
        }
        let p = sc.write(&format!("out/{rel}"), bytes);
        set_mtime(&p, old_time());
    }
    let mut args = cli::lang_args(lang);
    if loc == "configured" {
        // every multi-valued setting with several entries: their order in the output is part of the bytes
        let toml = "[swift]\ndefault_decorators = [\"Sendable\", \"Identifiable\"]\ndefault_generic_constraints = [\"Sendable\", \"Hashable\", \"Equatable\"]\ncodablevoid_constraints = [\"Equatable\", \"Hashable\", \"Comparable\", \"Sendable\"]\n\n[go]\nuppercase_acronyms = [\"ID\", \"URL\", \"API\"]\n\n[typescript.type_mappings]\nBlob = \"Uint8Array\"\nStamp = \"Date\"\n\n[kotlin.type_mappings]\nBlob = \"ByteArray\"\nStamp = \"String\"\n";
        // (a version may bring its own configuration file)
        let p = sc.path("cfg/typeshare.toml");
        if !p.exists() {
            sc.write("cfg/typeshare.toml", toml.as_bytes());
        }
        args.extend([s("-c"), p.to_string_lossy().into_owned()]);
    }
    args.extend([s(if multi { "-d" } else { "-o" }), sc.path(&out_rel(lang, multi)).to_string_lossy().into_owned()]);
    args.push(sc.path("ws").to_string_lossy().into_owned());
    let r = run_cli(&args, &sc.root, &[], cli::TIMEOUT);
    let after = cli::snapshot(&sc.path("out"));
    let mut touched = BTreeSet::new();
    for rel in after.keys() {
        if cli::mtime(&sc.path(&format!("out/{rel}"))) != Some(old_time()) {
            touched.insert(rel.clone());
        }
    }
    StepResult { class: r.class(), code: r.code, after, touched, stderr: r.stderr.chars().take(1000).collect(), argv: args }
}

fn show(st: &State) -> serde_json::Value {
    json!(st.iter().map(|(k, v)| (k.clone(), String::from_utf8_lossy(v).chars().take(400).collect::<String>())).collect::<BTreeMap<_, _>>())
}

struct GraphResult {
    states: usize,
    transitions: usize,
    closed: bool,
    max_depth: usize,
    vios: Vec<Violation>,
    machinery: Vec<String>,
    sample: Option<serde_json::Value>,
}

fn explore_graph(lang: Lang, multi: bool, loc: &'static str, nversions: usize, cap: usize) -> GraphResult {
    let vs: Vec<_> = versions(lang).into_iter().take(nversions).collect();
    let mode: String = format!("{}{}", if multi { "multi" } else { "single" }, if loc == "plain" { String::new() } else { format!("|output={loc}") });
    let mode = mode.as_str();
    let mut res = GraphResult { states: 0, transitions: 0, closed: false, max_depth: 0, vios: vec![], machinery: vec![], sample: None };
    // fresh-run references
    let empty: State = BTreeMap::new();
    let fresh: Vec<StepResult> = vs.iter().map(|(_, files)| step(lang, multi, loc, files, &empty)).collect();
    for (i, f) in fresh.iter().enumerate() {
        if matches!(f.class, "panic" | "hang" | "killed-by-signal") {
            res.vios.push(Violation { sig: format!("C17|{}|{mode}|fresh-run-{}|version={}", lang.name(), f.class, vs[i].0), detail: json!({"argv": f.argv, "stderr": f.stderr}) });
        }
    }
    // initial states: empty, and a location pre-filled with foreign bytes under the names a run will use
    let mut foreign: State = BTreeMap::new();
    for f in &fresh {
        for k in f.after.keys() {
            foreign.insert(k.clone(), b"FOREIGN BYTES that typeshare did not write\n".to_vec());
        }
    }
    foreign.insert("unrelated.txt".into(), b"keep me\n".to_vec());
    let mut seen: BTreeMap<State, usize> = BTreeMap::new();
    let mut queue: VecDeque<(State, usize, Vec<String>)> = VecDeque::new();
    // further initial states: a complete earlier output from which one generated file has gone missing
    let mut initial = vec![empty.clone(), foreign];
    for f in &fresh {
        if f.class == "ok" && f.after.len() >= 2 {
            for gone in f.after.keys() {
                let mut st = f.after.clone();
                st.remove(gone);
                initial.push(st);
            }
        }
    }
    for st in initial {
        if !seen.contains_key(&st) {
            seen.insert(st.clone(), 0);
            queue.push_back((st, 0, vec![]));
        }
    }
    while let Some((st, depth, hist)) = queue.pop_front() {
        res.max_depth = res.max_depth.max(depth);
        for (vi, (vname, files)) in vs.iter().enumerate() {
            let r = step(lang, multi, loc, files, &st);
            res.transitions += 1;
            let mut h = hist.clone();
            h.push(vname.to_string());
            let detail = |what: &str| json!({"lang": lang.name(), "mode": mode, "history": h, "argv": r.argv, "state_before": show(&st), "state_after": show(&r.after), "fresh_output": show(&fresh[vi].after), "touched_files": r.touched, "exit_code": r.code, "stderr": r.stderr, "observation": what});
            // a run that does not end is reported once; the graph is not explored further (every later transition
            // would wait for the watchdog again)
            if r.class == "hang" && fresh[vi].class != "hang" {
                res.vios.push(Violation { sig: format!("C17|{}|{mode}|run-does-not-terminate-on-previous-output|version={vname}", lang.name()), detail: detail("the run onto this previous output did not end within the watchdog; a run into an empty location does") });
                res.states = seen.len();
                return res;
            }
            // I3: same exit status class as the fresh run
            if r.class != fresh[vi].class {
                res.vios.push(Violation { sig: format!("C17|{}|{mode}|exit-status-depends-on-previous-output|version={vname}|fresh={}|observed={}", lang.name(), fresh[vi].class, r.class), detail: detail("exit status differs from a run into an empty location") });
            }
            // I1: every file the fresh run produces has exactly the fresh content
            if r.class == "ok" {
                for (f, bytes) in &fresh[vi].after {
                    if r.after.get(f) != Some(bytes) {
                        let helper = f.contains("Codable");
                        res.vios.push(Violation {
                            sig: format!("C17|{}|{mode}|stale-or-wrong-content|file={}|version={vname}", lang.name(), if helper { "Codable.swift" } else { "module" }),
                            detail: detail(&format!("{f} differs from what a fresh run writes")),
                        });
                    }
                }
            }
            // I2: a file whose bytes did not change keeps its modification time
            for f in &r.touched {
                if st.get(f) == r.after.get(f) {
                    let helper = f.contains("Codable");
                    res.vios.push(Violation {
                        sig: format!("C17|{}|{mode}|unchanged-file-rewritten|file={}", lang.name(), if helper { "Codable.swift" } else { "module" }),
                        detail: detail(&format!("{f} has identical bytes before and after the run but a new modification time")),
                    });
                }
            }
            // a failing run must not modify anything
            if r.class == "error" && (r.after != st || !r.touched.is_empty()) {
                res.vios.push(Violation { sig: format!("C17|{}|{mode}|failed-run-modified-output|version={vname}", lang.name()), detail: detail("the run failed but the output location changed") });
            }
            if res.sample.is_none() && depth == 1 && r.class == "ok" {
                res.sample = Some(json!({"lang": lang.name(), "mode": mode, "history": h, "files_after": r.after.keys().collect::<Vec<_>>(), "touched": r.touched}));
            }
            if !seen.contains_key(&r.after) {
                if seen.len() >= cap {
                    res.machinery.push(format!("state cap {cap} reached for {} {mode}", lang.name()));
                    res.states = seen.len();
                    return res;
                }
                seen.insert(r.after.clone(), depth + 1);
                queue.push_back((r.after, depth + 1, h));
            }
        }
    }
    res.states = seen.len();
    res.closed = true;
    res
}

pub fn run(args: &[String]) -> i32 {
    let tier = report::tier_from_env(args);
    let mut rep = Report::new("C17", &tier);
    if !cli::bin_available() {
        rep.machinery(format!("hooks-on CLI binary missing at {}", cli::BIN));
        return rep.finish();
    }
    // control: the mtime probe must see a rewrite
    {
        let sc = Scratch::new("c17ctl");
        let p = sc.write("f.txt", b"x");
        set_mtime(&p, old_time());
        if cli::mtime(&p) != Some(old_time()) {
            rep.machinery("control: cannot set / read back modification times");
        }
        std::fs::write(&p, b"x").unwrap();
        if cli::mtime(&p) == Some(old_time()) {
            rep.machinery("control: rewriting a file did not change its modification time");
        }
    }
    let thorough = rep.thorough();
    const P: &str = "plain";
    const L: &str = "through-symlink";
    const G: &str = "configured";
    let graphs: Vec<(Lang, bool, &'static str, usize)> = if thorough {
        ALL_LANGS.iter().flat_map(|l| [(*l, false, P, 14), (*l, true, P, 14), (*l, false, L, 9), (*l, true, L, 9), (*l, false, G, 9), (*l, true, G, 9)]).collect()
    } else {
        vec![(Lang::Swift, true, P, 9), (Lang::Swift, false, P, 9), (Lang::TypeScript, true, P, 9), (Lang::TypeScript, false, P, 9), (Lang::Kotlin, true, P, 9), (Lang::Swift, false, L, 4), (Lang::Go, false, L, 4), (Lang::Swift, true, L, 4), (Lang::Swift, true, G, 6), (Lang::Swift, false, G, 6), (Lang::Go, false, G, 6)]
    };
    let results = par_map(&graphs, report::threads(), |(l, m, loc, n)| explore_graph(*l, *m, loc, *n, 400));
    let mut states = 0;
    let mut transitions = 0;
    let mut per_graph = Vec::new();
    for ((l, m, loc, n), r) in graphs.iter().zip(results) {
        states += r.states;
        transitions += r.transitions;
        per_graph.push(json!({"lang": l.name(), "mode": if *m { "multi" } else { "single" }, "output_location": loc, "versions": n, "states": r.states, "transitions": r.transitions, "closed": r.closed, "max_depth": r.max_depth}));
        for v in r.vios {
            rep.vios.add(v);
        }
        for m in r.machinery {
            rep.machinery(m);
        }
        if let Some(s) = r.sample {
            rep.sample(s);
        }
    }
    rep.cov("states", json!(states));
    rep.cov("transitions", json!(transitions));
    rep.cov("traces_validated_against_impl", json!(transitions));
    rep.cov("evaluations", json!(transitions));
    rep.cov("distinct_nontrivial", json!(states));
    rep.cov("graphs", json!(per_graph));
    rep.cov("exhaustive", json!(true));
    rep.cov("rule", json!("per (language, mode, output location: plain, plain with a configuration file whose list-valued settings have several entries, or reached through a symbolic link): breadth-first search over the states of the output location (file name → bytes), starting from the empty location, from one pre-filled with foreign bytes, and from every complete earlier output with one generated file missing; the actions are `run the real binary on source-tree version v`; explored to closure, which covers run histories of every length over the version alphabet. On every transition: same exit status as a fresh run, every file of the fresh run has the fresh content, a file with unchanged bytes keeps its mtime, a failing run changes nothing."));
    rep.assume("the binary reads nothing from the output location except the files it compares against, so equal bytes mean equal futures (mtimes are normalised before each step and checked on each transition)");
    rep.assume("stale files of crates that disappeared are not judged (the property does not ask for deletion)");
    rep.finish()
}
