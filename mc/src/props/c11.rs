//! C11 — definitions are emitted exactly once each and after the definitions they use.
use super::common::{merge, require_nonvacuous, Acc};
use crate::explore::{explore, Chooser, Mode};
use crate::extract::OutFile;
use crate::pipeline::{Cfg, Lang};
use crate::prog::*;
use crate::refmodel::{self, RunFail};
use crate::report::{self, Report, Violation};
use serde_json::json;

/// Python outputs of acyclic graphs, judged by importing them with CPython at the end: (module text, replay detail, signature tail)
static PY_MODULES: std::sync::Mutex<Vec<(String, serde_json::Value, String)>> = std::sync::Mutex::new(Vec::new());

thread_local! {
    /// how the graph is run: 0 = one file, single-file mode; 1 = multi-file mode (the CLI's call sequence: the per-crate
    /// type-name sets are taken out of the parsed data before generation); 2 = single-file mode with a further pair of
    /// items sharing a name (`Zz` and `v2::Zz`) next to the graph
    static GRAPH_MODE: std::cell::Cell<u8> = const { std::cell::Cell::new(0) };
}
const GRAPH_MODES: [&str; 4] = ["single-file", "multi-file", "single-file-with-a-pair-of-items-sharing-a-name", "single-file-next-to-generic-items-whose-parameters-are-named-like-the-nodes"];

const LANGS: [Lang; 5] = [Lang::TypeScript, Lang::Kotlin, Lang::Swift, Lang::Go, Lang::Python];
const CARRIERS: [&str; 11] = ["direct", "vec", "option", "map-value", "map-key", "array", "slice", "generic-arg", "box", "option-vec", "generic-arg-nested"];
const NODE_KINDS: [&str; 7] = ["struct", "enum-newtype", "enum-struct-variant", "alias", "const", "enum-unit-variant-first", "enum-mixed-unit-between"];

fn carry(c: &str, t: Ty) -> Ty {
    match c {
        "direct" => t,
        "vec" => Ty::Vec(Box::new(t)),
        "option" => Ty::Option(Box::new(t)),
        "map-value" => Ty::Map(Box::new(Ty::Prim("String")), Box::new(t)),
        "map-key" => Ty::Map(Box::new(t), Box::new(Ty::Prim("u32"))),
        "array" => Ty::Array(Box::new(t), 2),
        "slice" => Ty::Slice(Box::new(t)),
        "generic-arg" => Ty::Generic("Holder".into(), vec![t]),
        "box" => Ty::Ptr("Box", Box::new(t)),
        "generic-arg-nested" => Ty::Generic("Holder".into(), vec![Ty::Vec(Box::new(t))]),
        _ => Ty::Option(Box::new(Ty::Vec(Box::new(t)))),
    }
}

#[derive(Clone, Debug)]
pub struct Graph {
    pub n: usize,
    /// adjacency: edges[u] = targets of u
    pub edges: Vec<Vec<usize>>,
    /// names[i] is the Rust name of node i (controls the order typeshare sorts them in)
    pub names: Vec<String>,
    pub kinds: Vec<&'static str>,
    pub carrier: &'static str,
    pub renamed: Option<usize>,
}

impl Graph {
    pub fn acyclic(&self) -> bool {
        // Kahn
        let mut indeg = vec![0; self.n];
        for u in 0..self.n {
            for &v in &self.edges[u] {
                indeg[v] += 1;
            }
        }
        let mut q: Vec<usize> = (0..self.n).filter(|&i| indeg[i] == 0).collect();
        let mut seen = 0;
        while let Some(u) = q.pop() {
            seen += 1;
            for &v in &self.edges[u] {
                indeg[v] -= 1;
                if indeg[v] == 0 {
                    q.push(v);
                }
            }
        }
        seen == self.n
    }
    pub fn n_edges(&self) -> usize {
        self.edges.iter().map(|e| e.len()).sum()
    }
}

pub fn program(g: &Graph) -> File {
    let mut items = Vec::new();
    let uses_holder = g.carrier.starts_with("generic-arg");
    for u in 0..g.n {
        let refs: Vec<Ty> = g.edges[u].iter().map(|&v| carry(g.carrier, Ty::user(&g.names[v]))).collect();
        let name = &g.names[u];
        let mut it = match g.kinds[u] {
            "struct" => {
                let mut fs = vec![Field::new("own", Ty::Prim("u32"))];
                for (i, t) in refs.iter().enumerate() {
                    fs.push(Field::new(&format!("r{i}"), t.clone()));
                }
                Item::strukt(name, fs)
            }
            "enum-newtype" => {
                let mut vs = vec![Variant::new("Own", VKind::Newtype(Ty::Prim("u32")))];
                for (i, t) in refs.iter().enumerate() {
                    vs.push(Variant::new(&format!("R{i}"), VKind::Newtype(t.clone())));
                }
                Item::enumm(name, vs)
            }
            "enum-struct-variant" => {
                let mut fs = vec![Field::new("own", Ty::Prim("u32"))];
                for (i, t) in refs.iter().enumerate() {
                    fs.push(Field::new(&format!("r{i}"), t.clone()));
                }
                Item::enumm(name, vec![Variant::new("Sv", VKind::Struct(fs)), Variant::new("U", VKind::Unit)])
            }
            "enum-unit-variant-first" => {
                // a unit variant listed before the variants that hold the references
                let mut vs = vec![Variant::new("Nothing", VKind::Unit)];
                for (i, t) in refs.iter().enumerate() {
                    vs.push(Variant::new(&format!("R{i}"), VKind::Newtype(t.clone())));
                }
                vs.push(Variant::new("Own", VKind::Newtype(Ty::Prim("u32"))));
                Item::enumm(name, vs)
            }
            "enum-mixed-unit-between" => {
                let mut vs = vec![Variant::new("Own", VKind::Newtype(Ty::Prim("u32"))), Variant::new("Gap", VKind::Unit)];
                for (i, t) in refs.iter().enumerate() {
                    vs.push(Variant::new(&format!("S{i}"), VKind::Struct(vec![Field::new("r", t.clone())])));
                    vs.push(Variant::new(&format!("G{i}"), VKind::Unit));
                }
                Item::enumm(name, vs)
            }
            "alias" => Item::new(name, IKind::Alias(refs.first().cloned().unwrap_or(Ty::Prim("String")))),
            _ => Item::new(name, IKind::Const { ty: g.edges[u].first().map(|&v| Ty::user(&g.names[v])).unwrap_or(Ty::Prim("u32")), expr: "1".into() }),
        };
        if g.renamed == Some(u) {
            it.rename = Some(format!("{name}Renamed"));
        }
        items.push(it);
    }
    if uses_holder {
        let mut h = Item::strukt("Holder", vec![Field::new("h", Ty::Param("H".into()))]);
        h.generics = vec!["H".into()];
        items.push(h);
    }
    File::single(items)
}

/// positions of all definitions that belong to node `u` (its own definition and the helpers derived from it)
fn positions(out: &OutFile, g: &Graph, u: usize, lang: Lang) -> Vec<usize> {
    let base = if g.renamed == Some(u) { format!("{}Renamed", g.names[u]) } else { g.names[u].clone() };
    let const_name = |n: &str| -> String {
        if lang == Lang::Go {
            // PascalCase of the upper-case const name
            let mut s = String::new();
            let mut cap = true;
            for c in n.chars() {
                if c == '_' {
                    cap = true;
                } else if cap {
                    s.push(c.to_ascii_uppercase());
                    cap = false;
                } else {
                    s.push(c.to_ascii_lowercase());
                }
            }
            s
        } else {
            n.to_uppercase()
        }
    };
    out.defs
        .iter()
        .enumerate()
        .filter(|(_, d)| {
            let n = d.name();
            if g.kinds[u] == "const" {
                n == const_name(&g.names[u]) || n == g.names[u]
            } else {
                n == base || n == g.names[u] || (n.ends_with("Inner") && (n.starts_with(&base) || n.starts_with(&g.names[u])))
            }
        })
        .map(|(i, _)| i)
        .collect()
}

/// definitions one node contributes: itself plus one helper type per struct variant (TypeScript inlines those)
fn defs_of_node(g: &Graph, u: usize, lang: Lang) -> usize {
    let helpers = match g.kinds[u] {
        "enum-struct-variant" => 1,
        "enum-mixed-unit-between" => g.edges[u].len(),
        _ => 0,
    };
    1 + if lang == Lang::TypeScript { 0 } else { helpers }
}

pub fn check_graph(g: &Graph, lang: Lang, choices: &[u32], family: &str, acc: &mut Acc) {
    let mode = GRAPH_MODE.with(|m| m.get());
    let mut file = program(g);
    let mut cfg = Cfg::plain();
    if mode == 1 {
        cfg.multi_file = true;
    }
    if mode == 2 {
        file.items.push(Item::strukt("Zz", vec![Field::new("a", Ty::Prim("u32"))]));
        let mut twin = Item::strukt("Zz", vec![Field::new("b", Ty::Prim("u32"))]);
        twin.mods = vec!["v2".into()];
        file.items.push(twin);
    }
    if mode == 3 {
        // type parameters are scoped to their item: `struct Shelf0<N00> { .. }` says nothing about the item N00
        for (i, n) in g.names.iter().enumerate() {
            let mut b = Item::strukt(&format!("Zshelf{i}"), vec![Field::new("items", Ty::Vec(Box::new(Ty::Param(n.clone())))), Field::new("n", Ty::Prim("u32"))]);
            b.generics = vec![n.clone()];
            file.items.push(b);
        }
    }
    if g.kinds.iter().any(|k| *k == "const") && !matches!(lang, Lang::TypeScript | Lang::Go | Lang::Python) {
        acc.out_of_scope += 1;
        return;
    }
    acc.runs += 1;
    let res = if mode == 1 { refmodel::run_source_in_crate(&render_file(&file), "app", lang, &cfg) } else { refmodel::run_single(&file, lang, &cfg) };
    let kinds: String = {
        let mut k: Vec<&str> = g.kinds.to_vec();
        k.sort();
        k.dedup();
        k.join("+")
    };
    let ok = match res {
        Ok(ok) => ok,
        Err((fail, source)) => {
            if let RunFail::Render(e) = &fail {
                acc.machinery(format!("renderer produced invalid Rust: {e}\n{source}"));
                return;
            }
            // TS/Python refuse user types as map keys only when generic: not the case here; anything else is reported
            acc.vios.add(Violation {
                sig: format!("C11|{}|no-output:{}|carrier={}|kinds={kinds}", lang.name(), fail.class(), g.carrier),
                detail: json!({"choices": choices, "family": family, "lang": lang.name(), "source": source, "failure": fail.describe()}),
            });
            return;
        }
    };
    acc.inputs.insert(report::fnv64(&ok.source));
    let acyclic = g.acyclic();
    if g.n_edges() > 0 {
        acc.nontrivial.insert(report::fnv64(&format!("{}|{}", ok.source, lang.name())));
    }
    let base = json!({"choices": choices, "family": family, "lang": lang.name(), "run_as": GRAPH_MODES[mode as usize], "carrier": g.carrier, "edges": g.edges, "names": g.names, "kinds": g.kinds, "renamed_node": g.renamed,
        "acyclic": acyclic, "source": ok.source, "output": ok.text, "definition_order": ok.out.defs.iter().map(|d| d.name().to_string()).collect::<Vec<_>>()});
    // (a) permutation: every node defined exactly once (helpers: exactly once per struct variant)
    let mut pos: Vec<Vec<usize>> = Vec::new();
    for u in 0..g.n {
        acc.judgements += 1;
        let p = positions(&ok.out, g, u, lang);
        let want = defs_of_node(g, u, lang);
        if p.len() != want {
            let mut d = base.clone();
            d["node"] = json!(g.names[u]);
            d["definitions_found"] = json!(p.len());
            acc.vios.add(Violation {
                sig: format!("C11|{}|{}|kind={}|acyclic={}", lang.name(), if p.len() < want { "definition-lost" } else { "definition-duplicated" }, g.kinds[u], acyclic as u8),
                detail: d,
            });
        }
        pos.push(p);
    }
    let expected_defs: usize = (0..g.n).map(|u| defs_of_node(g, u, lang)).sum::<usize>() + if g.carrier.starts_with("generic-arg") { 1 } else { 0 } + if mode == 2 { 2 } else if mode == 3 { g.n } else { 0 };
    if ok.out.defs.len() != expected_defs {
        let mut d = base.clone();
        d["expected_definition_count"] = json!(expected_defs);
        acc.vios.add(Violation { sig: format!("C11|{}|definition-count|acyclic={}", lang.name(), acyclic as u8), detail: d });
    }
    // (b) topological order on DAGs
    let mut order_ok = true;
    if acyclic {
        for u in 0..g.n {
            for &v in &g.edges[u] {
                acc.judgements += 1;
                let (Some(first_u), Some(last_v)) = (pos[u].iter().min(), pos[v].iter().max()) else { continue };
                if first_u < last_v {
                    order_ok = false;
                    let mut d = base.clone();
                    d["edge"] = json!([g.names[u], g.names[v]]);
                    acc.vios.add(Violation {
                        sig: format!("C11|{}|used-before-defined|carrier={}|from={}|to={}|target_renamed={}", lang.name(), g.carrier, g.kinds[u], g.kinds[v], (g.renamed == Some(v)) as u8),
                        detail: d,
                    });
                }
            }
        }
    }
    if lang == Lang::Python && acyclic && g.n_edges() > 0 && g.kinds.iter().any(|k| *k == "alias") {
        PY_MODULES.lock().unwrap().push((ok.text.clone(), base.clone(), format!("carrier={}|kinds={kinds}|renamed={}", g.carrier, g.renamed.is_some() as u8)));
    }
    acc.outcomes.insert(report::fnv64(&format!("{}|{acyclic}|{order_ok}|{}", lang.name(), ok.out.defs.iter().map(|d| d.name()).collect::<Vec<_>>().join(","))));
    if acc.samples.len() < 2 && acyclic && g.n >= 3 && g.n_edges() >= 3 {
        acc.sample(json!({"lang": lang.name(), "edges": g.edges, "carrier": g.carrier, "definition_order": ok.out.defs.iter().map(|d| d.name().to_string()).collect::<Vec<_>>()}));
    }
}

fn gen_edges(ch: &mut Chooser, n: usize) -> Vec<Vec<usize>> {
    let mut edges = vec![Vec::new(); n];
    for u in 0..n {
        for v in 0..n {
            if ch.flag("edge") {
                edges[u].push(v);
            }
        }
    }
    edges
}

fn names(n: usize, rot: usize) -> Vec<String> {
    (0..n).map(|i| format!("N{:02}", (i + rot) % n)).collect()
}

/// naming styles of the items: the ordering must not depend on how a type name is spelled
const NAME_STYLES: [&str; 4] = ["Pascal", "lower_snake", "leading-underscore", "lower-first-camel"];
fn styled_names(n: usize, style: &str) -> Vec<String> {
    (0..n)
        .map(|i| match style {
            "lower_snake" => format!("n{i:02}_t"),
            "leading-underscore" => format!("_N{i:02}"),
            "lower-first-camel" => format!("iN{i:02}Dev"),
            _ => format!("N{i:02}"),
        })
        .collect()
}

fn family_graph(fam: usize, n: usize) -> Vec<Vec<usize>> {
    let mut e = vec![Vec::new(); n];
    match fam {
        0 => (0..n - 1).for_each(|i| e[i].push(i + 1)),          // chain
        1 => (1..n).for_each(|i| e[i].push(i - 1)),              // reversed chain
        2 => (1..n).for_each(|i| e[i].push(0)),                  // star-in
        3 => (1..n).for_each(|i| e[0].push(i)),                  // star-out
        4 => {
            // diamond ladder: i -> i+1, i -> i+2
            for i in 0..n {
                if i + 1 < n {
                    e[i].push(i + 1);
                }
                if i + 2 < n {
                    e[i].push(i + 2);
                }
            }
        }
        5 => {
            // cycle of length 3 with a tail hanging off it
            e[0].push(1);
            e[1].push(2);
            e[2].push(0);
            (3..n).for_each(|i| e[i - 1].push(i));
        }
        _ => {
            // two disjoint cycles
            let h = n / 2;
            (0..h).for_each(|i| e[i].push((i + 1) % h));
            (h..n).for_each(|i| e[i].push(h + (i + 1 - h) % (n - h)));
        }
    }
    e
}

fn controls(rep: &mut Report) {
    let g = Graph { n: 3, edges: vec![vec![1], vec![2], vec![]], names: names(3, 0), kinds: vec!["struct"; 3], carrier: "direct", renamed: None };
    if !g.acyclic() {
        rep.machinery("control: chain reported cyclic");
    }
    let c = Graph { n: 2, edges: vec![vec![1], vec![0]], names: names(2, 0), kinds: vec!["struct"; 2], carrier: "direct", renamed: None };
    if c.acyclic() {
        rep.machinery("control: 2-cycle reported acyclic");
    }
    // canned output in the wrong order must be flagged by the position logic
    let canned = "export interface N00 {\n\town: number;\n\tr0: N01;\n}\n\nexport interface N01 {\n\town: number;\n}\n";
    match crate::extract::extract(Lang::TypeScript, canned) {
        Ok(of) => {
            let g2 = Graph { n: 2, edges: vec![vec![1], vec![]], names: names(2, 0), kinds: vec!["struct"; 2], carrier: "direct", renamed: None };
            let p0 = positions(&of, &g2, 0, Lang::TypeScript);
            let p1 = positions(&of, &g2, 1, Lang::TypeScript);
            if !(p0 == vec![0] && p1 == vec![1]) {
                rep.machinery("control: definition positions not recovered from canned TypeScript");
            }
        }
        Err(e) => rep.machinery(format!("control: canned TypeScript rejected: {}", e.msg())),
    }
}


/// The items of one run spread over several directory arguments whose names are related as text (one a prefix of the
/// other) but not as paths: every ordered selection of up to three of five sibling directories, through the binary,
/// relative and absolute arguments. The emitted definitions are those of the selected directories, each once.
fn directory_arguments_family(rep: &mut Report) {
    use crate::cli::{self, par_map, run_cli, s, Scratch};
    if !cli::bin_available() {
        rep.machinery(format!("hooks-on CLI binary missing at {}", cli::BIN));
        return;
    }
    const DIRS: [(&str, &str, &str); 5] = [
        ("models", "Base", "#[typeshare]\npub struct Base { pub b: u32 }\n"),
        ("models_ext", "Extended", "#[typeshare]\npub struct Extended { pub e: Vec<u32> }\n#[typeshare]\npub type Extras = Vec<Extended>;\n"),
        ("modelsx", "Crossed", "#[typeshare]\n#[serde(tag = \"t\", content = \"c\")]\npub enum Crossed { One(u32), Two }\n"),
        ("api", "Request", "#[typeshare]\npub struct Request { pub r: String }\n"),
        ("api_v2", "RequestV2", "#[typeshare]\npub struct RequestV2 { pub r: String, pub n: u32 }\n"),
    ];
    let mut seqs: Vec<Vec<usize>> = Vec::new();
    for a in 0..5 {
        seqs.push(vec![a]);
        for b in 0..5 {
            if b != a {
                seqs.push(vec![a, b]);
                for c in 0..5 {
                    if c != a && c != b {
                        seqs.push(vec![a, b, c]);
                    }
                }
            }
        }
    }
    let langs: Vec<Lang> = if rep.thorough() { crate::pipeline::ALL_LANGS.to_vec() } else { vec![Lang::TypeScript, Lang::Go, Lang::Python] };
    let mut jobs = Vec::new();
    for sq in &seqs {
        for &lang in &langs {
            for absolute in [false, true] {
                jobs.push((sq.clone(), lang, absolute));
            }
        }
    }
    let results = par_map(&jobs, report::threads(), |(sq, lang, absolute)| {
        let sc = Scratch::new("c11dirs");
        for (d, _, src) in DIRS {
            sc.write(&format!("ws/{d}/src/lib.rs"), src.as_bytes());
        }
        let out = sc.path(&format!("out/types.{}", lang.ext()));
        sc.mkdir("out");
        let mut args = cli::lang_args(*lang);
        args.extend([s("-o"), out.to_string_lossy().into_owned()]);
        for i in sq {
            args.push(if *absolute { sc.path(&format!("ws/{}", DIRS[*i].0)).to_string_lossy().into_owned() } else { DIRS[*i].0.to_string() });
        }
        let r = run_cli(&args, &sc.path("ws"), &[], cli::TIMEOUT);
        (r.class(), r.stderr.chars().take(300).collect::<String>(), std::fs::read_to_string(&out).unwrap_or_default(), args)
    });
    let mut outcomes = std::collections::BTreeSet::new();
    for ((sq, lang, absolute), (class, stderr, text, argv)) in jobs.iter().zip(results.iter()) {
        let shape = format!("args={}|{}", sq.len(), if *absolute { "absolute" } else { "relative" });
        let names: Vec<&str> = sq.iter().map(|i| DIRS[*i].0).collect();
        if *class != "ok" {
            rep.vios.add(Violation { sig: format!("C11|{}|directory-arguments|run-failed:{class}|{shape}", lang.name()), detail: json!({"argv": argv, "directories": names, "stderr": stderr}) });
            continue;
        }
        let of = match crate::extract::extract(*lang, text) {
            Ok(of) => of,
            Err(e) => {
                rep.vios.add(Violation { sig: format!("C11|{}|directory-arguments|output-unreadable|{shape}", lang.name()), detail: json!({"argv": argv, "directories": names, "output": text, "reader": e.msg()}) });
                continue;
            }
        };
        for (i, (d, main, _)) in DIRS.iter().enumerate() {
            let want = sq.contains(&i) as usize;
            let got = of.defs.iter().filter(|x| x.name() == *main).count();
            outcomes.insert(format!("{}|{want}|{got}", lang.name()));
            if got != want {
                // which other selected directory's name is a textual prefix of this one (or the reverse)
                let related = sq.iter().any(|j| *j != i && (d.starts_with(DIRS[*j].0) || DIRS[*j].0.starts_with(d)));
                rep.vios.add(Violation {
                    sig: format!("C11|{}|directory-arguments|{}|{shape}|a-selected-sibling-shares-a-name-prefix={}", lang.name(), if got < want { "definition-lost" } else if want == 0 { "definition-of-an-unselected-directory" } else { "definition-duplicated" }, related as u8),
                    detail: json!({"argv": argv, "directories": names, "directory": d, "definition": main, "expected_count": want, "observed_count": got, "output": text}),
                });
            }
        }
    }
    rep.cov("directory_arguments", json!({"sibling_directories": DIRS.iter().map(|d| d.0).collect::<Vec<_>>(), "ordered_selections": seqs.len(), "argument_spellings": ["relative", "absolute"], "languages": langs.len(), "process_runs": jobs.len(), "distinct_outcomes": outcomes.len()}));
    rep.cov_add("evaluations", jobs.len() as u64 * 5);
    rep.cov_add("traces_validated_against_impl", jobs.len() as u64);
}

pub fn run(args: &[String]) -> i32 {
    let tier = report::tier_from_env(args);
    let mut rep = Report::new("C11", &tier);
    controls(&mut rep);
    let thorough = rep.thorough();
    // 1. every digraph on n ≤ 3 nodes (self loops included), all-struct nodes, every carrier
    for n in 1..=3usize {
        let (accs, stats) = explore(
            |ch| {
                gen_edges(ch, n);
            },
            |ch, acc: &mut Acc| {
                let edges = gen_edges(ch, n);
                let carrier = *ch.pick("carrier", &CARRIERS);
                let lang = *ch.pick("lang", &LANGS);
                let style = *ch.pick("name_style", &NAME_STYLES);
                let g = Graph { n, edges, names: styled_names(n, style), kinds: vec!["struct"; n], carrier, renamed: None };
                check_graph(&g, lang, &ch.choices(), "all-digraphs-structs", acc);
            },
            Mode::Product,
            4,
            report::threads(),
            u64::MAX,
        );
        merge(&mut rep, &format!("all_digraphs_n{n}_structs_all_carriers"), accs, &stats, json!({"nodes": n, "edge_sets": 1u64 << (n * n), "carriers": CARRIERS, "name_styles": NAME_STYLES, "languages": 5}));
    }
    // 2. every digraph on n ≤ 3 nodes × every node-kind assignment (alias/const nodes: out-degree ≤ 1) × serde-renamed target
    for n in 2..=3usize {
        let (accs, stats) = explore(
            |ch| {
                gen_edges(ch, n);
            },
            |ch, acc: &mut Acc| {
                let edges = gen_edges(ch, n);
                // quick: with three nodes only the five basic kinds (the two mixed-enum kinds are covered with two nodes)
                let kind_menu: &[&'static str] = if n == 3 && !thorough { &NODE_KINDS[..5] } else { &NODE_KINDS };
                let kinds: Vec<&'static str> = (0..n).map(|_| *ch.pick("node_kind", kind_menu)).collect();
                let renamed = match ch.choose("renamed_node", n + 1) {
                    0 => None,
                    k => Some(k - 1),
                };
                let lang = *ch.pick("lang", &LANGS);
                if (0..n).any(|u| matches!(kinds[u], "alias" | "const") && edges[u].len() > 1) {
                    acc.out_of_scope += 1;
                    return;
                }
                // a const cannot be renamed and has no serde attributes
                if let Some(r) = renamed {
                    if kinds[r] == "const" {
                        acc.out_of_scope += 1;
                        return;
                    }
                }
                let g = Graph { n, edges, names: names(n, 0), kinds, carrier: "direct", renamed };
                check_graph(&g, lang, &ch.choices(), "all-digraphs-mixed-kinds", acc);
            },
            Mode::Product,
            4,
            report::threads(),
            u64::MAX,
        );
        merge(&mut rep, &format!("all_digraphs_n{n}_mixed_kinds"), accs, &stats, json!({"nodes": n, "node_kinds": NODE_KINDS, "renamed_node": "none or any one", "carrier": "direct", "languages": 5}));
    }
    // 2b. two nodes of every kind, every edge carrier (an alias of a container, a payload holding an array, …)
    {
        let (accs, stats) = explore(
            |ch| {
                gen_edges(ch, 2);
            },
            |ch, acc: &mut Acc| {
                let edges = gen_edges(ch, 2);
                let kinds: Vec<&'static str> = (0..2).map(|_| *ch.pick("node_kind", &NODE_KINDS)).collect();
                let carrier = *ch.pick("carrier", &CARRIERS);
                let rot = ch.choose("rotation", 2);
                let lang = *ch.pick("lang", &LANGS);
                if (0..2).any(|u| matches!(kinds[u], "alias" | "const") && edges[u].len() > 1) {
                    acc.out_of_scope += 1;
                    return;
                }
                let g = Graph { n: 2, edges, names: names(2, rot), kinds, carrier, renamed: None };
                check_graph(&g, lang, &ch.choices(), "two-nodes-mixed-kinds-all-carriers", acc);
            },
            Mode::Product,
            4,
            report::threads(),
            u64::MAX,
        );
        merge(&mut rep, "all_digraphs_n2_mixed_kinds_all_carriers", accs, &stats, json!({"nodes": 2, "node_kinds": NODE_KINDS, "carriers": CARRIERS, "rotations": 2, "languages": 5}));
    }
    // 3. n = 4: every digraph; quick: only acyclic ones with the direct carrier, thorough: all graphs × 4 carriers
    {
        let carriers: &[&'static str] = if thorough { &["direct", "vec", "array", "generic-arg"] } else { &["direct"] };
        let (accs, stats) = explore(
            |ch| {
                gen_edges(ch, 4);
            },
            |ch, acc: &mut Acc| {
                let edges = gen_edges(ch, 4);
                let carrier = *ch.pick("carrier", carriers);
                let lang = *ch.pick("lang", &LANGS);
                let g = Graph { n: 4, edges, names: names(4, 0), kinds: vec!["struct"; 4], carrier, renamed: None };
                if !thorough && !g.acyclic() {
                    acc.out_of_scope += 1;
                    return;
                }
                check_graph(&g, lang, &ch.choices(), "all-digraphs-n4", acc);
            },
            Mode::Product,
            6,
            report::threads(),
            u64::MAX,
        );
        merge(&mut rep, "all_digraphs_n4", accs, &stats, json!({"nodes": 4, "edge_sets": 65536, "judged": if thorough { "all graphs" } else { "acyclic graphs only" }, "carriers": carriers, "languages": 5}));
    }
    // 4. parametric families 5..=12 nodes, every rotation of the labeling
    {
        let max_n = if thorough { 12 } else { 8 };
        let (accs, stats) = explore(
            |ch| {
                ch.choose("family", 7);
            },
            |ch, acc: &mut Acc| {
                let fam = ch.choose("family", 7);
                let n = 5 + ch.choose("size", max_n - 4);
                let rot = ch.choose("rotation", 12);
                if rot >= n {
                    acc.out_of_scope += 1;
                    return;
                }
                let carrier = *ch.pick("carrier", &["direct", "vec"]);
                let lang = *ch.pick("lang", &LANGS);
                let g = Graph { n, edges: family_graph(fam, n), names: names(n, rot), kinds: vec!["struct"; n], carrier, renamed: None };
                check_graph(&g, lang, &ch.choices(), "families", acc);
            },
            Mode::Product,
            2,
            report::threads(),
            u64::MAX,
        );
        merge(&mut rep, "families_5_to_12", accs, &stats, json!({"families": ["chain", "reversed chain", "star-in", "star-out", "diamond ladder", "3-cycle with tail", "two disjoint cycles"], "sizes": format!("5..={max_n}"), "rotations": "every rotation of the name labeling", "carriers": ["direct", "vec"]}));
    }
    // 5. ambient variations: graphs on 3 nodes with few edges, under program rewrites the order must not depend on
    {
        let amb_k = if thorough { 5 } else { 4 };
        super::common::ambient_family(&mut rep, "ambient_variations", amb_k, |ch| { gen_edges(ch, 3); }, |ch, acc| {
            let edges = gen_edges(ch, 3);
            let carrier = *ch.pick("carrier", &CARRIERS);
            let lang = *ch.pick("lang", &LANGS);
            let g = Graph { n: 3, edges, names: names(3, 0), kinds: vec!["struct"; 3], carrier, renamed: None };
            check_graph(&g, lang, &ch.choices(), "ambient", acc);
        });
    }
    // 6. items sharing a name (two modules of one file: `Twin` and `v2::Twin`): the ordering step is handed both and must emit both
    {
        const TWIN_KINDS: [&str; 5] = ["struct", "enum-newtype", "enum-unit", "alias", "const"];
        fn twin(kind: &str, tag: &str) -> Item {
            match kind {
                "struct" => Item::strukt("Twin", vec![Field::new(&format!("own_{tag}"), Ty::Prim("u32"))]),
                "enum-newtype" => Item::enumm("Twin", vec![Variant::new(&format!("Own{tag}"), VKind::Newtype(Ty::Prim("u32")))]),
                "enum-unit" => Item::enumm("Twin", vec![Variant::new(&format!("Own{tag}"), VKind::Unit), Variant::new("Other", VKind::Unit)]),
                "alias" => Item::new("Twin", IKind::Alias(Ty::Prim(if tag == "A" { "String" } else { "u32" }))),
                _ => Item::new("Twin", IKind::Const { ty: Ty::Prim("u32"), expr: if tag == "A" { "1".into() } else { "2".into() } }),
            }
        }
        let (accs, stats) = explore(
            |ch| {
                ch.choose("first_kind", TWIN_KINDS.len());
            },
            |ch, acc: &mut Acc| {
                let ka = TWIN_KINDS[ch.choose("first_kind", TWIN_KINDS.len())];
                let kb = TWIN_KINDS[ch.choose("second_kind", TWIN_KINDS.len())];
                let placement = ch.choose("placement", 3); // second in `mod v2`; first in `mod v1`; both in modules
                let referrer = ch.choose("referrer", 3); // none; a struct listed after; a struct listed before
                let lang = *ch.pick("lang", &LANGS);
                if (ka == "const" || kb == "const") && !matches!(lang, Lang::TypeScript | Lang::Go | Lang::Python) {
                    acc.out_of_scope += 1;
                    return;
                }
                let mut a = twin(ka, "A");
                let mut b = twin(kb, "B");
                if placement != 0 {
                    a.mods = vec!["v1".into()];
                }
                if placement != 1 {
                    b.mods = vec!["v2".into()];
                }
                let user = Item::strukt("Referrer", vec![Field::new("t", Ty::user("Twin"))]);
                let items = match referrer {
                    0 => vec![a, b],
                    1 => vec![a, b, user],
                    _ => vec![user, a, b],
                };
                let file = File::single(items);
                acc.runs += 1;
                let ok = match refmodel::run_single(&file, lang, &Cfg::plain()) {
                    Ok(ok) => ok,
                    Err((RunFail::Render(e), source)) => {
                        acc.machinery(format!("renderer produced invalid Rust: {e}\n{source}"));
                        return;
                    }
                    // Python: two algebraic enums of one name share their helper class names, which the reader of the
                    // output cannot tell apart; the two union definitions are counted in the text instead
                    Err((RunFail::Extract { text, .. }, source)) if lang == Lang::Python && ka == "enum-newtype" && kb == "enum-newtype" => {
                        acc.judgements += 1;
                        let found = text.lines().filter(|l| l.starts_with("Twin = ")).count();
                        if found != 2 {
                            acc.vios.add(Violation {
                                sig: format!("C11|python|{}|same-name-items|kinds={ka}+{kb}", if found < 2 { "definition-lost" } else { "definition-duplicated" }),
                                detail: json!({"choices": ch.choices(), "lang": "python", "source": source, "output": text, "definitions_named_Twin": found}),
                            });
                        }
                        return;
                    }
                    Err((fail, source)) => {
                        acc.vios.add(Violation {
                            sig: format!("C11|{}|no-output:{}|same-name-items|kinds={ka}+{kb}", lang.name(), fail.class()),
                            detail: json!({"choices": ch.choices(), "lang": lang.name(), "source": source, "failure": fail.describe()}),
                        });
                        return;
                    }
                };
                acc.inputs.insert(report::fnv64(&ok.source));
                acc.nontrivial.insert(report::fnv64(&format!("{}|{}", ok.source, lang.name())));
                acc.judgements += 1;
                // (constants are printed in the backend's constant case: TWIN)
                let found = ok.out.defs.iter().filter(|d| d.name().eq_ignore_ascii_case("Twin")).count();
                let total_want = 2 + (referrer != 0) as usize;
                if found != 2 || ok.out.defs.len() != total_want {
                    acc.vios.add(Violation {
                        sig: format!("C11|{}|{}|same-name-items|kinds={ka}+{kb}", lang.name(), if found < 2 { "definition-lost" } else { "definition-duplicated" }),
                        detail: json!({"choices": ch.choices(), "lang": lang.name(), "kinds": [ka, kb], "source": ok.source, "output": ok.text, "definitions_named_Twin": found, "definitions": ok.out.defs.iter().map(|d| d.name().to_string()).collect::<Vec<_>>(),
                            "observation": "two annotated items named Twin were parsed; the emitted definitions must be a permutation of the parsed items"}),
                    });
                }
                acc.outcomes.insert(report::fnv64(&format!("{}|{found}", lang.name())));
            },
            Mode::Product,
            2,
            report::threads(),
            u64::MAX,
        );
        merge(&mut rep, "items_sharing_a_name", accs, &stats, json!({"kinds_of_each": TWIN_KINDS, "placement": ["second in mod v2", "first in mod v1", "both in modules"], "referrer": ["none", "listed after", "listed before"], "languages": 5}));
    }
    // 7. the same graphs run the way the CLI runs them in multi-file mode, and next to a pair of items sharing a name
    {
        let (accs, stats) = explore(
            |ch| {
                gen_edges(ch, 3);
            },
            |ch, acc: &mut Acc| {
                let edges = gen_edges(ch, 3);
                let carrier = *ch.pick("carrier", &["direct", "vec"]);
                let mode = 1 + ch.choose("run_as", 3) as u8;
                let rot = ch.choose("rotation", 3);
                let lang = *ch.pick("lang", &LANGS);
                let g = Graph { n: 3, edges, names: names(3, rot), kinds: vec!["struct"; 3], carrier, renamed: None };
                GRAPH_MODE.with(|m| m.set(mode));
                check_graph(&g, lang, &ch.choices(), "other-ways-to-run", acc);
                GRAPH_MODE.with(|m| m.set(0));
            },
            Mode::Product,
            4,
            report::threads(),
            u64::MAX,
        );
        merge(&mut rep, "all_digraphs_n3_other_ways_to_run", accs, &stats, json!({"nodes": 3, "edge_sets": 512, "run_as": &GRAPH_MODES[1..], "carriers": ["direct", "vec"], "rotations": 3, "languages": 5}));
    }
    // (c) eagerly evaluated Python: the module of every acyclic graph with aliases / unions must import
    {
        let mods = std::mem::take(&mut *PY_MODULES.lock().unwrap());
        let mut uniq: std::collections::BTreeMap<String, String> = Default::default();
        let mut meta: std::collections::BTreeMap<String, (serde_json::Value, String)> = Default::default();
        for (text, detail, tail) in mods {
            let id = format!("g_{:016x}", report::fnv64(&text));
            uniq.entry(id.clone()).or_insert(text);
            meta.entry(id).or_insert((detail, tail));
        }
        match crate::pybatch::check_modules(&uniq) {
            Ok(res) => {
                let mut bad = 0u64;
                for (id, v) in &res {
                    if !v.ok {
                        bad += 1;
                        let (detail, tail) = &meta[id];
                        let mut d = detail.clone();
                        d["cpython"] = json!({"stage": v.stage, "error": v.error});
                        let class = v.error.split(':').next().unwrap_or("");
                        rep.vios.add(Violation { sig: format!("C11|python|module-does-not-import:{}:{class}|{tail}", v.stage), detail: d });
                    }
                }
                rep.cov("python_import_of_acyclic_graphs", json!({"modules": uniq.len(), "failing": bad, "checker": "python3 py/batch_check.py (ast.parse + exec under pystub/pydantic)"}));
                rep.cov_add("evaluations", uniq.len() as u64);
            }
            Err(e) => rep.machinery(e),
        }
    }
    directory_arguments_family(&mut rep);
    require_nonvacuous(&mut rep);
    rep.cov("rule", json!("every labelled digraph (self loops included) on ≤ 3 nodes for every edge carrier and every node-kind assignment, every digraph on 4 nodes, and seven parametric families up to 12 nodes under every rotation of the labeling; each graph is rendered as items referring to each other, generated for the five backends that share the ordering, and the definition order recovered from the output is checked: permutation (every item exactly once) always, topological order when the graph is acyclic. non-trivial = graph has at least one edge."));
    rep.assume("node names N00.. fix the order in which typeshare feeds items to its sort; all labelings are covered because all edge sets are enumerated");
    rep.finish()
}
