//! C16 — rename_all case conversion agrees with serde_derive's algorithm.
//!
//! Space: every string of length 1..=L over class representatives, filtered to
//! legal Rust identifiers, × 8 rules + 1 unknown rule × {field, variant}.
//! Each identifier is pushed through the real `parser::parse` (one file holding
//! nine one-field structs and nine one-variant enums) and compared with the
//! vendored serde_derive `case.rs`.
use crate::explore::{explore, Chooser, Mode};
use crate::pipeline::{self, Cfg, SrcFile};
use crate::report::{self, Report, VioSet, Violation};
use crate::serde_case::RenameRule;
use serde_json::json;
use std::collections::BTreeSet;
use std::panic::{catch_unwind, AssertUnwindSafe};

pub const RULES: [&str; 9] = [
    "lowercase",
    "UPPERCASE",
    "PascalCase",
    "camelCase",
    "snake_case",
    "SCREAMING_SNAKE_CASE",
    "kebab-case",
    "SCREAMING-KEBAB-CASE",
    "Title Case", // unknown to serde and to typeshare: names must stay unchanged
];

const RUST_KEYWORDS: &[&str] = &[
    "as", "break", "const", "continue", "crate", "else", "enum", "extern", "false", "fn", "for", "if", "impl", "in",
    "let", "loop", "match", "mod", "move", "mut", "pub", "ref", "return", "self", "Self", "static", "struct", "super",
    "trait", "true", "type", "unsafe", "use", "where", "while", "async", "await", "dyn", "abstract", "become", "box",
    "do", "final", "macro", "override", "priv", "typeof", "unsized", "virtual", "yield", "try", "gen",
];
/// keywords that cannot even be raw identifiers
const NO_RAW: &[&str] = &["crate", "self", "Self", "super", "_"];

pub fn is_ident(s: &str) -> bool {
    let mut cs = s.chars();
    let Some(f) = cs.next() else { return false };
    if !(f == '_' || f.is_alphabetic()) {
        return false;
    }
    if s == "_" {
        return false;
    }
    cs.all(|c| c == '_' || c.is_alphanumeric())
}

pub fn spell(ident: &str) -> Option<String> {
    if !is_ident(ident) || NO_RAW.contains(&ident) {
        return None;
    }
    if RUST_KEYWORDS.contains(&ident) {
        Some(format!("r#{ident}"))
    } else {
        Some(ident.to_string())
    }
}

/// The oracle: serde_derive's own function; None where serde itself panics or rejects the rule.
pub fn serde_name(rule: &str, ident: &str, variant: bool) -> Option<String> {
    let Ok(r) = RenameRule::from_str(rule) else {
        return Some(ident.to_string());
    };
    let id = ident.to_string();
    catch_unwind(AssertUnwindSafe(move || if variant { r.apply_to_variant(&id) } else { r.apply_to_field(&id) })).ok()
}

pub fn source_for(ident: &str) -> Option<String> {
    let sp = spell(ident)?;
    let mut s = String::new();
    for (i, rule) in RULES.iter().enumerate() {
        s.push_str(&format!("#[typeshare]\n#[serde(rename_all = \"{rule}\")]\npub struct S{i} {{ pub {sp}: u32 }}\n"));
        s.push_str(&format!("#[typeshare]\n#[serde(rename_all = \"{rule}\")]\npub enum E{i} {{ {sp} }}\n"));
    }
    Some(s)
}

fn shape(ident: &str) -> String {
    let first = ident.chars().next().unwrap();
    let fc = if first == '_' {
        '_'
    } else if !first.is_ascii() {
        if first.is_uppercase() { 'N' } else { 'n' }
    } else if first.is_ascii_uppercase() {
        'U'
    } else {
        'l'
    };
    let rest: String = ident.chars().skip(1).collect();
    let mut f = String::new();
    f.push(fc);
    if rest.chars().any(|c| c.is_ascii_uppercase()) {
        f.push_str("+U");
    }
    if ident.chars().any(|c| c.is_ascii_lowercase()) {
        f.push_str("+l");
    }
    if rest.contains('_') {
        f.push_str("+_");
    }
    if ident.chars().any(|c| !c.is_ascii() && c.is_lowercase()) {
        f.push_str("+n");
    }
    if rest.chars().any(|c| !c.is_ascii() && c.is_uppercase()) {
        f.push_str("+N");
    }
    if ident.to_ascii_uppercase() == ident {
        f.push_str("+allcaps");
    }
    f
}

fn rel(exp: &str, obs: &str) -> &'static str {
    let strip = |s: &str| s.replace(['_', '-'], "");
    if exp.to_lowercase() == obs.to_lowercase() {
        "case"
    } else if strip(exp) == strip(obs) {
        "sep"
    } else if strip(exp).to_lowercase() == strip(obs).to_lowercase() {
        "case+sep"
    } else {
        "other"
    }
}

#[derive(Default)]
struct Acc {
    vios: VioSet,
    idents: u64,
    not_ident: u64,
    comparisons: u64,
    oracle_undefined: u64,
    nontrivial: BTreeSet<u64>,
    outcomes: BTreeSet<u64>,
    samples: Vec<serde_json::Value>,
    parse_fail: u64,
}

pub fn check_ident(ident: &str, acc_v: &mut VioSet, st: &mut (u64, u64, BTreeSet<u64>, BTreeSet<u64>, u64), sample: Option<&mut Vec<serde_json::Value>>) {
    // st = (comparisons, oracle_undefined, nontrivial, outcomes, parse_fail)
    let Some(src) = source_for(ident) else { return };
    let Some(sp) = spell(ident) else { return };
    let cfg = Cfg::plain();
    let extract = |map: &std::collections::BTreeMap<typeshare_core::language::CrateName, typeshare_core::parser::ParsedData>, i: usize| {
        let pd = map.values().next();
        let f = pd.and_then(|pd| {
            pd.structs.iter().find(|s| s.id.original == format!("S{i}")).and_then(|s| s.fields.first()).map(|f| f.id.renamed.clone())
        });
        let v = pd.and_then(|pd| {
            pd.enums
                .iter()
                .find(|e| e.shared().id.original == format!("E{i}"))
                .and_then(|e| e.shared().variants.first())
                .map(|v| v.shared().id.renamed.clone())
        });
        (f, v)
    };
    let parsed = pipeline::parse_only(&[SrcFile::single(src.clone())], &cfg);
    let mut fail_reason: Vec<(Option<String>, Option<String>)> = vec![(None, None); RULES.len()];
    let observed: Vec<(Option<String>, Option<String>)> = match &parsed {
        Ok(map) => (0..RULES.len()).map(|i| extract(map, i)).collect(),
        Err(_) => {
            // one item of the batch failed: isolate every (rule, position) in its own file
            (0..RULES.len())
                .map(|i| {
                    let rule = RULES[i];
                    let fs = format!("#[typeshare]\n#[serde(rename_all = \"{rule}\")]\npub struct S{i} {{ pub {sp}: u32 }}\n");
                    let es = format!("#[typeshare]\n#[serde(rename_all = \"{rule}\")]\npub enum E{i} {{ {sp} }}\n");
                    let f = match pipeline::parse_only(&[SrcFile::single(fs)], &cfg) {
                        Ok(m) => extract(&m, i).0,
                        Err(o) => {
                            fail_reason[i].0 = Some(format!("{}:{}", o.kind(), format!("{o:?}").chars().take(100).collect::<String>()));
                            None
                        }
                    };
                    let v = match pipeline::parse_only(&[SrcFile::single(es)], &cfg) {
                        Ok(m) => extract(&m, i).1,
                        Err(o) => {
                            fail_reason[i].1 = Some(format!("{}:{}", o.kind(), format!("{o:?}").chars().take(100).collect::<String>()));
                            None
                        }
                    };
                    (f, v)
                })
                .collect()
        }
    };
    let mut sample_rows = Vec::new();
    for (i, rule) in RULES.iter().enumerate() {
        for variant in [false, true] {
            let pos = if variant { "variant" } else { "field" };
            let Some(exp) = serde_name(rule, ident, variant) else {
                st.1 += 1;
                continue;
            };
            st.0 += 1;
            let obs = if variant { observed[i].1.clone() } else { observed[i].0.clone() };
            if exp != ident {
                st.2.insert(report::fnv64(&format!("{ident}|{rule}|{pos}")));
            }
            match obs {
                Some(o) => {
                    st.3.insert(report::fnv64(&format!("{rule}|{pos}|{}", rel(&exp, &o))) ^ (if exp == o { 1 } else { 0 }));
                    if sample_rows.len() < 4 && exp != ident {
                        sample_rows.push(json!({"ident": ident, "rule": rule, "position": pos, "serde": exp, "typeshare": o}));
                    }
                    if o != exp {
                        acc_v.add(Violation {
                            sig: format!("C16|{rule}|{pos}|{}|{}", shape(ident), rel(&exp, &o)),
                            detail: json!({"ident": ident, "rule": rule, "position": pos, "serde_derive": exp, "typeshare": o, "source": src}),
                        });
                    }
                }
                None => {
                    // typeshare computed no name although serde defines one
                    st.4 += 1;
                    let why = (if variant { fail_reason[i].1.clone() } else { fail_reason[i].0.clone() }).unwrap_or_else(|| "item missing".into());
                    let kind = if why.starts_with("panic") { "panic" } else { "no-name" };
                    acc_v.add(Violation {
                        sig: format!("C16|{rule}|{pos}|{}|{kind}", shape(ident)),
                        detail: json!({"ident": ident, "rule": rule, "position": pos, "serde_derive": exp, "typeshare": null, "failure": why, "source": src}),
                    });
                }
            }
        }
    }
    if let Some(s) = sample {
        if s.len() < 6 {
            s.extend(sample_rows.into_iter().take(2));
        }
    }
}

const ALPHA_SHORT: [char; 5] = ['a', 'A', '1', '_', 'é'];
const ALPHA_EXT: [char; 8] = ['a', 'A', '1', '_', 'é', 'É', 'ß', 'Z'];

fn gen_string(ch: &mut Chooser, alpha: &[char], max_len: usize) -> String {
    let len = 1 + ch.choose("len", max_len);
    let mut s = String::new();
    for _ in 0..len {
        s.push(alpha[ch.choose("char", alpha.len())]);
    }
    s
}

fn sweep(rep: &mut Report, name: &str, alpha: &'static [char], max_len: usize) {
    let (accs, stats) = explore(
        |ch| {
            gen_string(ch, alpha, max_len);
        },
        |ch, acc: &mut Acc| {
            let s = gen_string(ch, alpha, max_len);
            if !is_ident(&s) {
                acc.not_ident += 1;
                return;
            }
            acc.idents += 1;
            let mut st = (0u64, 0u64, std::mem::take(&mut acc.nontrivial), std::mem::take(&mut acc.outcomes), 0u64);
            check_ident(&s, &mut acc.vios, &mut st, Some(&mut acc.samples));
            acc.comparisons += st.0;
            acc.oracle_undefined += st.1;
            acc.nontrivial = st.2;
            acc.outcomes = st.3;
            acc.parse_fail += st.4;
        },
        Mode::Product,
        3,
        report::threads(),
        u64::MAX,
    );
    let mut nontrivial = BTreeSet::new();
    let mut outcomes = BTreeSet::new();
    let (mut idents, mut not_ident, mut comparisons, mut undefined) = (0, 0, 0, 0);
    for a in accs {
        rep.vios.merge(a.vios);
        idents += a.idents;
        not_ident += a.not_ident;
        comparisons += a.comparisons;
        undefined += a.oracle_undefined;
        nontrivial.extend(a.nontrivial);
        outcomes.extend(a.outcomes);
        for s in a.samples.into_iter().take(1) {
            rep.sample(s);
        }
    }
    for d in &stats.divergences {
        rep.machinery(format!("explorer divergence: {d}"));
    }
    rep.cov(
        name,
        json!({"alphabet": alpha.iter().collect::<String>(), "max_len": max_len, "strings": stats.executions, "legal_identifiers": idents,
               "not_identifiers_skipped": not_ident, "comparisons": comparisons, "oracle_undefined_serde_panics": undefined,
               "choice_points": stats.choice_points, "exhaustive": !stats.cap_hit}),
    );
    rep.cov_add("evaluations", comparisons);
    rep.cov_add("states", idents);
    rep.cov_add("transitions", stats.choice_points);
    rep.cov_add("traces_validated_against_impl", idents);
    rep.cov_add("distinct_nontrivial", nontrivial.len() as u64);
    rep.cov_add("distinct_outcomes", outcomes.len() as u64);
}

// ------------------------------------------------------------------------------------------------
// the computed name is also the name every backend writes as the wire key / wire value
// ------------------------------------------------------------------------------------------------

/// Dictionary identifiers × 8 rules × 6 languages × 2 configurations: the wire name read back from the generated
/// definition (struct member key, unit-enum value) equals the name the parser computed for the identifier — the one
/// the sweeps compare with serde_derive's. (Comparing with serde directly would only repeat every known deviation
/// of the computation once per backend.)
fn emitted_names_family(rep: &mut Report) {
    use crate::cli::par_map;
    use crate::pipeline::{Lang, ALL_LANGS};
    use crate::refmodel::{self, RunFail};
    let read = |file: &str| -> Vec<String> {
        std::fs::read_to_string(format!("{}/mc/data/{file}", report::VERIF)).map(|t| t.lines().filter(|l| !l.is_empty() && is_ident(l)).map(String::from).collect()).unwrap_or_default()
    };
    let mut fields = read("idents_fields.txt");
    // identifiers whose converted name starts with a digit (the dictionary has none)
    fields.extend(["_1", "_2fa", "__3d", "_4_u"].iter().map(|s| s.to_string()));
    // identifiers without a single word in them: the converted name can be empty
    fields.extend(["__", "___"].iter().map(|s| s.to_string()));
    let variants = read("idents_variants.txt");
    let mut jobs: Vec<(String, bool, &'static str, Lang, bool, bool, bool)> = Vec::new();
    for (list, variant) in [(&fields, false), (&variants, true)] {
        for id in list.iter() {
            for rule in &RULES[..8] {
                if serde_name(rule, id, variant).is_none() {
                    continue;
                }
                for &lang in &ALL_LANGS {
                    for prefixed in [false, true] {
                        jobs.push((id.clone(), variant, rule, lang, prefixed, false, false));
                    }
                    // a variant of an algebraic enum goes through another writer than one of a unit enum
                    if variant {
                        jobs.push((id.clone(), variant, rule, lang, false, false, true));
                    }
                    // TypeScript revives dates by key: a date-typed field binds its name a second time, in ReviverFunc
                    if lang == Lang::TypeScript && !variant {
                        jobs.push((id.clone(), variant, rule, lang, false, true, false));
                    }
                }
            }
        }
    }
    let results = par_map(&jobs, report::threads(), |(id, variant, rule, lang, prefixed, date, alg)| {
        let sp = spell(id)?;
        serde_name(rule, id, *variant)?;
        let src = if *variant && *alg {
            format!("#[typeshare]\n#[serde(rename_all = \"{rule}\", tag = \"t\", content = \"c\")]\npub enum Subject {{ {sp}(u32), Zz9 {{ a: u32 }}, Yy8 }}\n")
        } else if *variant {
            format!("#[typeshare]\n#[serde(rename_all = \"{rule}\")]\npub enum Subject {{ {sp}, Zz9 }}\n")
        } else {
            // (a plain one-word member after the subject: whether a key binding is written must not hang on the last member)
            format!("#[typeshare]\n#[serde(rename_all = \"{rule}\")]\npub struct Subject {{ pub {sp}: {}, pub zz: bool }}\n", if *date { "DateTime" } else { "u32" })
        };
        let mut cfg = if *prefixed { Cfg::prefixed() } else { Cfg::plain() };
        if *date {
            cfg.type_mappings.push(("DateTime".into(), "Date".into()));
        }
        // the name the parser computed for this very input (compared with serde_derive's by the sweeps above)
        let exp = match pipeline::parse_only(&[SrcFile::single(src.clone())], &cfg) {
            Ok(m) => m.values().next().and_then(|pd| {
                if *variant {
                    pd.enums.first().and_then(|e| e.shared().variants.first()).map(|v| v.shared().id.renamed.clone())
                } else {
                    pd.structs.first().and_then(|s| s.fields.first()).map(|f| f.id.renamed.clone())
                }
            }),
            Err(_) => None,
        }?;
        // Scala has no key binding (C01 counts these out of scope as well): it cannot spell a key containing '-'
        if *lang == Lang::Scala && exp.contains('-') {
            return None;
        }
        let name = refmodel::prefixed(*lang, &cfg, "Subject");
        let obs: Result<Option<String>, String> = match refmodel::run_source(&src, *lang, &cfg) {
            Ok(ok) if *date => Ok(match ok.out.reviver_keys.as_deref() {
                Some([k]) => Some(k.clone()),
                Some(ks) => Some(format!("<{} keys in ReviverFunc: {ks:?}>", ks.len())),
                None => None,
            }),
            Ok(ok) => Ok(if *variant {
                ok.out.enums().find(|e| e.name == name).and_then(|e| e.variants.first().map(|v| v.wire.clone()))
            } else {
                ok.out.structs().find(|s| s.name == name).and_then(|s| s.fields.first().map(|f| f.wire.clone()))
            }),
            Err((RunFail::Render(e), _)) => Err(format!("render:{e}")),
            Err((f, _)) => Err(f.class()),
        };
        Some((exp, obs, src))
    });
    let mut judged = 0u64;
    let mut unreadable = 0u64;
    let mut nontrivial = BTreeSet::new();
    for ((id, variant, rule, lang, prefixed, date, alg), r) in jobs.iter().zip(results) {
        let Some((exp, obs, src)) = r else { continue };
        let pos = if *date { "field-key-in-reviver" } else if *alg { "algebraic-variant" } else if *variant { "variant" } else { "field" };
        judged += 1;
        if exp != *id {
            nontrivial.insert(report::fnv64(&format!("{id}|{rule}|{pos}|{}", lang.name())));
        }
        let cfgname = if *prefixed { "all-knobs" } else { "plain" };
        // underscore(s) + digit: the one family of identifiers whose member name a backend can only derive by dropping
        // the underscores, which leaves a digit in front (known finding, see KF-C10-underscore-digit-field-names)
        // (the same holds for identifiers made of underscores only: what is left is the empty name)
        let digit_led = id.starts_with('_') && (id.trim_start_matches('_').starts_with(|c: char| c.is_ascii_digit()) || id.trim_start_matches('_').is_empty());
        let shape = |i: &str| if digit_led { "underscore-digit-identifier".to_string() } else { shape(i) };
        match obs {
            Ok(Some(o)) if o == exp => {}
            Ok(o) => rep.vios.add(Violation {
                sig: format!("C16|{rule}|{pos}|emitted-by-{}|cfg={cfgname}|{}|{}", lang.name(), shape(id), o.as_deref().map(|o| rel(&exp, o)).unwrap_or("member-not-found")),
                detail: json!({"ident": id, "rule": rule, "position": pos, "lang": lang.name(), "configuration": cfgname, "computed_by_the_parser": exp, "emitted_wire_name": o, "source": src}),
            }),
            Err(e) if e.starts_with("render:") => rep.machinery(format!("emitted names: invalid Rust rendered for {id}: {e}")),
            // nothing to read a name from: whether the file is well-formed at all is C10's statement (which has these
            // identifiers as a feature and lists them as a known finding); only this one family is passed over
            Err(class) if digit_led && class.starts_with("unparseable-output") => unreadable += 1,
            Err(class) => rep.vios.add(Violation {
                sig: format!("C16|{rule}|{pos}|emitted-by-{}|cfg={cfgname}|{}|no-output:{}", lang.name(), shape(id), class.split(':').take(2).collect::<Vec<_>>().join(":")),
                detail: json!({"ident": id, "rule": rule, "position": pos, "lang": lang.name(), "configuration": cfgname, "computed_by_the_parser": exp, "failure": class, "source": src}),
            }),
        }
    }
    rep.cov("emitted_names", json!({"field_identifiers": fields.len(), "variant_identifiers": variants.len(), "rules": 8, "languages": 6, "configurations": ["plain", "all naming knobs on (prefix, package, Go uppercase_acronyms [ID, URL], …)"], "generated_and_read_back": judged, "underscore_digit_identifiers_whose_output_could_not_be_read": unreadable}));
    rep.cov_add("evaluations", judged);
    rep.cov_add("distinct_nontrivial", nontrivial.len() as u64);
}

// ------------------------------------------------------------------------------------------------
// the rule is read wherever it stands in the container's serde attributes
// ------------------------------------------------------------------------------------------------

/// Dictionary identifiers × 8 rules × {field, variant} × ways of writing the container attribute: the computed name
/// must be the one computed for the plain `#[serde(rename_all = "..")]` (which the sweeps compare with serde_derive's).
fn attribute_shapes_family(rep: &mut Report) {
    use crate::cli::par_map;
    const SHAPES: [(&str, &str); 5] = [
        ("after-a-list-form-argument", "#[serde(bound(deserialize = \"u32: Clone\"), rename_all = \"{R}\")]"),
        ("after-bare-words", "#[serde(default, deny_unknown_fields, rename_all = \"{R}\")]"),
        ("after-crate-path", "#[serde(crate = \"serde\", rename_all = \"{R}\")]"),
        ("in-a-second-attribute-after-a-list-form-one", "#[serde(bound(serialize = \"u32: Clone\"))]\n#[serde(rename_all = \"{R}\")]"),
        ("before-a-list-form-argument-with-trailing-comma", "#[serde(rename_all = \"{R}\", bound(deserialize = \"u32: Clone\"),)]"),
    ];
    let read = |file: &str| -> Vec<String> {
        std::fs::read_to_string(format!("{}/mc/data/{file}", report::VERIF)).map(|t| t.lines().filter(|l| !l.is_empty() && is_ident(l)).map(String::from).collect()).unwrap_or_default()
    };
    let mut jobs: Vec<(String, bool, &'static str)> = Vec::new();
    for (file, variant) in [("idents_fields.txt", false), ("idents_variants.txt", true)] {
        for id in read(file) {
            for rule in &RULES[..8] {
                jobs.push((id.clone(), variant, rule));
            }
        }
    }
    let compute = |attr: &str, sp: &str, variant: bool| -> Option<String> {
        let src = if variant { format!("#[typeshare]\n{attr}\npub enum Subject {{ {sp}, Zz9 }}\n") } else { format!("#[typeshare]\n{attr}\npub struct Subject {{ pub {sp}: u32 }}\n") };
        match pipeline::parse_only(&[SrcFile::single(src)], &Cfg::plain()) {
            Ok(m) => m.values().next().and_then(|pd| {
                if variant {
                    pd.enums.first().and_then(|e| e.shared().variants.first()).map(|v| v.shared().id.renamed.clone())
                } else {
                    pd.structs.first().and_then(|s| s.fields.first()).map(|f| f.id.renamed.clone())
                }
            }),
            Err(_) => None,
        }
    };
    let results = par_map(&jobs, report::threads(), |(id, variant, rule)| {
        let sp = spell(id)?;
        let plain = compute(&format!("#[serde(rename_all = \"{rule}\")]"), &sp, *variant);
        let shaped: Vec<Option<String>> = SHAPES.iter().map(|(_, a)| compute(&a.replace("{R}", rule), &sp, *variant)).collect();
        Some((plain, shaped))
    });
    let mut judged = 0u64;
    for ((id, variant, rule), r) in jobs.iter().zip(results) {
        let Some((plain, shaped)) = r else { continue };
        for ((name, attr), got) in SHAPES.iter().zip(shaped) {
            judged += 1;
            if got != plain {
                rep.vios.add(Violation {
                    sig: format!("C16|{rule}|{}|rule-not-read|attribute={name}|{}", if *variant { "variant" } else { "field" }, if got.as_deref() == Some(id.as_str()) { "name-left-unchanged" } else { "other-name" }),
                    detail: json!({"ident": id, "rule": rule, "position": if *variant { "variant" } else { "field" }, "container_attribute": attr.replace("{R}", rule), "computed": got, "computed_for_plain_attribute": plain}),
                });
            }
        }
    }
    rep.cov("attribute_shapes", json!({"shapes": SHAPES.iter().map(|s| s.0).collect::<Vec<_>>(), "identifiers": jobs.len() / 8, "rules": 8, "compared": judged, "oracle": "same computed name as under the plain #[serde(rename_all = ..)]"}));
    rep.cov_add("evaluations", judged);
}

pub fn run(args: &[String]) -> i32 {
    let tier = report::tier_from_env(args);
    let mut rep = Report::new("C16", &tier);
    let thorough = rep.thorough();
    // negative control: the oracle comparison must flag a wrong expectation
    {
        let mut v = VioSet::default();
        let mut st = (0, 0, BTreeSet::new(), BTreeSet::new(), 0);
        check_ident("user_name", &mut v, &mut st, None);
        if st.0 != 18 {
            rep.machinery(format!("control: expected 18 comparisons for user_name, got {}", st.0));
        }
        if serde_name("camelCase", "user_name", false).as_deref() != Some("userName") || serde_name("snake_case", "FooBar", true).as_deref() != Some("foo_bar") {
            rep.machinery("control: vendored serde case.rs does not give the documented answers");
        }
        if rel("userName", "username") != "case" || rel("a_b", "ab") != "sep" {
            rep.machinery("control: rel() classification broken");
        }
    }
    sweep(&mut rep, "sweep_class_representatives", &ALPHA_SHORT, if thorough { 7 } else { 5 });
    sweep(&mut rep, "sweep_second_representatives", &ALPHA_EXT, if thorough { 5 } else { 3 });
    // dictionary
    let mut dict_n = 0u64;
    let mut st = (0u64, 0u64, BTreeSet::new(), BTreeSet::new(), 0u64);
    let mut samples = Vec::new();
    for file in ["idents_fields.txt", "idents_variants.txt"] {
        let p = format!("{}/mc/data/{file}", report::VERIF);
        match std::fs::read_to_string(&p) {
            Ok(t) => {
                for id in t.lines().filter(|l| !l.is_empty()) {
                    dict_n += 1;
                    check_ident(id, &mut rep.vios, &mut st, Some(&mut samples));
                }
            }
            Err(e) => rep.machinery(format!("cannot read {p}: {e}")),
        }
    }
    for s in samples.into_iter().take(3) {
        rep.sample(s);
    }
    rep.cov("dictionary", json!({"identifiers": dict_n, "comparisons": st.0, "oracle_undefined": st.1}));
    rep.cov_add("evaluations", st.0);
    rep.cov_add("distinct_nontrivial", st.2.len() as u64);
    emitted_names_family(&mut rep);
    attribute_shapes_family(&mut rep);
    if thorough {
        bind_oracle_to_serde_derive(&mut rep);
    }
    rep.cov("exhaustive", json!(true));
    rep.cov(
        "rule",
        json!("every string over the class alphabet up to the stated length that is a legal Rust identifier, pushed through parser::parse as a field of a one-field struct and as a variant of a one-variant enum under each of 8 rename_all rules + 1 unknown rule; non-trivial = serde's name differs from the identifier; distinct by (identifier, rule, position). states = identifiers parsed by the real parser, transitions = explorer choice points"),
    );
    rep.assume("oracle = serde_derive 1.0.214 internals/case.rs vendored verbatim (mc/vendor/serde_case.rs); cases where serde itself panics are skipped and counted");
    rep.assume("identifiers that are not legal Rust identifiers cannot be field/variant names and are out of scope");
    rep.finish()
}

// ------------------------------------------------------------------------------------------------
// E4 binding of the oracle: the vendored case.rs must agree with the *compiled* serde_derive
// ------------------------------------------------------------------------------------------------

/// Renders every (identifier, rule, position) for which the vendored model defines a name as a
/// `#[derive(Serialize)]` type, builds the crate(s) once with the real serde_derive and compares the
/// key / variant name serde_json prints with the vendored model. Returns (cases, mismatches).
pub fn bind_oracle_to_serde_derive(rep: &mut Report) {
    use std::process::Command;
    let mut idents: Vec<String> = Vec::new();
    // every legal identifier of length ≤ 3 over the class representatives + the dictionaries
    for len in 1..=3usize {
        let n = ALPHA_SHORT.len();
        for mut k in 0..n.pow(len as u32) {
            let mut s = String::new();
            for _ in 0..len {
                s.push(ALPHA_SHORT[k % n]);
                k /= n;
            }
            if is_ident(&s) {
                idents.push(s);
            }
        }
    }
    for file in ["idents_fields.txt", "idents_variants.txt"] {
        if let Ok(t) = std::fs::read_to_string(format!("{}/mc/data/{file}", report::VERIF)) {
            idents.extend(t.lines().filter(|l| !l.is_empty()).map(String::from));
        }
    }
    idents.sort();
    idents.dedup();
    struct B {
        ident: String,
        rule: &'static str,
        variant: bool,
        expect: String,
    }
    let mut cases: Vec<B> = Vec::new();
    for id in &idents {
        if spell(id).is_none() {
            continue;
        }
        for rule in &RULES[..8] {
            for variant in [false, true] {
                if let Some(expect) = serde_name(rule, id, variant) {
                    cases.push(B { ident: id.clone(), rule, variant, expect });
                }
            }
        }
    }
    const NB: usize = 16;
    let dir = std::path::PathBuf::from("/verif/target/e4/c16_bind");
    let _ = std::fs::remove_dir_all(&dir);
    std::fs::create_dir_all(&dir).unwrap();
    let members: Vec<String> = (0..NB).map(|i| format!("\"bin_{i}\"")).collect();
    std::fs::write(dir.join("Cargo.toml"), format!("[workspace]\nresolver = \"2\"\nmembers = [{}]\n\n[profile.dev]\ndebug = false\nincremental = false\n", members.join(", "))).unwrap();
    let _ = std::fs::copy("/repo/Cargo.lock", dir.join("Cargo.lock"));
    for b in 0..NB {
        let bdir = dir.join(format!("bin_{b}"));
        std::fs::create_dir_all(bdir.join("src")).unwrap();
        std::fs::write(bdir.join("Cargo.toml"), format!("[package]\nname = \"c16_bind_{b}\"\nversion = \"0.1.0\"\nedition = \"2021\"\n\n[dependencies]\nserde = {{ version = \"1\", features = [\"derive\"] }}\nserde_json = \"1\"\n")).unwrap();
        let mut src = String::from("#![allow(non_snake_case, non_camel_case_types, dead_code, uncommon_codepoints, mixed_script_confusables, confusable_idents)]\nuse serde::Serialize;\n");
        let mut main = String::from("fn main() {\n");
        for (i, c) in cases.iter().enumerate().filter(|(i, _)| i % NB == b) {
            let sp = spell(&c.ident).unwrap();
            if c.variant {
                src.push_str(&format!("#[derive(Serialize)]\n#[serde(rename_all = \"{}\")]\nenum T{i} {{ {sp} }}\n", c.rule));
                main.push_str(&format!("    println!(\"{i}\\t{{}}\", serde_json::to_string(&T{i}::{sp}).unwrap());\n"));
            } else {
                src.push_str(&format!("#[derive(Serialize)]\n#[serde(rename_all = \"{}\")]\nstruct T{i} {{ {sp}: u8 }}\n", c.rule));
                main.push_str(&format!("    println!(\"{i}\\t{{}}\", serde_json::to_string(&T{i} {{ {sp}: 0 }}).unwrap());\n"));
            }
        }
        main.push_str("}\n");
        std::fs::write(bdir.join("src/main.rs"), format!("{src}\n{main}")).unwrap();
    }
    let out = Command::new("cargo")
        .args(["build", "--offline", "--quiet", "--workspace", "--message-format", "short"])
        .current_dir(&dir)
        .env("CARGO_TARGET_DIR", "/verif/target/e4/target")
        .env("CARGO_NET_OFFLINE", "true")
        .env("RUSTFLAGS", "-Awarnings -Ccodegen-units=4")
        .output();
    let ok = out.as_ref().map(|o| o.status.success()).unwrap_or(false);
    if !ok {
        let log = out.map(|o| String::from_utf8_lossy(&o.stderr).chars().take(1500).collect::<String>()).unwrap_or_default();
        rep.machinery(format!("serde binding crate does not build (the vendored model claims a name where serde_derive fails?):\n{log}"));
        return;
    }
    let mut judged = 0u64;
    let mut mismatches = 0u64;
    for b in 0..NB {
        let Ok(r) = Command::new(format!("/verif/target/e4/target/debug/c16_bind_{b}")).output() else { continue };
        for l in String::from_utf8_lossy(&r.stdout).lines() {
            let Some((i, json)) = l.split_once('\t') else { continue };
            let Ok(i) = i.parse::<usize>() else { continue };
            let c = &cases[i];
            // struct: {"key":0}   enum: "name"
            let v: serde_json::Value = serde_json::from_str(json).unwrap_or(serde_json::Value::Null);
            let got = if c.variant { v.as_str().map(String::from) } else { v.as_object().and_then(|o| o.keys().next().cloned()) };
            judged += 1;
            if got.as_deref() != Some(c.expect.as_str()) {
                mismatches += 1;
                rep.machinery(format!("vendored case.rs disagrees with compiled serde_derive: {} {} {} -> model {:?}, serde {:?}", c.ident, c.rule, if c.variant { "variant" } else { "field" }, c.expect, got));
            }
        }
    }
    let _ = std::fs::remove_dir_all(&dir);
    if judged != cases.len() as u64 {
        rep.machinery(format!("serde binding: {judged} of {} cases reported", cases.len()));
    }
    rep.cov("oracle_bound_to_compiled_serde_derive", json!({"identifiers": idents.len(), "types_compiled": cases.len(), "compared": judged, "mismatches": mismatches, "serde_derive": "1.0.214 (cargo cache, as in /repo/Cargo.lock)"}));
}
