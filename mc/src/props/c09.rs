//! C09 — every reference to a generated type uses the name the type is defined under.
use super::common::{merge, require_nonvacuous, Acc};
use crate::explore::{explore, Chooser, Mode};
use crate::extract::{Def, OutFile, Payload, TT};
use crate::pipeline::{Cfg, Lang, ALL_LANGS};
use crate::prog::*;
use crate::refmodel::{self, RunFail};
use crate::report::{self, Report, Violation};
use crate::typemodel;
use serde_json::json;
use std::collections::BTreeSet;

const TARGET_KINDS: [&str; 12] = [
    // a container-level rename_all converts the members' names, never the item's own name
    "newtype-with-rename-all", "struct-serialized-as-with-rename-all", "struct-with-rename-all",
    "struct", "generic-struct", "unit-enum", "tagged-enum", "newtype", "alias",
    // item-level decorators that send the definition through another writer of a backend
    "newtype-kotlin-jvminline", "alias-kotlin-jvminline-redacted", "struct-swift-decorated-redacted",
];
const POSITIONS: [&str; 28] = [
    // next to a struct variant that has no members left (its helper type is still referred to)
    "payload-next-to-a-struct-variant-without-members",
    // one type expression that mentions a parameter of the (generic) referrer and the target
    "param-and-target-in-pair-field", "param-and-target-in-map-payload", "param-and-target-in-variant-field", "param-and-target-in-alias",
    "array", "vec-of-array", "slice",
    "field", "vec", "option", "map-value", "generic-arg", "variant-payload", "variant-field", "alias-target", "self-box", "param-field", "param-payload", "param-variant-field", "param-alias",
    // two (or three) separately renamed types inside one type expression
    // a struct variant of an enum with two parameters, the fields mentioning them in the reverse of the declared order
    "two-params-variant-fields-reversed",
    "pair-both-renamed", "map-key-and-value-renamed", "renamed-holder-of-target", "nested-pair-deep", "payload-pair-both-renamed", "alias-pair-both-renamed",
];

#[derive(Clone, Debug)]
pub struct Case {
    pub kind: &'static str,
    pub renamed: bool,
    pub position: &'static str,
    pub referrer_renamed: bool,
    pub lang: Lang,
    pub prefixed: bool,
    /// how the generic parameter of the param-* positions is mentioned
    pub param_carrier: &'static str,
    /// identifier of the struct variant in the *variant-field positions (helper types are named after it)
    pub variant_ident: &'static str,
    /// the serde name of the target when `renamed`
    pub renamed_to: &'static str,
}

const VARIANT_IDENTS: [&str; 5] = ["S", "URL", "Not_Found", "done", "Sv2x"];

const PARAM_CARRIERS: [&str; 8] = ["option", "bare", "vec", "map-key", "map-value", "array", "box", "holder"];

fn carry_param(c: &Case) -> Ty {
    let t = Ty::Param("T".into());
    match c.param_carrier {
        "bare" => t,
        "vec" => Ty::Vec(Box::new(t)),
        "map-key" => Ty::Map(Box::new(t), Box::new(Ty::Prim("u32"))),
        "map-value" => Ty::Map(Box::new(Ty::Prim("String")), Box::new(t)),
        "array" => Ty::Array(Box::new(t), 2),
        "box" => Ty::Ptr("Box", Box::new(t)),
        "holder" => Ty::Generic("Holder".into(), vec![t]),
        _ => Ty::Option(Box::new(t)),
    }
}

pub fn gen(ch: &mut Chooser) -> Case {
    let kind = *ch.pick("target_kind", &TARGET_KINDS);
    let renamed = ch.flag("target_renamed");
    let position = *ch.pick("position", &POSITIONS);
    let referrer_renamed = ch.flag("referrer_renamed");
    let lang = *ch.pick("lang", &ALL_LANGS);
    let prefixed = ch.flag("cfg");
    let param_carrier = if position.starts_with("param-") && position != "param-alias" { *ch.pick("param_carrier", &PARAM_CARRIERS) } else { "option" };
    let variant_ident = if position.ends_with("variant-field") || position == "two-params-variant-fields-reversed" { *ch.pick("variant_ident", &VARIANT_IDENTS) } else { "S" };
    Case { kind, renamed, position, referrer_renamed, lang, prefixed, param_carrier, variant_ident, renamed_to: "TgtRenamed" }
}

/// names on the backend's own list of words it writes in backticks (Swift is the one backend with such a list for types)
const SWIFT_KEYWORD_NAMES: [&str; 6] = ["Any", "Self", "default", "protocol", "in", "self"];

/// names that end in the Pascal form of a configured Go acronym (the all-knobs configuration has ID and URL)
const GO_ACRONYM_NAMES: [&str; 3] = ["AccountId", "ApiUrl", "IdOfUrl"];

fn gen_acronym_named(ch: &mut Chooser) -> Case {
    let renamed_to = *ch.pick("target_emitted_name", &GO_ACRONYM_NAMES);
    let kind = *ch.pick("target_kind", &TARGET_KINDS);
    let position = *ch.pick("position", &POSITIONS);
    let referrer_renamed = ch.flag("referrer_renamed");
    let param_carrier = if position.starts_with("param-") && position != "param-alias" && !position.starts_with("param-and") { *ch.pick("param_carrier", &PARAM_CARRIERS) } else { "option" };
    Case { kind, renamed: true, position, referrer_renamed, lang: Lang::Go, prefixed: true, param_carrier, variant_ident: "S", renamed_to }
}

fn gen_keyword_named(ch: &mut Chooser) -> Case {
    let renamed_to = *ch.pick("target_emitted_name", &SWIFT_KEYWORD_NAMES);
    let kind = *ch.pick("target_kind", &TARGET_KINDS);
    let position = *ch.pick("position", &POSITIONS);
    let referrer_renamed = ch.flag("referrer_renamed");
    let prefixed = ch.flag("cfg");
    Case { kind, renamed: true, position, referrer_renamed, lang: Lang::Swift, prefixed, param_carrier: "option", variant_ident: "S", renamed_to }
}

fn target_item(c: &Case) -> Item {
    let mut it = match c.kind {
        "struct" => Item::strukt("Tgt", vec![Field::new("x", Ty::Prim("u32"))]),
        "generic-struct" => {
            let mut i = Item::strukt("Tgt", vec![Field::new("x", Ty::Param("A".into()))]);
            i.generics = vec!["A".into()];
            i
        }
        "unit-enum" => Item::enumm("Tgt", vec![Variant::new("One", VKind::Unit), Variant::new("Two", VKind::Unit)]),
        "tagged-enum" => Item::enumm("Tgt", vec![Variant::new("One", VKind::Unit), Variant::new("Sv", VKind::Struct(vec![Field::new("x", Ty::Prim("u32"))])), Variant::new("Nt", VKind::Newtype(Ty::Prim("String")))]),
        "newtype" => Item::new("Tgt", IKind::Newtype(Ty::Prim("String"))),
        "newtype-with-rename-all" => {
            let mut i = Item::new("Tgt", IKind::Newtype(Ty::Prim("String")));
            i.rename_all = Some("camelCase".into());
            i
        }
        "struct-serialized-as-with-rename-all" => {
            let mut i = Item::strukt("Tgt", vec![Field::new("some_field", Ty::Prim("u32"))]);
            i.ts_args.push("serialized_as = \"String\"".into());
            i.rename_all = Some("snake_case".into());
            i
        }
        "struct-with-rename-all" => {
            let mut i = Item::strukt("Tgt", vec![Field::new("some_field", Ty::Prim("u32"))]);
            i.rename_all = Some("SCREAMING-KEBAB-CASE".into());
            i
        }
        "newtype-kotlin-jvminline" => {
            let mut i = Item::new("Tgt", IKind::Newtype(Ty::Prim("String")));
            i.ts_args.push("kotlin = \"JvmInline\"".into());
            i
        }
        "alias-kotlin-jvminline-redacted" => {
            let mut i = Item::new("Tgt", IKind::Alias(Ty::Prim("String")));
            i.ts_args.push("kotlin = \"JvmInline\"".into());
            i.ts_args.push("redacted".into());
            i
        }
        "struct-swift-decorated-redacted" => {
            let mut i = Item::strukt("Tgt", vec![Field::new("x", Ty::Prim("u32"))]);
            i.ts_args.push("swift = \"Equatable, Hashable\"".into());
            i.ts_args.push("redacted".into());
            i
        }
        _ => Item::new("Tgt", IKind::Alias(Ty::Prim("String"))),
    };
    if c.renamed {
        it.rename = Some(c.renamed_to.into());
    }
    it
}

fn target_ty(c: &Case) -> Ty {
    if c.kind == "generic-struct" {
        Ty::Generic("Tgt".into(), vec![Ty::Prim("u32")])
    } else {
        Ty::user("Tgt")
    }
}

pub fn program(c: &Case) -> File {
    let t = target_ty(c);
    let mut items = vec![target_item(c)];
    let g = {
        let mut g = Item::strukt("Holder", vec![Field::new("h", Ty::Param("H".into()))]);
        g.generics = vec!["H".into()];
        g
    };
    // a second and a third type that are always serde-renamed
    let snd = {
        // (a struct: a renamed unit enum would run into the Go finding KF-C09-go-unit-enum-original-name at every position)
        let mut i = Item::strukt("Snd", vec![Field::new("k", Ty::Prim("u32"))]);
        i.rename = Some("SndRenamed".into());
        i
    };
    let pair = |renamed: bool| {
        let mut i = Item::strukt("Pair", vec![Field::new("l", Ty::Param("L".into())), Field::new("r", Ty::Param("R".into()))]);
        i.generics = vec!["L".into(), "R".into()];
        if renamed {
            i.rename = Some("PairRenamed".into());
        }
        i
    };
    let pair_of = |a: Ty, b: Ty| Ty::Generic("Pair".into(), vec![a, b]);
    let mut referrer = match c.position {
        "two-params-variant-fields-reversed" => {
            items.push(g.clone());
            let u = Ty::Param("U".into());
            let tp = Ty::Param("T".into());
            let mut i = Item::enumm(
                "Referrer",
                vec![
                    Variant::new(c.variant_ident, VKind::Struct(vec![
                        Field::new("second", Ty::Map(Box::new(Ty::Prim("String")), Box::new(Ty::Vec(Box::new(u.clone()))))),
                        Field::new("first", Ty::Option(Box::new(Ty::Generic("Holder".into(), vec![tp])))),
                        Field::new("again", u),
                        Field::new("r", t),
                    ])),
                    Variant::new("Unit", VKind::Unit),
                ],
            );
            i.generics = vec!["T".into(), "U".into()];
            i
        }
        "payload-next-to-a-struct-variant-without-members" => {
            let mut hidden = Field::new("hidden", Ty::Prim("u32"));
            hidden.skip = Skip::Serde;
            let mut hidden2 = Field::new("hidden_too", Ty::Prim("String"));
            hidden2.skip = Skip::Typeshare;
            Item::enumm("Referrer", vec![Variant::new("Sv", VKind::Struct(vec![hidden, hidden2])), Variant::new("Empty", VKind::Struct(vec![])), Variant::new("P", VKind::Newtype(t)), Variant::new("U", VKind::Unit)])
        }
        "param-and-target-in-pair-field" => {
            items.push(pair(false));
            let mut i = Item::strukt("Referrer", vec![Field::new("both", Ty::Vec(Box::new(pair_of(Ty::Param("T".into()), t.clone())))), Field::new("plain", t)]);
            i.generics = vec!["T".into()];
            i
        }
        "param-and-target-in-map-payload" => {
            items.push(pair(false));
            let mut i = Item::enumm("Referrer", vec![Variant::new("P", VKind::Newtype(Ty::Map(Box::new(Ty::Prim("String")), Box::new(pair_of(t, Ty::Param("T".into())))))), Variant::new("U", VKind::Unit)]);
            i.generics = vec!["T".into()];
            i
        }
        "param-and-target-in-variant-field" => {
            items.push(g.clone());
            items.push(pair(true));
            let mut i = Item::enumm("Referrer", vec![Variant::new(c.variant_ident, VKind::Struct(vec![Field::new("m", Ty::Option(Box::new(pair_of(Ty::Generic("Holder".into(), vec![Ty::Param("T".into())]), Ty::Vec(Box::new(t))))))])), Variant::new("U", VKind::Unit)]);
            i.generics = vec!["T".into()];
            i
        }
        "param-and-target-in-alias" => {
            items.push(pair(false));
            let mut i = Item::new("Referrer", IKind::Alias(Ty::Vec(Box::new(pair_of(t, Ty::Param("T".into()))))));
            i.generics = vec!["T".into()];
            i
        }
        "pair-both-renamed" => {
            items.push(snd);
            items.push(pair(false));
            Item::strukt("Referrer", vec![Field::new("r", pair_of(t, Ty::user("Snd")))])
        }
        "map-key-and-value-renamed" => {
            items.push(snd);
            Item::strukt("Referrer", vec![Field::new("r", Ty::Map(Box::new(Ty::user("Snd")), Box::new(t)))])
        }
        "renamed-holder-of-target" => {
            items.push(snd);
            items.push(pair(true));
            Item::strukt("Referrer", vec![Field::new("r", pair_of(Ty::user("Snd"), t))])
        }
        "nested-pair-deep" => {
            items.push(snd);
            items.push(pair(true));
            Item::strukt("Referrer", vec![Field::new("r", Ty::Vec(Box::new(pair_of(Ty::Option(Box::new(t.clone())), Ty::Vec(Box::new(pair_of(Ty::user("Snd"), t)))))))])
        }
        "payload-pair-both-renamed" => {
            items.push(snd);
            items.push(pair(false));
            Item::enumm("Referrer", vec![Variant::new("P", VKind::Newtype(pair_of(Ty::user("Snd"), t.clone()))), Variant::new("S", VKind::Struct(vec![Field::new("f", pair_of(t, Ty::user("Snd")))]))])
        }
        "alias-pair-both-renamed" => {
            items.push(snd);
            items.push(pair(true));
            Item::new("Referrer", IKind::Alias(pair_of(t, Ty::user("Snd"))))
        }
        "array" => Item::strukt("Referrer", vec![Field::new("r", Ty::Array(Box::new(t), 2))]),
        "vec-of-array" => Item::new("Referrer", IKind::Alias(Ty::Vec(Box::new(Ty::Array(Box::new(t), 3))))),
        "slice" => Item::enumm("Referrer", vec![Variant::new("P", VKind::Newtype(Ty::Slice(Box::new(t)))), Variant::new("U", VKind::Unit)]),
        "field" => Item::strukt("Referrer", vec![Field::new("r", t)]),
        "vec" => Item::strukt("Referrer", vec![Field::new("r", Ty::Vec(Box::new(t)))]),
        "option" => Item::strukt("Referrer", vec![Field::new("r", Ty::Option(Box::new(t)))]),
        "map-value" => Item::strukt("Referrer", vec![Field::new("r", Ty::Map(Box::new(Ty::Prim("String")), Box::new(t)))]),
        "generic-arg" => {
            items.push(g);
            Item::strukt("Referrer", vec![Field::new("r", Ty::Generic("Holder".into(), vec![t]))])
        }
        "variant-payload" => Item::enumm("Referrer", vec![Variant::new("P", VKind::Newtype(t)), Variant::new("U", VKind::Unit)]),
        "variant-field" => Item::enumm("Referrer", vec![Variant::new(c.variant_ident, VKind::Struct(vec![Field::new("r", t)])), Variant::new("U", VKind::Unit)]),
        "alias-target" => Item::new("Referrer", IKind::Alias(Ty::Vec(Box::new(t)))),
        "param-field" => {
            if c.param_carrier == "holder" {
                items.push(g.clone());
            }
            let mut i = Item::strukt("Referrer", vec![Field::new("p", carry_param(c)), Field::new("r", t)]);
            i.generics = vec!["T".into()];
            i
        }
        "param-payload" => {
            if c.param_carrier == "holder" {
                items.push(g.clone());
            }
            let mut i = Item::enumm("Referrer", vec![Variant::new("P", VKind::Newtype(carry_param(c))), Variant::new("Q", VKind::Newtype(t))]);
            i.generics = vec!["T".into()];
            i
        }
        "param-variant-field" => {
            if c.param_carrier == "holder" {
                items.push(g.clone());
            }
            let mut i = Item::enumm("Referrer", vec![Variant::new(c.variant_ident, VKind::Struct(vec![Field::new("p", carry_param(c)), Field::new("r", t)])), Variant::new("U", VKind::Unit)]);
            i.generics = vec!["T".into()];
            i
        }
        "param-alias" => {
            items.push(g);
            let mut i = Item::new("Referrer", IKind::Alias(Ty::Generic("Holder".into(), vec![Ty::Param("T".into())])));
            i.generics = vec!["T".into()];
            items.push(Item::strukt("Other", vec![Field::new("r", t)]));
            i
        }
        _ => {
            // self reference: the referrer refers to itself through Box (and to the target)
            Item::enumm("Referrer", vec![Variant::new("Again", VKind::Newtype(Ty::Ptr("Box", Box::new(Ty::user("Referrer"))))), Variant::new("Leaf", VKind::Newtype(t))])
        }
    };
    if c.referrer_renamed {
        referrer.rename = Some("ReferrerRenamed".into());
    }
    items.push(referrer);
    File::single(items)
}

/// names a definition introduces (incl. nested helper names) and names it refers to
pub struct Names {
    pub defined: Vec<(String, &'static str)>,
    /// (referenced name, site description, defining item)
    pub referenced: Vec<(String, String, String)>,
}

fn tt_names(t: &TT, generics: &[String], lang: Lang, site: &str, owner: &str, out: &mut Vec<(String, String, String)>) {
    let mut v = Vec::new();
    t.names(&mut v);
    for n in v {
        if generics.contains(&n) {
            continue;
        }
        if typemodel::target_prim(lang, &n).is_some() {
            continue;
        }
        if ["Date", "time.Time", "interface{}", "datetime", "Literal", "Union", "Any", "AnyUrl", "CodableVoid", "UByte", "UShort", "UInt", "ULong"].contains(&n.as_str()) {
            continue;
        }
        out.push((n, site.to_string(), owner.to_string()));
    }
}

pub fn collect(out: &OutFile, lang: Lang) -> Names {
    let mut defined = Vec::new();
    let mut referenced = Vec::new();
    for d in &out.defs {
        defined.push((d.name().to_string(), d.kind()));
        match d {
            Def::Struct(s) => {
                for f in &s.fields {
                    tt_names(&f.ty, &s.generics, lang, "field", &s.name, &mut referenced);
                }
            }
            Def::Alias(a) => tt_names(&a.ty, &a.generics, lang, "alias-target", &a.name, &mut referenced),
            Def::Const(k) => tt_names(&k.ty, &[], lang, "const-type", &k.name, &mut referenced),
            Def::Enum(e) => {
                for v in &e.variants {
                    match &v.payload {
                        Payload::None => {}
                        Payload::Type(t, _) => tt_names(t, &e.generics, lang, "variant-payload", &e.name, &mut referenced),
                        Payload::Inner(t) => tt_names(t, &e.generics, lang, "variant-inner-reference", &e.name, &mut referenced),
                        Payload::Inline(fs) => {
                            for f in fs {
                                tt_names(&f.ty, &e.generics, lang, "variant-field", &e.name, &mut referenced);
                            }
                        }
                    }
                    // parent clause of the variant (Kotlin `: Parent()`, Scala `extends Parent`); Go/Python parents are key types, not the enum
                    if matches!(lang, Lang::Kotlin | Lang::Scala) {
                        if let Some(p) = &v.parent {
                            tt_names(p, &e.generics, lang, "variant-parent", &e.name, &mut referenced);
                        }
                    }
                }
            }
        }
    }
    Names { defined, referenced }
}

pub fn check_case(c: &Case, choices: &[u32], acc: &mut Acc) {
    let file = program(c);
    let cfg = if c.prefixed { Cfg::prefixed() } else { Cfg::plain() };
    acc.runs += 1;
    let res = refmodel::run_single(&file, c.lang, &cfg);
    let shape = format!("target={}|renamed={}|pos={}", c.kind, c.renamed as u8, c.position);
    let ok = match res {
        Ok(ok) => ok,
        Err((fail, source)) => {
            if let RunFail::Render(e) = &fail {
                acc.machinery(format!("renderer produced invalid Rust: {e}\n{source}"));
                return;
            }
            // a generic parameter as map key is refused with a clean error by some backends
            if c.param_carrier == "map-key" && matches!(&fail, RunFail::Pipeline(crate::pipeline::Outcome::GenError(_))) {
                acc.count("generic_map_key_refused_cleanly", 1);
                acc.out_of_scope += 1;
                return;
            }
            acc.vios.add(Violation {
                sig: format!("C09|{}|no-output:{}|{shape}", c.lang.name(), fail.class()),
                detail: json!({"choices": choices, "lang": c.lang.name(), "source": source, "failure": fail.describe()}),
            });
            return;
        }
    };
    acc.inputs.insert(report::fnv64(&ok.source));
    if c.renamed || c.referrer_renamed || c.prefixed {
        acc.nontrivial.insert(report::fnv64(&format!("{shape}|{}|{}|{}", c.referrer_renamed, c.prefixed, c.lang.name())));
    }
    let names = collect(&ok.out, c.lang);
    let defined: BTreeSet<&str> = names.defined.iter().map(|d| d.0.as_str()).collect();
    let base = json!({"choices": choices, "lang": c.lang.name(), "prefixed": c.prefixed, "case": format!("{c:?}"), "source": ok.source, "output": ok.text,
        "defined": names.defined.iter().map(|d| d.0.clone()).collect::<Vec<_>>()});
    // (1) every annotated item is defined under prefix + (renamed) name
    for it in &file.items {
        acc.judgements += 1;
        let want = refmodel::type_name(c.lang, &cfg, it);
        // Go with configured acronyms upper-cases them inside names (AccountId -> AccountID): compared without case there
        let acronyms = c.lang == Lang::Go && !cfg.go_uppercase_acronyms.is_empty();
        if !(defined.contains(want.as_str()) || (acronyms && defined.iter().any(|d| d.eq_ignore_ascii_case(&want)))) {
            let role = if it.name == "Tgt" { format!("target:{}", c.kind) } else if it.name == "Referrer" { format!("referrer:{}", c.position) } else { "holder".into() };
            let mut d = base.clone();
            d["expected_definition"] = json!(want);
            acc.vios.add(Violation { sig: format!("C09|{}|definition-name|item={role}|item_renamed={}", c.lang.name(), it.rename.is_some() as u8), detail: d });
        }
    }
    // (2) every reference resolves to a definition of this output
    let mut all_ok = true;
    for (n, site, owner) in &names.referenced {
        acc.judgements += 1;
        // Rust generic parameter names are in scope wherever the backend prints them (declaring them is C10's business)
        if ["T", "A", "H", "U"].contains(&n.as_str()) {
            continue;
        }
        if !defined.contains(n.as_str()) {
            all_ok = false;
            let owner_role = if owner.contains("Tgt") { "target" } else { "referrer" };
            let detail_class = if n.contains("Tgt") {
                format!("to=target|target={}|target_renamed={}", c.kind, c.renamed as u8)
            } else if n.contains("Referrer") {
                format!("to=referrer|referrer_renamed={}", c.referrer_renamed as u8)
            } else {
                format!("to=other:{n}")
            };
            let mut d = base.clone();
            d["dangling_reference"] = json!(n);
            d["site"] = json!(site);
            d["in_definition"] = json!(owner);
            acc.vios.add(Violation { sig: format!("C09|{}|dangling-reference|site={site}|in={owner_role}|{detail_class}", c.lang.name()), detail: d });
        }
    }
    // (3) a reference to a generated helper type instantiates it with the parameters in the helper's declared order
    for d in &ok.out.defs {
        if let Def::Enum(e) = d {
            for v in &e.variants {
                if let Payload::Inner(TT::Name(n, args)) = &v.payload {
                    if let Some(helper) = ok.out.structs().find(|s| &s.name == n) {
                        acc.judgements += 1;
                        let arg_names: Vec<String> = args.iter().map(|a| a.show()).collect();
                        if !helper.generics.is_empty() && arg_names.len() == helper.generics.len() && args.iter().all(|a| matches!(a, TT::Name(_, x) if x.is_empty())) && arg_names != helper.generics {
                            let mut dd = base.clone();
                            dd["helper"] = json!(n);
                            dd["helper_declares"] = json!(helper.generics);
                            dd["reference_passes"] = json!(arg_names);
                            acc.vios.add(Violation { sig: format!("C09|{}|helper-instantiated-with-permuted-parameters|pos={}", c.lang.name(), c.position), detail: dd });
                        }
                    }
                }
            }
        }
    }
    acc.outcomes.insert(report::fnv64(&format!("{}|{all_ok}", c.lang.name())));
    if acc.samples.len() < 2 && c.renamed && c.prefixed && c.position == "generic-arg" {
        acc.sample(json!({"lang": c.lang.name(), "source": ok.source, "defined": names.defined.iter().map(|d| d.0.clone()).collect::<Vec<_>>(), "referenced": names.referenced.iter().map(|r| format!("{} @{} in {}", r.0, r.1, r.2)).collect::<Vec<_>>()}));
    }
}


// ---------- family: the same Rust identifier in two crates (multi-file mode) ----------

const HOMONYM_RENAMES: [&str; 4] = ["none", "only-in-first-crate", "only-in-second-crate", "both-differently"];
const HOMONYM_LINKS: [&str; 3] = ["independent", "second-imports-first-under-alias-free-use", "second-refers-by-qualified-path"];

/// Two crates each define a typeshared `Account`; each refers to its own at several positions. In every generated
/// file the references must resolve inside that file (or, TypeScript / Kotlin, through one of its imports).
fn check_homonym_crates(renames: &'static str, link: &'static str, lang: Lang, prefixed: bool, choices: &[u32], acc: &mut Acc) {
    let (r1, r2) = match renames {
        "only-in-first-crate" => (Some("AccountV1"), None),
        "only-in-second-crate" => (None, Some("AccountV2")),
        "both-differently" => (Some("AccountV1"), Some("AccountV2")),
        _ => (None, None),
    };
    let krate = |tag: &str, rename: Option<&str>, extra_use: &str, extra_field: &str| -> String {
        let r = rename.map(|r| format!("#[serde(rename = \"{r}\")]\n")).unwrap_or_default();
        format!(
            "{extra_use}#[typeshare]\n{r}pub struct Account {{ pub id_{tag}: u32 }}\n\n#[typeshare]\npub struct Ledger{tag} {{ pub main: Account, pub all: Vec<Account>, pub maybe: Option<Account>, pub by_name: HashMap<String, Account>,{extra_field} }}\n\n#[typeshare]\n#[serde(tag = \"type\", content = \"content\")]\npub enum Event{tag} {{ Opened(Account), Moved {{ from: Account, to: Box<Account> }}, Closed }}\n\n#[typeshare]\npub type Accounts{tag} = Vec<Account>;\n"
        )
    };
    // (the linked second crate also refers to a type of the first that is emitted under another name: `Coin`, renamed `Token`)
    let (use2, field2) = match link {
        "second-imports-first-under-alias-free-use" => ("use alpha::LedgerA;\nuse alpha::Coin;\n".to_string(), " pub other: LedgerA, pub coin: Coin, pub coins: Vec<Coin>".to_string()),
        "second-refers-by-qualified-path" => (String::new(), " pub other: alpha::LedgerA, pub coin: alpha::Coin, pub coins: Option<alpha::Coin>".to_string()),
        _ => (String::new(), String::new()),
    };
    let files = vec![
        crate::pipeline::SrcFile { crate_name: "alpha".into(), path: "alpha/src/lib.rs".into(), source: format!("{}\n#[typeshare]\n#[serde(rename = \"Token\")]\npub struct Coin {{ pub c: u32 }}\n", krate("A", r1, "", "")) },
        crate::pipeline::SrcFile { crate_name: "beta".into(), path: "beta/src/lib.rs".into(), source: krate("B", r2, &use2, &field2) },
    ];
    let mut cfg = if prefixed { Cfg::prefixed() } else { Cfg::plain() };
    cfg.multi_file = true;
    acc.runs += 1;
    let key = format!("{renames}|{link}|{prefixed}");
    acc.inputs.insert(report::fnv64(&key));
    acc.nontrivial.insert(report::fnv64(&format!("{key}|{}", lang.name())));
    let o = crate::pipeline::run(&files, lang, &cfg);
    let srcs: Vec<serde_json::Value> = files.iter().map(|f| json!({"crate": f.crate_name, "source": f.source})).collect();
    let outs = match &o {
        crate::pipeline::Outcome::Ok(m) => m.clone(),
        other => {
            acc.vios.add(Violation { sig: format!("C09|{}|two-crates|no-output:{}|renames={renames}|link={link}", lang.name(), other.kind()), detail: json!({"choices": choices, "crates": srcs, "failure": format!("{other:?}").chars().take(400).collect::<String>()}) });
            return;
        }
    };
    for (crate_name, text) in &outs {
        let Ok(of) = crate::extract::extract(lang, text) else {
            acc.out_of_scope += 1; // unparseable output is C10's business
            continue;
        };
        let names = collect(&of, lang);
        let mut visible: BTreeSet<String> = names.defined.iter().map(|d| d.0.clone()).collect();
        for (_, imported) in &of.imports {
            visible.extend(imported.iter().cloned());
        }
        let defined_here: BTreeSet<&str> = names.defined.iter().map(|d| d.0.as_str()).collect();
        for (n, site, owner) in &names.referenced {
            acc.judgements += 1;
            let other_defines = outs.iter().any(|(k, t)| k != crate_name && crate::extract::extract(lang, t).map(|x| x.defs.iter().any(|d| d.name() == n)).unwrap_or(false));
            // a name that is only visible through an import has to be the name of a definition in another generated file
            if visible.contains(n) && (defined_here.contains(n.as_str()) || other_defines) {
                continue;
            }
            // without an import mechanism (Swift, Scala, Go, Python) a name of the other crate's file is visible only
            // where the source really refers to the other crate
            if other_defines && link != "independent" && (n.contains("Ledger") || n.ends_with("Token")) {
                continue;
            }
            acc.vios.add(Violation {
                sig: format!("C09|{}|two-crates|dangling-reference|site={site}|renames={renames}|link={link}|in-crate={crate_name}", lang.name()),
                detail: json!({"choices": choices, "lang": lang.name(), "prefixed": prefixed, "crates": srcs, "file_of_crate": crate_name, "output": text, "dangling_reference": n, "in_definition": owner,
                               "defined_in_this_file": names.defined.iter().map(|d| d.0.clone()).collect::<Vec<_>>(), "imports": of.imports}),
            });
        }
    }
    acc.outcomes.insert(report::fnv64(&format!("{}|{}", lang.name(), outs.len())));
}


// ---------- family: items renamed onto each other's Rust names ----------

/// Programs in which the serde name of one item is the Rust name of another (a versioned type took over the old name):
/// a reference must be rewritten exactly once, to the name its own target is emitted under. In-process (single-file and
/// multi-file pipeline) and through the binary (file output and folder output).
fn renamed_onto_each_other_family(rep: &mut Report) {
    use crate::cli::{self, par_map, run_cli, s, Scratch};
    // (program, source, [(holder field key, expected referenced name)])
    let programs: Vec<(&str, &str, Vec<(&str, &str)>)> = vec![
        (
            "chain",
            "#[typeshare]\n#[serde(rename = \"Item\")]\npub struct ItemV2 { pub v2: u32 }\n\n#[typeshare]\n#[serde(rename = \"LegacyItem\")]\npub struct Item { pub v1: u32 }\n\n#[typeshare]\npub struct Holder { pub fresh: ItemV2, pub old: Item, pub many: Vec<ItemV2>, pub maybe: Option<Item> }\n",
            vec![("fresh", "Item"), ("old", "LegacyItem"), ("many", "Item"), ("maybe", "LegacyItem")],
        ),
        (
            "swap",
            "#[typeshare]\n#[serde(rename = \"Right\")]\npub struct Left { pub l: u32 }\n\n#[typeshare]\n#[serde(rename = \"Left\")]\npub struct Right { pub r: u32 }\n\n#[typeshare]\npub struct Holder { pub one: Left, pub two: Right, pub many: Vec<Left> }\n",
            vec![("one", "Right"), ("two", "Left"), ("many", "Right")],
        ),
        (
            "chain-of-three-enums-and-alias",
            "#[typeshare]\n#[serde(rename = \"B\", tag = \"t\", content = \"c\")]\npub enum A { X(u32), Y }\n\n#[typeshare]\n#[serde(rename = \"C\")]\npub struct B { pub b: u32 }\n\n#[typeshare]\n#[serde(rename = \"D\")]\npub struct C { pub c: u32 }\n\n#[typeshare]\npub struct Holder { pub a: A, pub b: B, pub c: Vec<C> }\n",
            vec![("a", "B"), ("b", "C"), ("c", "D")],
        ),
    ];
    const MODES: [&str; 4] = ["in-process", "in-process-multi-file", "binary-file-output", "binary-folder-output"];
    let mut jobs = Vec::new();
    for (pi, _) in programs.iter().enumerate() {
        for &lang in &ALL_LANGS {
            for mode in MODES {
                if mode.starts_with("binary") && !cli::bin_available() {
                    continue;
                }
                jobs.push((pi, lang, mode));
            }
        }
    }
    let results = par_map(&jobs, report::threads(), |(pi, lang, mode)| -> Result<String, String> {
        let src = programs[*pi].1;
        match *mode {
            "in-process" => refmodel::run_source(src, *lang, &Cfg::plain()).map(|ok| ok.text).map_err(|(f, _)| f.describe()),
            "in-process-multi-file" => refmodel::run_source_in_crate(src, "app", *lang, &{ let mut c = Cfg::plain(); c.multi_file = true; c }).map(|ok| ok.text).map_err(|(f, _)| f.describe()),
            _ => {
                let sc = Scratch::new("c09ren");
                sc.write("ws/app/src/lib.rs", src.as_bytes());
                let mut args = cli::lang_args(*lang);
                let folder = *mode == "binary-folder-output";
                let out = if folder { sc.mkdir("out") } else { sc.path(&format!("types.{}", lang.ext())) };
                args.extend([s(if folder { "-d" } else { "-o" }), out.to_string_lossy().into_owned(), sc.path("ws").to_string_lossy().into_owned()]);
                let r = run_cli(&args, &sc.root, &[], cli::TIMEOUT);
                if r.class() != "ok" {
                    return Err(format!("{}: {}", r.class(), r.stderr.chars().take(300).collect::<String>()));
                }
                if folder {
                    let snap = cli::snapshot(&out);
                    snap.iter().find(|(k, _)| k.to_lowercase().contains("app")).map(|(_, v)| String::from_utf8_lossy(v).into_owned()).ok_or_else(|| format!("no file for crate app among {:?}", snap.keys().collect::<Vec<_>>()))
                } else {
                    std::fs::read_to_string(&out).map_err(|e| e.to_string())
                }
            }
        }
    });
    let mut judged = 0u64;
    let mut outcomes = BTreeSet::new();
    for ((pi, lang, mode), res) in jobs.iter().zip(results.iter()) {
        let (pname, src, expect) = &programs[*pi];
        let text = match res {
            Ok(t) => t,
            Err(e) => {
                rep.vios.add(Violation { sig: format!("C09|{}|renamed-onto-each-other|{pname}|{mode}|no-output", lang.name()), detail: json!({"source": src, "mode": mode, "failure": e}) });
                continue;
            }
        };
        let of = match crate::extract::extract(*lang, text) {
            Ok(of) => of,
            Err(e) => {
                rep.vios.add(Violation { sig: format!("C09|{}|renamed-onto-each-other|{pname}|{mode}|output-unreadable", lang.name()), detail: json!({"source": src, "mode": mode, "output": text, "reader": e.msg()}) });
                continue;
            }
        };
        let names = collect(&of, *lang);
        let Some(holder) = of.structs().find(|st| st.name == "Holder") else {
            rep.vios.add(Violation { sig: format!("C09|{}|renamed-onto-each-other|{pname}|{mode}|holder-missing", lang.name()), detail: json!({"source": src, "mode": mode, "output": text}) });
            continue;
        };
        for (key, want) in expect {
            judged += 1;
            let got: Vec<String> = holder
                .fields
                .iter()
                .find(|f| f.wire == *key)
                .map(|f| {
                    let mut v = Vec::new();
                    tt_names(&f.ty, &holder.generics, *lang, "field", "Holder", &mut v);
                    v.into_iter().map(|x| x.0).collect()
                })
                .unwrap_or_default();
            let defined = names.defined.iter().any(|d| d.0 == *want);
            outcomes.insert(format!("{}|{}", lang.name(), got == vec![want.to_string()]));
            if got != vec![want.to_string()] || !defined {
                rep.vios.add(Violation {
                    sig: format!("C09|{}|renamed-onto-each-other|{pname}|{mode}|field={key}|{}", lang.name(), if !defined { "target-definition-missing" } else { "reference-names-another-item" }),
                    detail: json!({"source": src, "mode": mode, "output": text, "field": key, "expected_reference": want, "observed_reference": got, "defined": names.defined.iter().map(|d| d.0.clone()).collect::<Vec<_>>()}),
                });
            }
        }
    }
    rep.cov_add("evaluations", judged);
    rep.cov_add("traces_validated_against_impl", jobs.len() as u64);
    rep.cov("family_renamed_onto_each_other", json!({"programs": programs.iter().map(|p| p.0).collect::<Vec<_>>(), "modes": MODES, "languages": 6, "runs": jobs.len(), "judgements": judged, "distinct_outcomes": outcomes.len(),
        "oracle": "each Holder field names exactly the item its Rust type is emitted as (the rename applied once), and that definition exists"}));
}

fn controls(rep: &mut Report) {
    let canned = "typealias PAliasO = String\n\n@Serializable\ndata class PRef (\n\tval r: PAliasR\n)\n";
    match crate::extract::extract(Lang::Kotlin, canned) {
        Ok(of) => {
            let n = collect(&of, Lang::Kotlin);
            if !(n.defined.iter().any(|d| d.0 == "PAliasO") && n.referenced.iter().any(|r| r.0 == "PAliasR")) {
                rep.machinery("control: dangling reference in canned Kotlin text not seen");
            }
        }
        Err(e) => rep.machinery(format!("control: canned Kotlin rejected: {}", e.msg())),
    }
}

pub fn run(args: &[String]) -> i32 {
    let tier = report::tier_from_env(args);
    let mut rep = Report::new("C09", &tier);
    controls(&mut rep);
    let (accs, stats) = explore(
        |ch| {
            gen(ch);
        },
        |ch, acc: &mut Acc| {
            let c = gen(ch);
            check_case(&c, &ch.choices(), acc);
        },
        Mode::Product,
        3,
        report::threads(),
        u64::MAX,
    );
    {
        let (accs, stats) = explore(
            |ch| {
                gen_keyword_named(ch);
            },
            |ch, acc: &mut Acc| {
                let c = gen_keyword_named(ch);
                check_case(&c, &ch.choices(), acc);
            },
            Mode::Product,
            2,
            report::threads(),
            u64::MAX,
        );
        let (accs2, stats2) = explore(
            |ch| {
                gen_acronym_named(ch);
            },
            |ch, acc: &mut Acc| {
                let c = gen_acronym_named(ch);
                // a renamed unit enum is declared under its Rust name by the Go backend: the known finding
                // KF-C09-go-unit-enum-original-name, judged (and listed) in the main family
                if c.kind == "unit-enum" {
                    acc.out_of_scope += 1;
                    return;
                }
                check_case(&c, &ch.choices(), acc);
            },
            Mode::Product,
            2,
            report::threads(),
            u64::MAX,
        );
        merge(&mut rep, "go_acronym_named_targets", accs2, &stats2, json!({"target_emitted_names": GO_ACRONYM_NAMES, "configured_acronyms": ["ID", "URL"], "target_kinds": TARGET_KINDS, "positions": POSITIONS, "generic_parameter_carriers": PARAM_CARRIERS, "language": "go"}));
        merge(&mut rep, "swift_keyword_named_targets", accs, &stats, json!({"target_emitted_names": SWIFT_KEYWORD_NAMES, "target_kinds": TARGET_KINDS, "positions": POSITIONS, "referrer_renamed": [false, true], "language": "swift", "configs": 2}));
    }
    merge(&mut rep, "references", accs, &stats, json!({"target_kinds": TARGET_KINDS, "target_renamed": [false, true], "positions": POSITIONS, "generic_parameter_carriers": PARAM_CARRIERS, "struct_variant_identifiers": VARIANT_IDENTS, "referrer_renamed": [false, true], "languages": 6, "configs": 2}));
    {
        let (accs, stats) = explore(
            |ch| {
                ch.choose("renames", HOMONYM_RENAMES.len());
            },
            |ch, acc: &mut Acc| {
                let renames = *ch.pick("renames", &HOMONYM_RENAMES);
                let link = *ch.pick("link", &HOMONYM_LINKS);
                let lang = *ch.pick("lang", &ALL_LANGS);
                let prefixed = ch.flag("cfg");
                check_homonym_crates(renames, link, lang, prefixed, &ch.choices(), acc);
            },
            Mode::Product,
            1,
            report::threads(),
            u64::MAX,
        );
        merge(&mut rep, "same_identifier_in_two_crates", accs, &stats, json!({"serde_rename": HOMONYM_RENAMES, "link_between_crates": HOMONYM_LINKS, "reference_positions": ["field", "Vec", "Option", "map value", "payload", "struct-variant field", "Box", "alias"], "languages": 6, "configs": 2, "mode": "multi-file"}));
    }
    renamed_onto_each_other_family(&mut rep);
    let amb_k = if rep.thorough() { 3 } else { 2 };
    super::common::ambient_family(&mut rep, "ambient_variations", amb_k + 1, |ch| { gen(ch); }, |ch, acc| {
        let c = gen(ch);
        check_case(&c, &ch.choices(), acc);
    });
    require_nonvacuous(&mut rep);
    rep.cov("rule", json!("full product target kind × serde(rename) on the target × reference position × serde(rename) on the referrer × language × prefix configuration; from the parsed output: Defined = all definition names (incl. helper structs), Referenced = every non-primitive, non-generic-parameter name in a type tree, variant parent clause or Inner reference; Referenced ⊆ Defined and each item is defined as prefix + renamed name. non-trivial = some rename or prefix is in force."));
    rep.assume("names recognised as target-language primitives/builtins are not user references");
    rep.finish()
}
