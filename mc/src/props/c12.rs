//! C12 — every helper name typeshare introduces into a file is defined or imported there.
use super::common::{merge, require_nonvacuous, Acc};
use crate::explore::{explore, Chooser, Mode};
use crate::extract::lex::{self, K};
use crate::pipeline::{Cfg, Lang, Outcome, ALL_LANGS};
use crate::prog::*;
use crate::refmodel::{self, RunFail};
use crate::report::{self, Report, Violation};
use serde_json::json;
use std::collections::BTreeSet;

const TRIGGERS: [&str; 16] = [
    "unit", "u8", "u16", "u32", "U53", "option", "vec", "hashmap", "datetime", "generic-param", "mapped-bytes", "mapped-DateTime", "mapped-Url", "i32", "string", "user",
];
const POSITIONS: [&str; 8] = [
    "struct-field", "newtype-struct", "variant-payload", "variant-field", "alias", "const", "generic-arg",
    // a struct all of whose members are skipped: nothing of the members is needed, whatever the item itself needs still is
    "struct-with-only-skipped-fields",
];
const NEST: [&str; 7] = ["none", "vec", "option", "map-value", "array", "slice", "holder"];

fn trigger_ty(t: &str) -> Ty {
    match t {
        "unit" => Ty::Prim("()"),
        "u8" => Ty::Prim("u8"),
        "u16" => Ty::Prim("u16"),
        "u32" => Ty::Prim("u32"),
        "U53" => Ty::Prim("U53"),
        "i32" => Ty::Prim("i32"),
        "string" => Ty::Prim("String"),
        "option" => Ty::Option(Box::new(Ty::Prim("bool"))),
        "vec" => Ty::Vec(Box::new(Ty::Prim("bool"))),
        "hashmap" => Ty::Map(Box::new(Ty::Prim("String")), Box::new(Ty::Prim("bool"))),
        "datetime" => Ty::Raw("OffsetDateTime".into()),
        "generic-param" => Ty::Param("T".into()),
        "mapped-bytes" => Ty::Vec(Box::new(Ty::Prim("u8"))),
        "mapped-DateTime" => Ty::user("DateTime"),
        "mapped-Url" => Ty::user("Url"),
        _ => Ty::user("User"),
    }
}

fn nest(n: &str, t: Ty) -> Ty {
    match n {
        "vec" => Ty::Vec(Box::new(t)),
        "option" => Ty::Option(Box::new(t)),
        "map-value" => Ty::Map(Box::new(Ty::Prim("String")), Box::new(t)),
        "array" => Ty::Array(Box::new(t), 2),
        "slice" => Ty::Slice(Box::new(t)),
        "holder" => Ty::Generic("Holder".into(), vec![t]),
        _ => t,
    }
}

#[derive(Clone, Debug)]
pub struct Case {
    pub triggers: Vec<&'static str>,
    pub nesting: Vec<&'static str>,
    pub position: &'static str,
    pub field_default: bool,
    pub field_dashed: bool,
    pub lang: Lang,
    /// `#[typeshare(<language>(type = "Xt"))]` on the first field: a type override for one language must not
    /// change what the other languages' helper bookkeeping sees
    pub field_override: Option<Lang>,
}

fn full_ty(c: &Case, i: usize) -> Ty {
    let mut t = trigger_ty(c.triggers[i]);
    for n in c.nesting.iter().rev() {
        t = nest(n, t);
    }
    t
}

thread_local! {
    /// 0: plain configuration; 1: every naming knob on (type prefix …) and, next to the program, user types whose Rust
    /// names are the names of the backends' own helpers (`CodableVoid`, `ReviverFunc`, `UByte`): under a prefix there is
    /// no collision, and the helper bookkeeping must not take them for the helpers
    static HELPER_HOMONYMS: std::cell::Cell<u8> = const { std::cell::Cell::new(0) };
}

pub fn cfg_of(c: &Case) -> Cfg {
    let mut cfg = if HELPER_HOMONYMS.with(|m| m.get()) == 1 { Cfg::prefixed() } else { Cfg::plain() };
    for t in &c.triggers {
        match (*t, c.lang) {
            ("mapped-bytes", Lang::TypeScript) => cfg.type_mappings.push(("Vec<u8>".into(), "Uint8Array".into())),
            ("mapped-bytes", Lang::Python) => cfg.type_mappings.push(("Vec<u8>".into(), "bytes".into())),
            ("mapped-bytes", Lang::Go) => cfg.type_mappings.push(("Vec<u8>".into(), "[]byte".into())),
            ("mapped-DateTime", Lang::TypeScript) => cfg.type_mappings.push(("DateTime".into(), "Date".into())),
            ("mapped-DateTime", Lang::Python) => cfg.type_mappings.push(("DateTime".into(), "datetime".into())),
            ("mapped-DateTime", Lang::Go) => cfg.type_mappings.push(("DateTime".into(), "string".into())),
            ("mapped-DateTime", _) => cfg.type_mappings.push(("DateTime".into(), "String".into())),
            ("mapped-Url", Lang::Python) => cfg.type_mappings.push(("Url".into(), "AnyUrl".into())),
            ("mapped-Url", Lang::TypeScript) => cfg.type_mappings.push(("Url".into(), "string".into())),
            ("mapped-Url", Lang::Go) => cfg.type_mappings.push(("Url".into(), "string".into())),
            ("mapped-Url", _) => cfg.type_mappings.push(("Url".into(), "String".into())),
            _ => {}
        }
    }
    cfg.type_mappings.sort();
    cfg.type_mappings.dedup();
    cfg
}

pub fn program(c: &Case) -> File {
    let generic = c.triggers.contains(&"generic-param");
    let mut items = vec![Item::strukt("User", vec![Field::new("u", Ty::Prim("bool"))])];
    let mut holder = Item::strukt("Holder", vec![Field::new("h", Ty::Param("H".into()))]);
    holder.generics = vec!["H".into()];
    items.push(holder);
    if HELPER_HOMONYMS.with(|m| m.get()) == 1 && matches!(c.lang, Lang::Swift | Lang::Kotlin) {
        // (only the backends with a type prefix: elsewhere such a name would really collide with the helper)
        items.push(Item::strukt("CodableVoid", vec![Field::new("z", Ty::Prim("bool"))]));
        items.push(Item::new("CodableVoidAlias", IKind::Alias(Ty::user("CodableVoid"))));
    }
    let tys: Vec<Ty> = (0..c.triggers.len()).map(|i| full_ty(c, i)).collect();
    let mk_fields = |tys: &[Ty]| -> Vec<Field> {
        tys.iter()
            .enumerate()
            .map(|(i, t)| {
                let mut f = Field::new(&format!("f{i}"), t.clone());
                if i == 0 && c.field_default {
                    f.default = DefaultKind::Bare;
                }
                if i == 0 && c.field_dashed {
                    f.rename = Some("dashed-key".into());
                }
                if let (0, Some(l)) = (i, c.field_override) {
                    f.ts_args.push(format!("{}(type = \"Xt\")", l.name()));
                }
                f
            })
            .collect()
    };
    let push = |mut it: Item, items: &mut Vec<Item>| {
        if generic {
            it.generics = vec!["T".into()];
        }
        items.push(it);
    };
    match c.position {
        "struct-field" => push(Item::strukt("Outer", mk_fields(&tys)), &mut items),
        "struct-with-only-skipped-fields" => {
            let mut fs = mk_fields(&tys);
            for (i, f) in fs.iter_mut().enumerate() {
                f.skip = if i % 2 == 0 { Skip::Serde } else { Skip::Typeshare };
            }
            push(Item::strukt("Outer", fs), &mut items);
            // the (possibly generic) item is also referred to
            if generic {
                items.push(Item::strukt("UsesOuter", vec![Field::new("o", Ty::Generic("Outer".into(), vec![Ty::Prim("u32")]))]));
            } else {
                items.push(Item::strukt("UsesOuter", vec![Field::new("o", Ty::user("Outer"))]));
            }
        }
        "newtype-struct" => {
            for (i, t) in tys.iter().enumerate() {
                push(Item::new(&format!("Outer{i}"), IKind::Newtype(t.clone())), &mut items);
            }
        }
        "variant-payload" => {
            let vs = tys.iter().enumerate().map(|(i, t)| Variant::new(&format!("V{i}"), VKind::Newtype(t.clone()))).chain([Variant::new("U", VKind::Unit)]).collect();
            push(Item::enumm("Outer", vs), &mut items)
        }
        "variant-field" => push(Item::enumm("Outer", vec![Variant::new("Sv", VKind::Struct(mk_fields(&tys))), Variant::new("U", VKind::Unit)]), &mut items),
        "alias" => {
            for (i, t) in tys.iter().enumerate() {
                push(Item::new(&format!("Outer{i}"), IKind::Alias(t.clone())), &mut items);
            }
        }
        "const" => {
            for (i, t) in tys.iter().enumerate() {
                items.push(Item::new(&format!("OUTER{i}"), IKind::Const { ty: t.clone(), expr: "1".into() }));
            }
        }
        _ => push(Item::strukt("Outer", vec![Field::new("g", Ty::Generic("Holder".into(), vec![tys[0].clone()]))]), &mut items),
    }
    File::single(items)
}

/// (used helper names, defined-or-imported helper names)
pub fn helper_usage(lang: Lang, text: &str, extra_vocab: &[&str]) -> Result<(BTreeSet<String>, BTreeSet<String>), String> {
    let toks = lex::lex(lang, text).map_err(|e| e.msg)?;
    let code: Vec<&lex::Tok> = toks.iter().filter(|t| t.k != K::Comment).collect();
    let mut used = BTreeSet::new();
    let mut defined = BTreeSet::new();
    match lang {
        Lang::Swift => {
            for (i, t) in code.iter().enumerate() {
                if t.k == K::Ident && t.text == "CodableVoid" {
                    if i > 0 && code[i - 1].text == "struct" {
                        defined.insert("CodableVoid".to_string());
                    } else {
                        used.insert("CodableVoid".to_string());
                    }
                }
            }
        }
        Lang::Scala => {
            for (i, t) in code.iter().enumerate() {
                if t.k == K::Ident && ["UByte", "UShort", "UInt", "ULong"].contains(&t.text.as_str()) {
                    if i > 0 && code[i - 1].text == "type" {
                        defined.insert(t.text.clone());
                    } else {
                        used.insert(t.text.clone());
                    }
                }
            }
        }
        Lang::Go => {
            // imports
            let mut i = 0;
            while i < code.len() {
                if code[i].k == K::Ident && code[i].text == "import" {
                    let mut j = i + 1;
                    if j < code.len() && code[j].text == "(" {
                        j += 1;
                        while j < code.len() && code[j].text != ")" {
                            if code[j].k == K::Str {
                                defined.insert(code[j].text.rsplit('/').next().unwrap_or("").to_string());
                            }
                            j += 1;
                        }
                    } else {
                        while j < code.len() && code[j].k == K::Newline {
                            j += 1;
                        }
                        if j < code.len() && code[j].k == K::Str {
                            defined.insert(code[j].text.rsplit('/').next().unwrap_or("").to_string());
                        }
                    }
                    i = j;
                }
                i += 1;
            }
            for (i, t) in code.iter().enumerate() {
                if t.k == K::Ident && ["time", "json"].contains(&t.text.as_str()) && i + 2 < code.len() && code[i + 1].text == "." && code[i + 2].k == K::Ident {
                    // not a field access on a receiver: previous token is not '.'
                    if i == 0 || code[i - 1].text != "." {
                        used.insert(t.text.clone());
                    }
                }
            }
        }
        Lang::TypeScript => {
            for (i, t) in code.iter().enumerate() {
                if t.k == K::Ident && (t.text == "ReviverFunc" || t.text == "ReplacerFunc") && i > 0 && code[i - 1].text == "const" {
                    defined.insert(t.text.clone());
                }
            }
            // the two helpers come as a pair
            if defined.len() == 1 {
                used.insert("ReviverFunc".to_string());
                used.insert("ReplacerFunc".to_string());
            }
            // Uint8Array (the mapped byte vector) anywhere in the declarations needs both helpers: JSON carries it as a
            // number array and the helpers are value-based. (Date is revived by field key, so typeshare emits its helper
            // only for direct fields by design; nothing is demanded for Date beyond the pair rule.)
            if code.iter().any(|t| t.k == K::Ident && t.text == "Uint8Array") {
                used.insert("ReviverFunc".to_string());
                used.insert("ReplacerFunc".to_string());
            }
            // a member whose whole type is Date — `key: Date;`, `key?: Date;`, `key?: Date | null;` — is one of those
            // direct fields: it is revived by its key, so the pair has to be there
            for i in 0..code.len() {
                if code[i].k == K::Punct && code[i].text == ":" && code.get(i + 1).map(|t| t.k == K::Ident && t.text == "Date").unwrap_or(false) {
                    let after: Vec<&str> = code[i + 2..].iter().take(3).map(|t| t.text.as_str()).collect();
                    let whole = after.first() == Some(&";") || (after.len() == 3 && after[0] == "|" && after[1] == "null" && after[2] == ";");
                    if whole {
                        used.insert("ReviverFunc".to_string());
                        used.insert("ReplacerFunc".to_string());
                    }
                }
            }
        }
        Lang::Python => {
            let vocab: Vec<&str> = [
                "List", "Dict", "Optional", "Union", "Literal", "Generic", "TypeVar", "Annotated", "BaseModel", "Field", "ConfigDict", "BeforeValidator", "PlainSerializer",
                "AnyUrl", "Enum", "datetime", "serialize_binary_data", "deserialize_binary_data", "serialize_datetime_data", "parse_rfc3339",
            ]
            .into_iter()
            .chain(extra_vocab.iter().copied())
            .collect();
            // split in logical lines by Newline tokens (outside brackets)
            let mut line: Vec<&lex::Tok> = Vec::new();
            let mut lines: Vec<Vec<&lex::Tok>> = Vec::new();
            let mut depth = 0;
            for t in &code {
                if t.k == K::Newline && depth == 0 {
                    if !line.is_empty() {
                        lines.push(std::mem::take(&mut line));
                    }
                    continue;
                }
                if t.k == K::Punct && ["(", "[", "{"].contains(&t.text.as_str()) {
                    depth += 1;
                }
                if t.k == K::Punct && [")", "]", "}"].contains(&t.text.as_str()) {
                    depth -= 1;
                }
                if t.k != K::Newline {
                    line.push(t);
                }
            }
            if !line.is_empty() {
                lines.push(line);
            }
            let mut in_helper_def = false;
            for l in &lines {
                let first = l[0];
                if first.col == 0 {
                    in_helper_def = false;
                }
                if first.k == K::Ident && first.text == "from" {
                    if let Some(p) = l.iter().position(|t| t.k == K::Ident && t.text == "import") {
                        for t in &l[p + 1..] {
                            if t.k == K::Ident {
                                defined.insert(t.text.clone());
                            }
                        }
                    }
                    continue;
                }
                if first.k == K::Ident && first.text == "def" && first.col == 0 {
                    if let Some(n) = l.get(1) {
                        defined.insert(n.text.clone());
                    }
                    in_helper_def = true;
                    // the signature itself uses names (datetime, bytes…)
                    for t in &l[2..] {
                        if t.k == K::Ident && vocab.contains(&t.text.as_str()) {
                            used.insert(t.text.clone());
                        }
                    }
                    continue;
                }
                if in_helper_def {
                    for t in l.iter() {
                        if t.k == K::Ident && vocab.contains(&t.text.as_str()) {
                            used.insert(t.text.clone());
                        }
                    }
                    continue;
                }
                // X = TypeVar("X")
                if l.len() >= 3 && l[1].text == "=" && l[2].text == "TypeVar" {
                    defined.insert(first.text.clone());
                    used.insert("TypeVar".to_string());
                    continue;
                }
                for (i, t) in l.iter().enumerate() {
                    if t.k == K::Ident && vocab.contains(&t.text.as_str()) {
                        // attribute names / keyword arguments are not uses (`default=None`)
                        let is_kw = l.get(i + 1).map(|n| n.text == "=").unwrap_or(false) && i > 0 && (l[i - 1].text == "(" || l[i - 1].text == ",");
                        let is_attr = i > 0 && l[i - 1].text == ".";
                        let is_decl_name = i == 0 && l.get(1).map(|n| n.text == ":" || n.text == "=").unwrap_or(false);
                        if !is_kw && !is_attr && !is_decl_name {
                            used.insert(t.text.clone());
                        }
                    }
                }
            }
        }
        Lang::Kotlin => {
            // Serializable / SerialName annotations need the kotlinx imports when a package header is written
            for (i, t) in code.iter().enumerate() {
                if t.k == K::Ident && ["Serializable", "SerialName", "JvmInline"].contains(&t.text.as_str()) {
                    if i > 0 && code[i - 1].text == "@" {
                        if t.text != "JvmInline" {
                            used.insert(t.text.clone());
                        }
                    } else if i > 0 && code[i - 1].text == "." {
                        defined.insert(t.text.clone());
                    }
                }
            }
        }
    }
    Ok((used, defined))
}

pub fn check_case(c: &Case, choices: &[u32], acc: &mut Acc) {
    // positions that cannot hold the trigger are skipped
    if c.position == "const" && (!c.nesting.is_empty() || !matches!(c.lang, Lang::TypeScript | Lang::Go | Lang::Python) || c.triggers.iter().any(|t| matches!(*t, "option" | "vec" | "hashmap" | "generic-param" | "mapped-bytes"))) {
        acc.out_of_scope += 1;
        return;
    }
    if c.triggers.iter().any(|t| *t == "mapped-bytes") && !matches!(c.lang, Lang::TypeScript | Lang::Go | Lang::Python) {
        acc.out_of_scope += 1;
        return;
    }
    let file = program(c);
    let cfg = cfg_of(c);
    acc.runs += 1;
    let res = refmodel::run_single(&file, c.lang, &cfg);
    let trig = c.triggers.join("+");
    let depth = c.nesting.len();
    let ok = match res {
        Ok(ok) => ok,
        Err((fail, source)) => {
            match &fail {
                RunFail::Render(e) => {
                    acc.machinery(format!("renderer produced invalid Rust: {e}\n{source}"));
                    return;
                }
                // clean refusals: OffsetDateTime in Kotlin/Swift/Scala, generic map keys …
                RunFail::Pipeline(Outcome::GenError(_)) => {
                    acc.count("clean_generation_errors", 1);
                    acc.out_of_scope += 1;
                    return;
                }
                // the output exists but is not parseable: C10's business, not a missing helper
                RunFail::Extract { .. } => {
                    acc.count("unparseable_outputs_left_to_C10", 1);
                    acc.out_of_scope += 1;
                    return;
                }
                _ => {}
            }
            acc.vios.add(Violation {
                sig: format!("C12|{}|no-output:{}|trigger={trig}|pos={}", c.lang.name(), fail.class(), c.position),
                detail: json!({"choices": choices, "lang": c.lang.name(), "source": source, "failure": fail.describe()}),
            });
            return;
        }
    };
    acc.inputs.insert(report::fnv64(&format!("{}|{:?}", ok.source, cfg.type_mappings)));
    acc.judgements += 1;
    let (used, defined) = match helper_usage(c.lang, &ok.text, &["T", "H"]) {
        Ok(x) => x,
        Err(e) => {
            acc.machinery(format!("helper scan failed: {e}"));
            return;
        }
    };
    if !used.is_empty() {
        acc.nontrivial.insert(report::fnv64(&format!("{}|{}|{:?}|{}|{:?}", trig, c.position, c.nesting, c.lang.name(), used)));
    }
    let missing: Vec<&String> = used.iter().filter(|u| !defined.contains(*u)).collect();
    acc.outcomes.insert(report::fnv64(&format!("{}|{:?}|{}", c.lang.name(), used, missing.is_empty())));
    for m in &missing {
        acc.vios.add(Violation {
            sig: format!("C12|{}|helper-undefined:{m}|trigger={}|pos={}|nested={}|default={}", c.lang.name(), if c.triggers.len() == 1 { trig.as_str() } else { "pair" }, c.position, (depth > 0) as u8, c.field_default as u8),
            detail: json!({"choices": choices, "lang": c.lang.name(), "helper": m, "used": used, "defined_or_imported": defined, "rust_types": (0..c.triggers.len()).map(|i| full_ty(c, i).render()).collect::<Vec<_>>(),
                           "position": c.position, "source": ok.source, "output": ok.text}),
        });
    }
    if acc.samples.len() < 2 && used.len() >= 3 {
        acc.sample(json!({"lang": c.lang.name(), "rust_type": full_ty(c, 0).render(), "position": c.position, "helpers_used": used, "defined_or_imported": defined}));
    }
}

fn gen_single(ch: &mut Chooser, max_depth: usize) -> Case {
    let trigger = *ch.pick("trigger", &TRIGGERS);
    let position = *ch.pick("position", &POSITIONS);
    let depth = ch.choose("depth", max_depth + 1);
    let nesting: Vec<&'static str> = (0..depth).map(|_| NEST[1 + ch.choose("nest", NEST.len() - 1)]).collect();
    let field_default = position.ends_with("field") && ch.flag("serde_default");
    let field_dashed = position.ends_with("field") && ch.flag("dashed_rename");
    let lang = *ch.pick("lang", &ALL_LANGS);
    let field_override = if position.ends_with("field") {
        match ch.choose("type_override_for", ALL_LANGS.len() + 1) {
            0 => None,
            k => Some(ALL_LANGS[k - 1]),
        }
    } else {
        None
    };
    Case { triggers: vec![trigger], nesting, position, field_default, field_dashed, lang, field_override }
}

fn gen_pair(ch: &mut Chooser) -> Case {
    let a = ch.choose("trigger_a", TRIGGERS.len());
    let b = ch.choose("trigger_b", TRIGGERS.len());
    let position = *ch.pick("position", &POSITIONS[..5]);
    let nesting: Vec<&'static str> = if ch.flag("nested") { vec![NEST[1 + ch.choose("nest", NEST.len() - 1)]] } else { vec![] };
    let lang = *ch.pick("lang", &ALL_LANGS);
    Case { triggers: vec![TRIGGERS[a], TRIGGERS[b]], nesting, position, field_default: false, field_dashed: false, lang, field_override: None }
}

/// Multi-file mode on the real binary: k crates, each with one trigger at one position, every assignment.
/// A helper used in a crate's file must be defined/imported in that file or, for Swift, in the shared Codable.swift
/// of the same output folder. State that a backend carries from one file to the next is what this family is after.
fn multi_file_family(rep: &mut Report) {
    use crate::cli::{self, par_map, run_cli, s, Scratch};
    if !cli::bin_available() {
        rep.machinery(format!("hooks-on CLI binary missing at {}", cli::BIN));
        return;
    }
    const MENU: [&str; 8] = ["string", "unit", "u32", "option", "generic-param", "mapped-DateTime", "hashmap", "mapped-bytes"];
    const POS: [&str; 3] = ["struct-field", "variant-payload", "alias"];
    const CRATES: [&str; 3] = ["c1_alpha", "c2_beta", "c3_gamma"];
    #[derive(Clone)]
    struct Job {
        lang: Lang,
        picks: Vec<(usize, usize)>,
    }
    let thorough = rep.thorough();
    let mut jobs = Vec::new();
    for &lang in &ALL_LANGS {
        for k in 2..=3usize {
            let per = MENU.len() * POS.len();
            let total = per.pow(k as u32);
            for code in 0..total {
                let mut c = code;
                let mut picks = Vec::new();
                for _ in 0..k {
                    picks.push(((c % per) / POS.len(), (c % per) % POS.len()));
                    c /= per;
                }
                // quick: with three crates only the struct-field position
                if !thorough && k == 3 && picks.iter().any(|p| p.1 != 0) {
                    continue;
                }
                jobs.push(Job { lang, picks });
            }
        }
    }
    struct Obs {
        class: &'static str,
        stderr: String,
        sources: Vec<(String, String)>,
        outputs: std::collections::BTreeMap<String, String>,
        argv: Vec<String>,
    }
    let results = par_map(&jobs, report::threads(), |j| {
        let sc = Scratch::new("c12");
        let mut mappings: Vec<(String, String)> = Vec::new();
        let mut sources = Vec::new();
        for (i, (t, p)) in j.picks.iter().enumerate() {
            let c = Case { triggers: vec![MENU[*t]], nesting: vec![], position: POS[*p], field_default: false, field_dashed: false, lang: j.lang, field_override: None };
            mappings.extend(cfg_of(&c).type_mappings);
            let tag = ["A", "B", "C"][i];
            // only what the trigger needs: a crate without generics / helpers must really be without them
            let mut file = program(&c);
            file.items.retain(|it| it.name.starts_with("Outer") || it.name.starts_with("OUTER") || (it.name == "User" && MENU[*t] == "user") || (it.name == "Holder" && POS[*p] == "generic-arg"));
            let src = render_file(&file).replace("Outer", &format!("Outer{tag}")).replace("User", &format!("User{tag}")).replace("Holder", &format!("Holder{tag}"));
            let rel = format!("ws/{}/src/lib.rs", CRATES[i]);
            sc.write(&rel, src.as_bytes());
            sources.push((rel, src));
        }
        mappings.sort();
        mappings.dedup();
        let mut args = cli::lang_args(j.lang);
        if !mappings.is_empty() {
            let toml = format!("[{}.type_mappings]\n{}", j.lang.name(), mappings.iter().map(|(k, v)| format!("{k:?} = {v:?}\n")).collect::<String>());
            let p = sc.write("typeshare.toml", toml.as_bytes());
            args.extend([s("-c"), p.to_string_lossy().into_owned()]);
        }
        sc.mkdir("out");
        args.extend([s("-d"), sc.path("out").to_string_lossy().into_owned(), sc.path("ws").to_string_lossy().into_owned()]);
        let r = run_cli(&args, &sc.root, &[], std::time::Duration::from_secs(20));
        let outputs = cli::snapshot(&sc.path("out")).into_iter().map(|(k, v)| (k, String::from_utf8_lossy(&v).into_owned())).collect();
        Obs { class: r.class(), stderr: r.stderr.chars().take(600).collect(), sources, outputs, argv: args }
    });
    let mut judged = 0u64;
    let mut nontrivial = BTreeSet::new();
    let mut refused = 0u64;
    for (j, o) in jobs.iter().zip(results.iter()) {
        let label = j.picks.iter().map(|(t, p)| format!("{}@{}", MENU[*t], POS[*p])).collect::<Vec<_>>().join(",");
        let detail = |what: String| json!({"argv": o.argv, "lang": j.lang.name(), "crates": o.sources.iter().map(|(p, s)| json!({"path": p, "source": s})).collect::<Vec<_>>(), "outputs": o.outputs, "stderr": o.stderr, "observation": what});
        if o.class != "ok" {
            // a clean refusal of the whole run (e.g. generic alias in Go) is not a missing helper
            if o.class == "error" {
                refused += 1;
                continue;
            }
            rep.vios.add(Violation { sig: format!("C12|{}|multi-file|run-{}|{label}", j.lang.name(), o.class), detail: detail("the run did not finish normally".into()) });
            continue;
        }
        let shared_defined: BTreeSet<String> = match (j.lang, o.outputs.get("Codable.swift")) {
            (Lang::Swift, Some(t)) => helper_usage(Lang::Swift, t, &[]).map(|x| x.1).unwrap_or_default(),
            _ => BTreeSet::new(),
        };
        for (name, text) in &o.outputs {
            if name == "Codable.swift" {
                continue;
            }
            judged += 1;
            let (used, defined) = match helper_usage(j.lang, text, &["T", "H"]) {
                Ok(x) => x,
                Err(_) => continue, // unparseable output is C10's business
            };
            if !used.is_empty() {
                nontrivial.insert(report::fnv64(&format!("{}|{label}|{name}", j.lang.name())));
            }
            for m in used.iter().filter(|u| !defined.contains(*u) && !shared_defined.contains(*u)) {
                let idx = CRATES.iter().position(|c| name.to_lowercase().starts_with(&c.replace('_', "").to_lowercase()) || name.starts_with(c));
                let (own, place) = match idx {
                    Some(i) if i < j.picks.len() => (format!("trigger={}|pos={}", MENU[j.picks[i].0], POS[j.picks[i].1]), if i + 1 == j.picks.len() { "last" } else { "not-last" }),
                    _ => ("trigger=?".to_string(), "?"),
                };
                rep.vios.add(Violation {
                    sig: format!("C12|{}|multi-file|helper-undefined:{m}|{own}|crate-is-{place}", j.lang.name()),
                    detail: detail(format!("{name} uses {m}; it is neither defined/imported there nor in a shared helper file (files written: {:?}); crates: {label}", o.outputs.keys().collect::<Vec<_>>())),
                });
            }
        }
    }
    rep.cov("multi_file", json!({"process_runs": jobs.len(), "output_files_judged": judged, "files_with_helpers_in_use": nontrivial.len(), "runs_refused_cleanly": refused, "crates_per_run": [2, 3], "trigger_menu": MENU, "positions": POS,
        "assignments": if thorough { "every (trigger, position) per crate" } else { "every (trigger, position) per crate for 2 crates; every trigger per crate at the field position for 3 crates" }, "languages": 6}));
    rep.cov_add("evaluations", judged);
    rep.cov_add("distinct_nontrivial", nontrivial.len() as u64);
    rep.cov_add("traces_validated_against_impl", jobs.len() as u64);
}

fn controls(rep: &mut Report) {
    let canned = "from __future__ import annotations\n\nfrom pydantic import BaseModel\nfrom typing import List\n\n\nclass Outer(BaseModel):\n    f0: Optional[List[int]] = Field(default=None)\n";
    match helper_usage(Lang::Python, canned, &[]) {
        Ok((used, defined)) => {
            if !(used.contains("Optional") && used.contains("Field") && used.contains("List") && !defined.contains("Optional") && defined.contains("List")) {
                rep.machinery(format!("control: python helper scan wrong: used={used:?} defined={defined:?}"));
            }
        }
        Err(e) => rep.machinery(format!("control: {e}")),
    }
    let canned_scala = "package a\n\npackage b {\n\ncase class Foo (\n\tx: Vector[UByte]\n)\n\n}\n";
    match helper_usage(Lang::Scala, canned_scala, &[]) {
        Ok((used, defined)) => {
            if !(used.contains("UByte") && defined.is_empty()) {
                rep.machinery("control: scala helper scan wrong");
            }
        }
        Err(e) => rep.machinery(format!("control: {e}")),
    }
}

pub fn run(args: &[String]) -> i32 {
    let tier = report::tier_from_env(args);
    let mut rep = Report::new("C12", &tier);
    controls(&mut rep);
    let max_depth = if rep.thorough() { 3 } else { 2 };
    {
        let (accs, stats) = explore(
            |ch| {
                gen_single(ch, max_depth);
            },
            |ch, acc: &mut Acc| {
                let c = gen_single(ch, max_depth);
                check_case(&c, &ch.choices(), acc);
            },
            Mode::Product,
            3,
            report::threads(),
            u64::MAX,
        );
        merge(&mut rep, "single_trigger", accs, &stats, json!({"triggers": TRIGGERS, "positions": POSITIONS, "nesting_depth": format!("0..={max_depth}"), "nesting_constructors": &NEST[1..], "field_attributes": ["serde(default)", "dashed rename", "typeshare(<each language>(type = ..)) override"], "languages": 6}));
    }
    {
        let (accs, stats) = explore(
            |ch| {
                gen_single(ch, 1);
            },
            |ch, acc: &mut Acc| {
                let c = gen_single(ch, 1);
                HELPER_HOMONYMS.with(|m| m.set(1));
                check_case(&c, &ch.choices(), acc);
                HELPER_HOMONYMS.with(|m| m.set(0));
            },
            Mode::Product,
            3,
            report::threads(),
            u64::MAX,
        );
        merge(&mut rep, "single_trigger_all_knobs_and_helper_homonyms", accs, &stats, json!({"configuration": "every naming knob on", "extra_user_types": "CodableVoid, CodableVoidAlias (Swift, Kotlin: the backends with a type prefix)", "triggers": TRIGGERS, "positions": POSITIONS, "nesting_depth": "0..=1", "languages": 6}));
    }
    {
        let (accs, stats) = explore(
            |ch| {
                gen_pair(ch);
            },
            |ch, acc: &mut Acc| {
                let c = gen_pair(ch);
                check_case(&c, &ch.choices(), acc);
            },
            Mode::Product,
            2,
            report::threads(),
            u64::MAX,
        );
        merge(&mut rep, "trigger_pairs", accs, &stats, json!({"triggers": "all ordered pairs", "positions": &POSITIONS[..5], "nesting": ["none", "one constructor"], "languages": 6}));
    }
    let amb_k = if rep.thorough() { 3 } else { 2 };
    super::common::ambient_family(&mut rep, "ambient_variations", amb_k + 1, |ch| { gen_single(ch, 2); }, |ch, acc| {
        let c = gen_single(ch, 2);
        check_case(&c, &ch.choices(), acc);
    });
    multi_file_family(&mut rep);
    require_nonvacuous(&mut rep);
    rep.cov("rule", json!("full product of trigger type × position × nesting chain (all chains up to the stated depth over 6 constructors) × field attributes × language, and all ordered trigger pairs; in each output the helper names in use (token scan outside comments/strings, per-language vocabulary) must be defined or imported in the same output. non-trivial = at least one helper name is in use."));
    rep.assume("multi-file mode is driven through the real binary (the shared Codable.swift is written by Language::post_generation, which only the CLI calls)");
    rep.assume("helper vocabulary per backend: Swift CodableVoid; Scala UByte/UShort/UInt/ULong; Python typing/pydantic/enum/datetime names, TypeVars and (de)serialiser functions; Go package qualifiers time. and json.; TypeScript ReviverFunc/ReplacerFunc whenever a Date/Uint8Array member exists; Kotlin @Serializable/@SerialName imports");
    rep.finish()
}
