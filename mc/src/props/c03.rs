//! C03 — exactly the annotated, non-skipped items, fields and variants are generated.
use super::common::{merge, require_nonvacuous, Acc};
use crate::explore::{explore, Chooser, Mode};
use crate::extract::{Def, OutFile, Payload};
use crate::pipeline::{Cfg, Lang, Outcome, ALL_LANGS};
use crate::prog::*;
use crate::refmodel::{self, RunFail};
use crate::report::{self, Report, Violation};
use serde_json::json;

const KINDS: [&str; 7] = ["struct", "unit-struct", "newtype", "unit-enum", "alg-enum", "alias", "const"];
const MODS: [&[&str]; 6] = [&[], &["a"], &["a", "b"], &["fn:handler"], &["a", "fn:setup"], &["const:"]];
const SKIPS: [Skip; 5] = [Skip::No, Skip::Serde, Skip::Typeshare, Skip::SerializingOnly, Skip::DeserializingOnly];

fn make_item(i: usize, kind: &str) -> Item {
    let n = format!("Item{i}");
    match kind {
        "struct" => Item::strukt(&n, vec![Field::new("a", Ty::Prim("u32")), Field::new("b", Ty::Prim("String"))]),
        "unit-struct" => Item::new(&n, IKind::UnitStruct),
        "newtype" => Item::new(&n, IKind::Newtype(Ty::Prim("String"))),
        "unit-enum" => Item::enumm(&n, vec![Variant::new("One", VKind::Unit), Variant::new("Two", VKind::Unit)]),
        "alg-enum" => Item::enumm(&n, vec![Variant::new("One", VKind::Unit), Variant::new("Two", VKind::Newtype(Ty::Prim("u32"))), Variant::new("Three", VKind::Struct(vec![Field::new("x", Ty::Prim("bool"))]))]),
        "alias" => Item::new(&n, IKind::Alias(Ty::Vec(Box::new(Ty::Prim("u32"))))),
        _ => Item::new(&format!("ITEM{i}"), IKind::Const { ty: Ty::Prim("u32"), expr: format!("{}", 40 + i) }),
    }
}

fn def_kind_expected(kind: &str) -> &'static str {
    match kind {
        "struct" | "unit-struct" => "struct",
        "newtype" | "alias" => "alias",
        "unit-enum" | "alg-enum" => "enum",
        _ => "const",
    }
}

fn const_supported(lang: Lang) -> bool {
    matches!(lang, Lang::TypeScript | Lang::Go | Lang::Python)
}

/// name under which a const is printed
fn const_name(lang: Lang, rust: &str) -> String {
    match lang {
        Lang::Go => {
            // PascalCase of ITEM0
            let mut s = String::new();
            let mut cap = true;
            for c in rust.chars() {
                if c == '_' {
                    cap = true;
                } else if cap {
                    s.push(c.to_ascii_uppercase());
                    cap = false;
                } else {
                    s.push(c.to_ascii_lowercase());
                }
            }
            s
        }
        _ => rust.to_string(),
    }
}

fn is_helper(name: &str) -> bool {
    name.ends_with("Inner")
}

// ---------- family 1: items ----------

#[derive(Clone, Debug)]
pub struct ItemsCase {
    /// (kind, annotated, module depth)
    pub items: Vec<(&'static str, bool, usize)>,
    /// spelling of the annotation path per item (0 bare, 1 typeshare::typeshare, 2 ::typeshare::typeshare)
    pub paths: Vec<usize>,
    pub lang: Lang,
    /// the configuration maps the first item's own Rust name to something else: that governs references to the name,
    /// not whether the annotated item is generated
    pub name_is_a_mapping_key: bool,
}

pub fn gen_items(ch: &mut Chooser, max_items: usize) -> ItemsCase {
    let n = 1 + ch.choose("nitems", max_items);
    let mut items = Vec::new();
    let mut paths = Vec::new();
    for _ in 0..n {
        let k = *ch.pick("kind", &KINDS);
        let ann = ch.choose("annotation", 4); // 0 bare, 1 none, 2 and 3 path-qualified
        let annotated = ann != 1;
        let m = ch.choose("mod_depth", MODS.len());
        items.push((k, annotated, m));
        paths.push(match ann {
            2 => 1,
            3 => 2,
            _ => 0,
        });
    }
    let lang = *ch.pick("lang", &ALL_LANGS);
    let name_is_a_mapping_key = ch.flag("first_item_name_is_a_type_mapping_key");
    ItemsCase { items, paths, lang, name_is_a_mapping_key }
}

pub fn items_program(c: &ItemsCase) -> File {
    let mut its = Vec::new();
    for (i, (k, ann, m)) in c.items.iter().enumerate() {
        let mut it = make_item(i, k);
        it.annotated = *ann;
        it.annotation_path = c.paths[i];
        it.mods = MODS[*m].iter().map(|s| s.to_string()).collect();
        its.push(it);
    }
    File::single(its)
}

pub fn check_items(c: &ItemsCase, choices: &[u32], acc: &mut Acc) {
    let file = items_program(c);
    let mut cfg = Cfg::plain();
    if c.name_is_a_mapping_key {
        cfg.type_mappings.push(("Item0".into(), "MappedElsewhere".into()));
        cfg.type_mappings.push(("ITEM0".into(), "MappedElsewhere".into()));
    }
    let any_annotated = c.items.iter().any(|i| i.1);
    let annotated_const = c.items.iter().any(|i| i.1 && i.0 == "const");
    acc.runs += 1;
    let res = refmodel::run_single(&file, c.lang, &cfg);
    let shape = |what: &str, kind: &str, m: usize| format!("C03|{}|items|{what}|kind={kind}|mod_depth={m}", c.lang.name());
    let ok = match res {
        Ok(ok) => ok,
        Err((fail, source)) => {
            match &fail {
                RunFail::Render(e) => {
                    acc.machinery(format!("renderer produced invalid Rust: {e}\n{source}"));
                    return;
                }
                // an annotated item that cannot be generated must be *reported*: a generation error is the accepted outcome
                RunFail::Pipeline(Outcome::GenError(_)) | RunFail::Pipeline(Outcome::ParseErrors(_)) if annotated_const && !const_supported(c.lang) => {
                    acc.judgements += 1;
                    acc.count("unsupported_const_reported_as_error", 1);
                    acc.outcomes.insert(report::fnv64(&format!("{}|reported", c.lang.name())));
                    return;
                }
                _ => {}
            }
            acc.vios.add(Violation {
                sig: format!("C03|{}|items|no-output:{}|annotated_const={}", c.lang.name(), fail.class(), annotated_const as u8),
                detail: json!({"choices": choices, "lang": c.lang.name(), "source": source, "failure": fail.describe()}),
            });
            return;
        }
    };
    acc.inputs.insert(report::fnv64(&ok.source));
    if c.items.iter().any(|i| !i.1) || c.items.iter().any(|i| i.2 > 0) {
        acc.nontrivial.insert(report::fnv64(&format!("{:?}|{}", c.items, c.lang.name())));
    }
    let base = json!({"choices": choices, "lang": c.lang.name(), "source": ok.source, "output": ok.text, "defined": ok.out.defs.iter().map(|d| format!("{} {}", d.kind(), d.name())).collect::<Vec<_>>()});
    if !any_annotated && !ok.text.trim().is_empty() && !ok.out.defs.is_empty() {
        acc.vios.add(Violation { sig: format!("C03|{}|items|output-without-annotated-items", c.lang.name()), detail: base.clone() });
    }
    let mut expected_names: Vec<String> = Vec::new();
    for (i, (k, ann, m)) in c.items.iter().enumerate() {
        acc.judgements += 1;
        let it = &file.items[i];
        let name = if *k == "const" { const_name(c.lang, &it.name) } else { it.name.clone() };
        let found: Vec<&Def> = ok.out.defs.iter().filter(|d| d.name() == name).collect();
        if *ann {
            expected_names.push(name.clone());
            if *k == "const" && !const_supported(c.lang) {
                // output was produced although the const cannot be expressed: silently omitted
                acc.vios.add(Violation { sig: shape("unsupported-item-silently-omitted", k, *m), detail: base.clone() });
                continue;
            }
            if found.len() != 1 {
                acc.vios.add(Violation { sig: shape(if found.is_empty() { "annotated-item-missing" } else { "annotated-item-duplicated" }, k, *m), detail: base.clone() });
                continue;
            }
            let want = def_kind_expected(k);
            let got = found[0].kind();
            // Go prints a unit struct and an alias alike; an alias of a string is `type N string`
            if got != want {
                let mut d = base.clone();
                d["item"] = json!(name);
                acc.vios.add(Violation { sig: format!("{}|expected={want}|observed={got}", shape("definition-kind", k, *m)), detail: d });
            }
        } else if !found.is_empty() {
            acc.vios.add(Violation { sig: shape("unannotated-item-generated", k, *m), detail: base.clone() });
        }
    }
    // nothing else is defined (helpers derived from struct variants excepted)
    for d in &ok.out.defs {
        if !expected_names.iter().any(|n| n == d.name()) && !is_helper(d.name()) {
            let mut dd = base.clone();
            dd["extra"] = json!(d.name());
            acc.vios.add(Violation { sig: format!("C03|{}|items|invented-definition|kind={}", c.lang.name(), d.kind()), detail: dd });
        }
        if is_helper(d.name()) && !c.items.iter().enumerate().any(|(i, it)| it.1 && it.0 == "alg-enum" && d.name().starts_with(&format!("Item{i}"))) {
            let mut dd = base.clone();
            dd["extra"] = json!(d.name());
            acc.vios.add(Violation { sig: format!("C03|{}|items|helper-without-enum", c.lang.name()), detail: dd });
        }
    }
    acc.outcomes.insert(report::fnv64(&format!("{}|{}", c.lang.name(), ok.out.defs.len())));
    if acc.samples.len() < 1 && c.items.len() == 3 && c.items[1].2 == 2 && !c.items[0].1 {
        acc.sample(json!({"lang": c.lang.name(), "source": ok.source, "defined": ok.out.defs.iter().map(|d| format!("{} {}", d.kind(), d.name())).collect::<Vec<_>>()}));
    }
}

// ---------- family 2: members ----------

const CONTAINERS: [&str; 5] = [
    "struct-fields", "unit-enum-variants", "alg-enum-variants", "struct-variant-fields",
    // an enum without tag / content whose data-carrying variants (M0, M2) are skipped: what remains is a unit enum
    "enum-whose-data-variants-are-skipped",
];

#[derive(Clone, Debug)]
pub struct MembersCase {
    pub container: &'static str,
    pub skips: [Skip; 3],
    pub style: AttrStyle,
    pub renamed: bool,
    /// the renamed members get wire names that differ only in case / separators (`in-progress`, `in_progress`, `inProgress`):
    /// distinct to serde, but equal under most of the case conversions the backends apply to member names
    pub near_homonyms: bool,
    pub lang: Lang,
}

fn wire_name(c: &MembersCase, i: usize) -> String {
    if c.near_homonyms { ["in-progress", "in_progress", "inProgress"][i].to_string() } else { format!("rn{i}") }
}

pub fn gen_members(ch: &mut Chooser) -> MembersCase {
    let container = *ch.pick("container", &CONTAINERS);
    let skips = [*ch.pick("skip0", &SKIPS), *ch.pick("skip1", &SKIPS), *ch.pick("skip2", &SKIPS)];
    let style = *ch.pick("attr_style", &ATTR_STYLES);
    let names = ch.choose("member_renamed", 3);
    let (renamed, near_homonyms) = (names > 0, names == 2);
    let lang = *ch.pick("lang", &ALL_LANGS);
    MembersCase { container, skips, style, renamed, near_homonyms, lang }
}

fn member_fields(c: &MembersCase) -> Vec<Field> {
    ["m0", "m1", "m2"]
        .iter()
        .enumerate()
        .map(|(i, n)| {
            let mut f = Field::new(n, [Ty::Prim("u32"), Ty::Prim("String"), Ty::Prim("bool")][i].clone());
            f.skip = c.skips[i];
            f.style = c.style;
            if c.renamed {
                f.rename = Some(wire_name(c, i));
            }
            f
        })
        .collect()
}

pub fn members_program(c: &MembersCase) -> File {
    let it = match c.container {
        "struct-fields" => Item::strukt("Outer", member_fields(c)),
        "enum-whose-data-variants-are-skipped" => {
            let kinds: [VKind; 3] = [VKind::Newtype(Ty::Prim("u32")), VKind::Unit, VKind::Struct(vec![Field::new("x", Ty::Prim("bool"))])];
            let mut vs: Vec<Variant> = ["M0", "M1", "M2"]
                .iter()
                .enumerate()
                .map(|(i, n)| {
                    let mut v = Variant::new(n, kinds[i].clone());
                    v.skip = c.skips[i];
                    v.style = c.style;
                    if c.renamed {
                        v.rename = Some(wire_name(c, i));
                    }
                    v
                })
                .collect();
            vs.push(Variant::new("Keep", VKind::Unit));
            Item::new("Outer", IKind::Enum { variants: vs, tag: None, content: None })
        }
        "unit-enum-variants" | "alg-enum-variants" => {
            let kinds: [VKind; 3] = if c.container == "unit-enum-variants" {
                [VKind::Unit, VKind::Unit, VKind::Unit]
            } else {
                [VKind::Newtype(Ty::Prim("u32")), VKind::Unit, VKind::Struct(vec![Field::new("x", Ty::Prim("bool"))])]
            };
            let vs: Vec<Variant> = ["M0", "M1", "M2"]
                .iter()
                .enumerate()
                .map(|(i, n)| {
                    let mut v = Variant::new(n, kinds[i].clone());
                    v.skip = c.skips[i];
                    v.style = c.style;
                    if c.renamed {
                        v.rename = Some(wire_name(c, i));
                    }
                    v
                })
                .collect();
            let mut e = Item::enumm("Outer", vs);
            if c.container == "alg-enum-variants" {
                // keep the enum algebraic whatever is skipped
                if let IKind::Enum { variants, .. } = &mut e.kind {
                    variants.push(Variant::new("Keep", VKind::Newtype(Ty::Prim("u32"))));
                }
            }
            e
        }
        _ => Item::enumm("Outer", vec![Variant::new("Sv", VKind::Struct(member_fields(c))), Variant::new("Keep", VKind::Unit)]),
    };
    File::single(vec![it])
}

pub fn check_members(c: &MembersCase, choices: &[u32], acc: &mut Acc) {
    if c.container == "enum-whose-data-variants-are-skipped" && !(c.skips[0].skipped() && c.skips[2].skipped()) {
        // with a data-carrying variant left the enum needs tag / content: another program, judged by C08
        acc.out_of_scope += 1;
        return;
    }
    let file = members_program(c);
    let cfg = Cfg::plain();
    let expected: Vec<String> = (0..3)
        .filter(|i| !c.skips[*i].skipped())
        .map(|i| {
            if c.renamed {
                wire_name(c, i)
            } else if c.container.ends_with("fields") {
                format!("m{i}")
            } else {
                format!("M{i}")
            }
        })
        .collect();
    acc.runs += 1;
    let pat: String = c.skips.iter().map(|s| match s { Skip::No => 'k', Skip::Serde => 's', Skip::Typeshare => 't', Skip::SerializingOnly => 'S', Skip::DeserializingOnly => 'D' }).collect();
    let res = refmodel::run_single(&file, c.lang, &cfg);
    let ok = match res {
        Ok(ok) => ok,
        Err((fail, source)) => {
            if let RunFail::Render(e) = &fail {
                acc.machinery(format!("renderer produced invalid Rust: {e}\n{source}"));
                return;
            }
            acc.vios.add(Violation {
                sig: format!("C03|{}|members|{}|no-output:{}|kept={}", c.lang.name(), c.container, fail.class(), expected.len()),
                detail: json!({"choices": choices, "lang": c.lang.name(), "source": source, "failure": fail.describe()}),
            });
            return;
        }
    };
    acc.inputs.insert(report::fnv64(&ok.source));
    acc.judgements += 1;
    if expected.len() < 3 {
        acc.nontrivial.insert(report::fnv64(&format!("{}|{pat}|{:?}|{}|{}", c.container, c.style, c.renamed, c.lang.name())));
    }
    let observed: Option<Vec<String>> = match c.container {
        "struct-fields" => ok.out.structs().find(|s| s.name == "Outer").map(|s| s.fields.iter().map(|f| f.wire.clone()).collect()),
        "unit-enum-variants" => ok.out.enums().find(|e| e.name == "Outer").map(|e| e.variants.iter().map(|v| v.wire.clone()).collect()),
        "alg-enum-variants" | "enum-whose-data-variants-are-skipped" => ok.out.enums().find(|e| e.name == "Outer").map(|e| e.variants.iter().map(|v| v.wire.clone()).filter(|w| w != "Keep").collect()),
        _ => find_variant_fields(&ok.out, c.lang),
    };
    let base = json!({"choices": choices, "lang": c.lang.name(), "container": c.container, "skip_pattern": pat, "source": ok.source, "output": ok.text, "expected_members": expected});
    let Some(observed) = observed else {
        acc.vios.add(Violation { sig: format!("C03|{}|members|{}|container-missing|kept={}", c.lang.name(), c.container, expected.len()), detail: base });
        return;
    };
    acc.outcomes.insert(report::fnv64(&format!("{}|{}", c.lang.name(), observed.len())));
    // names that differ only in case / separators: several backends derive the same member identifier from them, so the
    // output cannot be read back member by member (not a matter of this property); what can be judged is how many there are
    let differs = if c.near_homonyms { observed.len() != expected.len() } else { observed != expected };
    if differs {
        let mut sorted_o = observed.clone();
        let mut sorted_e = expected.clone();
        sorted_o.sort();
        sorted_e.sort();
        let what = if sorted_o == sorted_e && !c.near_homonyms {
            "order"
        } else if observed.len() > expected.len() {
            "skipped-member-generated-or-invented"
        } else if observed.len() < expected.len() {
            "member-dropped"
        } else {
            "wrong-members"
        };
        let spelling = if c.skips.contains(&Skip::Typeshare) && c.skips.contains(&Skip::Serde) { "both" } else if c.skips.contains(&Skip::Typeshare) { "typeshare" } else if c.skips.contains(&Skip::Serde) { "serde" } else { "none" };
        let mut d = base.clone();
        d["observed_members"] = json!(observed);
        acc.vios.add(Violation { sig: format!("C03|{}|members|{}|{what}|skip_spelling={spelling}|renamed={}", c.lang.name(), c.container, c.renamed as u8 + c.near_homonyms as u8), detail: d });
    }
    if acc.samples.len() < 2 && expected.len() == 1 && c.renamed {
        acc.sample(json!({"lang": c.lang.name(), "container": c.container, "skip_pattern": pat, "source": ok.source, "observed_members": observed}));
    }
}

fn find_variant_fields(out: &OutFile, lang: Lang) -> Option<Vec<String>> {
    if lang == Lang::TypeScript {
        return out.enums().find(|e| e.name == "Outer").and_then(|e| e.variants.iter().find_map(|v| if let Payload::Inline(f) = &v.payload { Some(f.iter().map(|f| f.wire.clone()).collect()) } else { None }));
    }
    out.structs().find(|s| s.name == "OuterSvInner").map(|s| s.fields.iter().map(|f| f.wire.clone()).collect())
}


// ---------- family 3: the same Rust identifier twice ----------

const H_KINDS: [&str; 5] = ["struct", "alg-enum", "alias", "newtype", "const"];
const H_PLACES: [&str; 4] = ["two-modules-one-file", "two-files-one-crate", "two-crates-single-file-mode", "nested-vs-top-level"];
const H_RENAMES: [&str; 3] = ["second-renamed", "first-renamed", "both-renamed"];

/// Two annotated items of one kind with the same Rust identifier in different modules / files, told apart on the
/// wire by serde(rename) (versioned types). Both are annotated, so both must be generated, each with its own members.
pub fn check_homonyms(kind: &'static str, place: &'static str, renames: &'static str, lang: Lang, choices: &[u32], acc: &mut Acc) {
    if kind == "const" && !const_supported(lang) {
        acc.out_of_scope += 1;
        return;
    }
    let (n1, n2) = match renames {
        "second-renamed" => (None, Some("ReqV2")),
        "first-renamed" => (Some("ReqV1"), None),
        _ => (Some("ReqV1"), Some("ReqV2")),
    };
    let item = |which: usize, rename: Option<&str>| -> String {
        let r = rename.map(|r| format!("#[serde(rename = \"{r}\")]\n")).unwrap_or_default();
        let m = format!("from_v{which}");
        match kind {
            "struct" => format!("#[typeshare]\n{r}pub struct Req {{ pub {m}: u32 }}\n"),
            "alg-enum" => format!("#[typeshare]\n{r}#[serde(tag = \"type\", content = \"content\")]\npub enum Req {{ Plain, Holds{which}(u32) }}\n"),
            "alias" => format!("#[typeshare]\n{r}pub type Req = {};\n", if which == 1 { "Vec<u32>" } else { "Option<String>" }),
            "newtype" => format!("#[typeshare]\n{r}pub struct Req(pub {});\n", if which == 1 { "Vec<u32>" } else { "Option<String>" }),
            _ => format!("#[typeshare]\npub const REQ: u32 = {};\n", 40 + which),
        }
    };
    // consts cannot be renamed: the two constants simply coexist (both must be printed)
    let (a, b) = (item(1, if kind == "const" { None } else { n1 }), item(2, if kind == "const" { None } else { n2 }));
    let files: Vec<crate::pipeline::SrcFile> = match place {
        "two-modules-one-file" => vec![crate::pipeline::SrcFile::single(format!("pub mod v1 {{\n{a}}}\npub mod v2 {{\n{b}}}\n"))],
        "nested-vs-top-level" => vec![crate::pipeline::SrcFile::single(format!("{a}\npub mod v2 {{\n    pub mod inner {{\n{b}    }}\n}}\n"))],
        "two-files-one-crate" => vec![
            crate::pipeline::SrcFile { crate_name: String::new(), path: "src/v1.rs".into(), source: a.clone() },
            crate::pipeline::SrcFile { crate_name: String::new(), path: "src/v2.rs".into(), source: b.clone() },
        ],
        _ => vec![
            crate::pipeline::SrcFile { crate_name: String::new(), path: "one/src/lib.rs".into(), source: b.clone() },
            crate::pipeline::SrcFile { crate_name: String::new(), path: "two/src/lib.rs".into(), source: a.clone() },
        ],
    };
    acc.runs += 1;
    acc.judgements += 1;
    let key = format!("{kind}|{place}|{renames}|{}", lang.name());
    acc.inputs.insert(report::fnv64(&format!("{kind}|{place}|{renames}")));
    acc.nontrivial.insert(report::fnv64(&key));
    let o = crate::pipeline::run(&files, lang, &Cfg::plain());
    acc.outcomes.insert(report::fnv64(&format!("{}|{}", lang.name(), o.kind())));
    let srcs: Vec<serde_json::Value> = files.iter().map(|f| json!({"path": f.path, "source": f.source})).collect();
    let shape = format!("kind={kind}|place={place}|{renames}");
    let text = match &o {
        Outcome::Ok(m) => m.values().next().cloned().unwrap_or_default(),
        other => {
            acc.vios.add(Violation { sig: format!("C03|{}|homonyms|no-output:{}|{shape}", lang.name(), other.kind()), detail: json!({"choices": choices, "lang": lang.name(), "files": srcs, "failure": format!("{other:?}").chars().take(400).collect::<String>()}) });
            return;
        }
    };
    let out = match crate::extract::extract(lang, &text) {
        Ok(x) => x,
        Err(_) => {
            acc.out_of_scope += 1; // C10's business
            return;
        }
    };
    let base = json!({"choices": choices, "lang": lang.name(), "files": srcs, "output": text, "defined": out.defs.iter().map(|d| format!("{} {}", d.kind(), d.name())).collect::<Vec<_>>()});
    let main_defs: Vec<&Def> = out.defs.iter().filter(|d| !is_helper(d.name())).collect();
    if main_defs.len() != 2 {
        let mut d = base.clone();
        d["expected_definitions"] = json!(2);
        acc.vios.add(Violation { sig: format!("C03|{}|homonyms|definition-count:{}|{shape}", lang.name(), main_defs.len()), detail: d });
        return;
    }
    // each version's distinguishing member must be there
    let marks: [&str; 2] = match kind {
        "struct" => ["from_v1", "from_v2"],
        "alg-enum" => ["Holds1", "Holds2"],
        "const" => ["41", "42"],
        _ => ["", ""],
    };
    for (i, mark) in marks.iter().enumerate() {
        if !mark.is_empty() && !crate::extract::code_tokens(lang, &text).map(|(code, _)| code.iter().any(|t| t.to_lowercase().contains(&mark.to_lowercase().replace('_', "")) || t.contains(mark))).unwrap_or(false) {
            let mut d = base.clone();
            d["missing_member_of_version"] = json!(i + 1);
            acc.vios.add(Violation { sig: format!("C03|{}|homonyms|member-of-version-missing|{shape}", lang.name()), detail: d });
        }
    }
}


// ---------- family 4: how the source file is reached on disk (real binary) ----------

/// The annotated items of a file are generated however the walker reaches the file: a regular file, a symbolic link to
/// a regular file outside the scanned tree (with and without --follow-links), a file several directories deep, a file
/// given directly on the command line.
fn file_kinds_family(rep: &mut Report) {
    use crate::cli::{self, par_map, run_cli, s, Scratch};
    if !cli::bin_available() {
        rep.machinery(format!("hooks-on CLI binary missing at {}", cli::BIN));
        return;
    }
    const KINDS: [&str; 13] = [
        "regular", "symlink-to-file", "symlink-to-file-followed", "deep-directory", "file-as-argument", "symlinked-directory-followed",
        // directories the walk of an outer root does not enter, named as a root of their own after that outer root
        "hidden-directory-named-after-its-parent", "ignored-directory-named-after-its-parent", "symlinked-directory-named-after-its-parent", "hidden-directory-named-before-its-parent",
        // one source file that belongs to two crates (a symbolic link in the second crate's src)
        "one-file-linked-into-two-crates",
        // directory names a walker might take for build output or dependencies: they are ordinary source directories here
        "crate-directory-named-target-next-to-a-manifest", "source-directories-named-build-dist-vendor-node_modules",
    ];
    let mut jobs = Vec::new();
    for kind in KINDS {
        for &lang in &ALL_LANGS {
            for multi in [false, true] {
                jobs.push((kind, lang, multi));
            }
        }
    }
    let results = par_map(&jobs, report::threads(), |(kind, lang, multi)| {
        let sc = Scratch::new("c03f");
        let linked = "#[typeshare]\npub struct Linked { pub keep: u32, #[serde(skip)] pub gone: u32 }\n\n#[typeshare]\npub enum LinkedE { One, #[typeshare(skip)] Hidden, Two }\n\npub struct NotAnnotated { pub n: u32 }\n";
        sc.write("ws/app/src/lib.rs", b"#[typeshare]\npub struct Plain { pub p: u32 }\n");
        let mut extra: Vec<String> = Vec::new();
        let mut inputs = vec![sc.path("ws").to_string_lossy().into_owned()];
        match *kind {
            "regular" => {
                sc.write("ws/app/src/models.rs", linked.as_bytes());
            }
            "symlink-to-file" | "symlink-to-file-followed" => {
                let target = sc.write("shared/models.rs", linked.as_bytes());
                let _ = std::os::unix::fs::symlink(&target, sc.path("ws/app/src/models.rs"));
                if kind.ends_with("followed") {
                    extra.push(s("-L"));
                }
            }
            "deep-directory" => {
                sc.write("ws/app/src/a/b/c/d/models.rs", linked.as_bytes());
            }
            "file-as-argument" => {
                let p = sc.write("elsewhere/app/src/models.rs", linked.as_bytes());
                inputs.push(p.to_string_lossy().into_owned());
            }
            "hidden-directory-named-after-its-parent" | "hidden-directory-named-before-its-parent" => {
                sc.write("ws/app/src/.gen/models.rs", linked.as_bytes());
                let inner = sc.path("ws/app/src/.gen").to_string_lossy().into_owned();
                if kind.contains("before") {
                    inputs.insert(0, inner);
                } else {
                    inputs.push(inner);
                }
            }
            "crate-directory-named-target-next-to-a-manifest" => {
                sc.write("ws/Cargo.toml", b"[workspace]\nmembers = [\"app\", \"target\"]\n");
                sc.write("ws/target/Cargo.toml", b"[package]\nname = \"target\"\nversion = \"0.1.0\"\n");
                sc.write("ws/target/src/models.rs", linked.as_bytes());
            }
            "source-directories-named-build-dist-vendor-node_modules" => {
                sc.write("ws/app/Cargo.toml", b"[package]\nname = \"app\"\nversion = \"0.1.0\"\n");
                sc.write("ws/app/src/build/dist/vendor/node_modules/out/models.rs", linked.as_bytes());
            }
            "one-file-linked-into-two-crates" => {
                let target = sc.write("ws/app/src/models.rs", linked.as_bytes());
                sc.mkdir("ws/other/src");
                let _ = std::os::unix::fs::symlink(&target, sc.path("ws/other/src/models.rs"));
            }
            "ignored-directory-named-after-its-parent" => {
                sc.write("ws/.ignore", b"vendor/\n");
                sc.write("ws/app/src/vendor/models.rs", linked.as_bytes());
                inputs.push(sc.path("ws/app/src/vendor").to_string_lossy().into_owned());
            }
            "symlinked-directory-named-after-its-parent" => {
                sc.write("shared/app/src/models.rs", linked.as_bytes());
                sc.mkdir("ws/app/src");
                let _ = std::os::unix::fs::symlink(sc.path("shared/app/src"), sc.path("ws/app/src/linked_dir"));
                inputs.push(sc.path("ws/app/src/linked_dir").to_string_lossy().into_owned());
            }
            _ => {
                sc.write("shared/app/src/models.rs", linked.as_bytes());
                sc.mkdir("ws/app/src");
                let _ = std::os::unix::fs::symlink(sc.path("shared/app/src"), sc.path("ws/app/src/linked_dir"));
                extra.push(s("-L"));
            }
        }
        sc.mkdir("out");
        let mut args = cli::lang_args(*lang);
        args.extend(extra);
        let out = if *multi { sc.path("out") } else { sc.path(&format!("out/types.{}", lang.ext())) };
        args.extend([s(if *multi { "-d" } else { "-o" }), out.to_string_lossy().into_owned()]);
        args.extend(inputs);
        let r = run_cli(&args, &sc.root, &[], cli::TIMEOUT);
        let snap = cli::snapshot(&sc.path("out"));
        let text: String = snap.values().map(|v| String::from_utf8_lossy(v).into_owned()).collect::<Vec<_>>().join("\n");
        // multi-file mode, a file shared by two crates: each crate's output file has the items
        let mut per_crate_missing = Vec::new();
        if *kind == "one-file-linked-into-two-crates" && *multi && r.class() == "ok" {
            for stem in ["app", "other"] {
                let has = snap.iter().any(|(name, bytes)| name.to_lowercase().starts_with(stem) && String::from_utf8_lossy(bytes).split(|c: char| !c.is_alphanumeric() && c != '_').any(|t| t == "Linked"));
                if !has {
                    per_crate_missing.push(stem.to_string());
                }
            }
        }
        (r.class(), r.stderr.chars().take(500).collect::<String>(), text, args, per_crate_missing)
    });
    let mut judged = 0u64;
    for ((kind, lang, multi), (class, stderr, text, argv, per_crate_missing)) in jobs.iter().zip(results.iter()) {
        judged += 1;
        let mode = if *multi { "multi" } else { "single" };
        let detail = |what: &str| json!({"how_the_file_is_reached": kind, "lang": lang.name(), "mode": mode, "argv": argv, "exit": class, "stderr": stderr, "output": text, "observation": what});
        if *class != "ok" {
            rep.vios.add(Violation { sig: format!("C03|{}|file-kinds|run-{class}|kind={kind}|mode={mode}", lang.name()), detail: detail("the run did not succeed") });
            continue;
        }
        let defs: Vec<String> = match crate::extract::extract(*lang, text) {
            Ok(of) => of.defs.iter().map(|d| d.name().to_string()).collect(),
            Err(_) if *multi => text.split(|c: char| !c.is_alphanumeric() && c != '_').map(String::from).collect(), // several files concatenated: token search
            Err(_) => continue,
        };
        for stem in per_crate_missing {
            rep.vios.add(Violation { sig: format!("C03|{}|file-kinds|annotated-item-missing-in-one-crate|kind={kind}|mode={mode}", lang.name()), detail: detail(&format!("Linked is annotated in a file of crate `{stem}` (reached through a symbolic link) and must be in that crate's output")) });
        }
        for want in ["Plain", "Linked", "LinkedE"] {
            if !defs.iter().any(|d| d == want) {
                rep.vios.add(Violation { sig: format!("C03|{}|file-kinds|annotated-item-missing|kind={kind}|mode={mode}", lang.name()), detail: detail(&format!("{want} is annotated and must be generated")) });
            }
        }
        for unwanted in ["NotAnnotated", "gone", "Hidden"] {
            if text.split(|c: char| !c.is_alphanumeric() && c != '_').any(|t| t == unwanted) {
                rep.vios.add(Violation { sig: format!("C03|{}|file-kinds|unannotated-or-skipped-member-present|kind={kind}|mode={mode}", lang.name()), detail: detail(&format!("{unwanted} must not be generated")) });
            }
        }
    }
    rep.cov("file_kinds", json!({"process_runs": jobs.len(), "how_the_file_is_reached": KINDS, "languages": 6, "modes": ["single", "multi"]}));
    rep.cov_add("evaluations", judged);
    rep.cov_add("traces_validated_against_impl", jobs.len() as u64);
}

/// Runs onto the output of an earlier run: what was written before must not decide whether an annotated item of this
/// run is generated. Two or three crates, folder and file output; the second run sees one more crate, one more item in
/// the last crate, or one more item in the first; every language.
fn reruns_family(rep: &mut Report) {
    use crate::cli::{self, par_map, run_cli, s, Scratch};
    if !cli::bin_available() {
        return; // reported by file_kinds_family
    }
    const CHANGES: [&str; 4] = ["a-later-crate-is-new", "an-earlier-crate-is-new", "the-last-crate-gains-an-item", "the-first-crate-gains-an-item"];
    let mut jobs = Vec::new();
    for change in CHANGES {
        for &lang in &ALL_LANGS {
            for folder in [true, false] {
                jobs.push((change, lang, folder));
            }
        }
    }
    let item = |n: &str| format!("#[typeshare]\npub struct {n} {{ pub a: u32 }}\n");
    let results = par_map(&jobs, report::threads(), |(change, lang, folder)| {
        let sc = Scratch::new("c03r");
        // (crate, items) before and after
        let (before, after): (Vec<(&str, Vec<&str>)>, Vec<(&str, Vec<&str>)>) = match *change {
            "a-later-crate-is-new" => (vec![("alpha", vec!["AlphaOne"])], vec![("alpha", vec!["AlphaOne"]), ("beta", vec!["BetaOne", "BetaTwo"])]),
            "an-earlier-crate-is-new" => (vec![("beta", vec!["BetaOne"])], vec![("alpha", vec!["AlphaOne"]), ("beta", vec!["BetaOne"])]),
            "the-last-crate-gains-an-item" => (vec![("alpha", vec!["AlphaOne"]), ("beta", vec!["BetaOne"])], vec![("alpha", vec!["AlphaOne"]), ("beta", vec!["BetaOne", "BetaTwo"])]),
            _ => (vec![("alpha", vec!["AlphaOne"]), ("beta", vec!["BetaOne"])], vec![("alpha", vec!["AlphaOne", "AlphaTwo"]), ("beta", vec!["BetaOne"])]),
        };
        let out = if *folder { sc.mkdir("out") } else { sc.mkdir("out").join(format!("types.{}", lang.ext())) };
        let mut last = (String::new(), String::new(), Vec::new());
        for (i, layout) in [&before, &after].iter().enumerate() {
            for (krate, items) in layout.iter() {
                sc.write(&format!("ws/{krate}/src/lib.rs"), items.iter().map(|n| item(n)).collect::<Vec<_>>().join("\n").as_bytes());
            }
            let mut args = cli::lang_args(*lang);
            args.extend([s(if *folder { "-d" } else { "-o" }), out.to_string_lossy().into_owned(), sc.path("ws").to_string_lossy().into_owned()]);
            let r = run_cli(&args, &sc.root, &[], cli::TIMEOUT);
            last = (r.class().to_string(), r.stderr.chars().take(300).collect(), args);
            if r.class() != "ok" {
                return (format!("run {}: {}", i + 1, last.0), last.1, last.2, Default::default(), vec![]);
            }
        }
        let snap: std::collections::BTreeMap<String, String> = cli::snapshot(&sc.path("out")).into_iter().map(|(k, v)| (k, String::from_utf8_lossy(&v).into_owned())).collect();
        let expected: Vec<String> = after.iter().flat_map(|(_, items)| items.iter().map(|s| s.to_string())).collect();
        (last.0, last.1, last.2, snap, expected)
    });
    let mut judged = 0u64;
    for ((change, lang, folder), (class, stderr, argv, snap, expected)) in jobs.iter().zip(results.iter()) {
        let mode = if *folder { "folder" } else { "file" };
        if class != "ok" {
            rep.vios.add(Violation { sig: format!("C03|{}|rerun|{change}|{mode}|run-failed", lang.name()), detail: json!({"argv": argv, "failure": class, "stderr": stderr}) });
            continue;
        }
        let mut defined: Vec<String> = Vec::new();
        let mut unreadable = false;
        for text in snap.values() {
            match crate::extract::extract(*lang, text) {
                Ok(of) => defined.extend(of.defs.iter().map(|d| d.name().to_string())),
                Err(_) => unreadable = true,
            }
        }
        for name in expected {
            judged += 1;
            let n = defined.iter().filter(|d| *d == name).count();
            if n != 1 || unreadable {
                rep.vios.add(Violation {
                    sig: format!("C03|{}|rerun|{change}|{mode}|{}", lang.name(), if unreadable { "output-unreadable" } else if n == 0 { "item-of-this-run-not-generated" } else { "item-generated-twice" }),
                    detail: json!({"argv": argv, "change_between_the_runs": change, "item": name, "definitions_after_the_second_run": defined, "output_location_after_the_second_run": snap, "stderr": stderr}),
                });
            }
        }
    }
    rep.cov("reruns", json!({"changes_between_the_two_runs": CHANGES, "output_modes": ["folder", "file"], "languages": 6, "process_runs": jobs.len() * 2, "judgements": judged}));
    rep.cov_add("evaluations", judged);
    rep.cov_add("traces_validated_against_impl", jobs.len() as u64 * 2);
}

/// Files of every size around the read-buffer boundaries: where in a file an annotation sits — in particular relative to
/// the 4 KiB … 64 KiB marks any chunked pre-scan would use — must not decide whether the file is read. Each file's only
/// mention of the word `typeshare` is its one `#[typeshare]`, at a chosen byte offset.
fn file_sizes_family(rep: &mut Report) {
    use crate::cli::{self, par_map, run_cli, s, Scratch};
    if !cli::bin_available() {
        return; // reported by file_kinds_family
    }
    const BOUNDARIES: [usize; 5] = [4096, 8192, 16384, 32768, 65536];
    const STYLES: [&str; 3] = ["one-long-comment-line", "multi-byte-comment", "unannotated-items"];
    // byte offset of the word `typeshare`, relative to the boundary: every way the 9 bytes can straddle it, and both sides
    let rel: Vec<i64> = (-10..=1).collect();
    fn padding(style: &str, n: usize) -> String {
        match style {
            "one-long-comment-line" => format!("//{}\n", "x".repeat(n - 3)),
            "multi-byte-comment" => {
                // 3-byte characters up to the end, so that chunk boundaries fall inside a character
                let body = n - 3;
                format!("//{}{}\n", "x".repeat(body % 3), "€".repeat(body / 3))
            }
            _ => {
                let mut out = String::new();
                let mut i = 0;
                while out.len() + 64 <= n {
                    out.push_str(&format!("pub struct Pad{i:05} {{ pub a: u32 }}\n"));
                    i += 1;
                }
                let left = n - out.len();
                if left >= 3 {
                    out.push_str(&format!("//{}\n", "y".repeat(left - 3)));
                } else {
                    out.push_str(&" ".repeat(left));
                }
                out
            }
        }
    }
    let mut jobs = Vec::new();
    for style in STYLES {
        for &lang in &ALL_LANGS {
            jobs.push((style, lang));
        }
    }
    let rel2 = rel.clone();
    let results = par_map(&jobs, report::threads(), move |(style, lang)| {
        let sc = Scratch::new("c03z");
        let mut names = Vec::new();
        for b in BOUNDARIES {
            for r in &rel2 {
                let word_at = (b as i64 + r) as usize;
                let name = format!("At{b}{}{}", if *r < 0 { "m" } else { "p" }, r.abs());
                let mut src = padding(style, word_at - 2);
                debug_assert_eq!(src.len(), word_at - 2);
                src.push_str(&format!("#[typeshare]\npub struct {name} {{ pub v: u32 }}\n"));
                sc.write(&format!("ws/app/src/f_{name}.rs"), src.as_bytes());
                names.push((name, b, *r, src.len()));
            }
        }
        sc.mkdir("out");
        let mut args = cli::lang_args(*lang);
        args.extend([s("-o"), sc.path(&format!("out/types.{}", lang.ext())).to_string_lossy().into_owned(), sc.path("ws").to_string_lossy().into_owned()]);
        let r = run_cli(&args, &sc.root, &[], cli::TIMEOUT);
        let text: String = cli::snapshot(&sc.path("out")).values().map(|v| String::from_utf8_lossy(v).into_owned()).collect::<Vec<_>>().join("\n");
        (r.class(), r.stderr.chars().take(500).collect::<String>(), text, names)
    });
    let mut judged = 0u64;
    for ((style, lang), (class, stderr, text, names)) in jobs.iter().zip(results.iter()) {
        if *class != "ok" {
            rep.vios.add(Violation { sig: format!("C03|{}|file-sizes|run-{class}|style={style}", lang.name()), detail: json!({"padding": style, "exit": class, "stderr": stderr}) });
            continue;
        }
        let toks: std::collections::HashSet<&str> = text.split(|c: char| !c.is_alphanumeric() && c != '_').collect();
        for (name, b, r, size) in names {
            judged += 1;
            let want = crate::refmodel::prefixed(*lang, &Cfg::plain(), name);
            if !toks.contains(want.as_str()) {
                rep.vios.add(Violation {
                    sig: format!("C03|{}|file-sizes|annotated-item-missing|style={style}|boundary={b}", lang.name()),
                    detail: json!({"padding": style, "lang": lang.name(), "file_bytes": size, "offset_of_the_word_typeshare": (*b as i64 + r), "relative_to_boundary": r, "boundary": b,
                        "observation": format!("{name} is annotated (the file's only mention of typeshare is that attribute) and must be generated"), "stderr": stderr}),
                });
            }
        }
    }
    rep.cov("file_sizes", json!({"process_runs": jobs.len(), "files_per_run": BOUNDARIES.len() * rel.len(), "boundaries": BOUNDARIES, "offset_of_the_word_relative_to_boundary": rel, "padding_styles": STYLES, "languages": 6}));
    rep.cov_add("evaluations", judged);
    rep.cov_add("traces_validated_against_impl", jobs.len() as u64);
}

fn controls(rep: &mut Report) {
    let canned = "export interface Outer {\n\tm0: number;\n\tm2: boolean;\n}\n\nexport interface Extra {\n}\n";
    match crate::extract::extract(Lang::TypeScript, canned) {
        Ok(of) => {
            let f: Vec<String> = of.structs().find(|s| s.name == "Outer").map(|s| s.fields.iter().map(|f| f.wire.clone()).collect()).unwrap_or_default();
            if f != vec!["m0".to_string(), "m2".to_string()] || of.defs.len() != 2 {
                rep.machinery("control: canned TypeScript members not read back");
            }
        }
        Err(e) => rep.machinery(format!("control: canned TypeScript rejected: {}", e.msg())),
    }
}

pub fn run(args: &[String]) -> i32 {
    let tier = report::tier_from_env(args);
    let mut rep = Report::new("C03", &tier);
    controls(&mut rep);
    let max_items = if rep.thorough() { 3 } else { 2 };
    {
        let (accs, stats) = explore(
            |ch| {
                gen_items(ch, max_items);
            },
            |ch, acc: &mut Acc| {
                let c = gen_items(ch, max_items);
                check_items(&c, &ch.choices(), acc);
            },
            Mode::Product,
            4,
            report::threads(),
            u64::MAX,
        );
        merge(&mut rep, "items", accs, &stats, json!({"max_items": max_items, "item_kinds": KINDS, "annotation": ["#[typeshare]", "none", "#[typeshare::typeshare]", "#[::typeshare::typeshare]"], "placement": ["top level", "mod a", "mod a::b", "inside fn handler() { }", "inside mod a { fn setup() { } }", "inside const _: () = { };"], "languages": 6}));
    }
    {
        let (accs, stats) = explore(
            |ch| {
                gen_members(ch);
            },
            |ch, acc: &mut Acc| {
                let c = gen_members(ch);
                check_members(&c, &ch.choices(), acc);
            },
            Mode::Product,
            3,
            report::threads(),
            u64::MAX,
        );
        merge(&mut rep, "members", accs, &stats, json!({"containers": CONTAINERS, "skip_patterns": 27, "skip_spellings": ["serde(skip)", "typeshare(skip)"], "attr_styles": 4, "member_renamed": ["no", "distinct names", "names that differ only in case or separators"], "languages": 6}));
    }
    {
        let (accs, stats) = explore(
            |ch| {
                ch.choose("kind", H_KINDS.len());
            },
            |ch, acc: &mut Acc| {
                let kind = *ch.pick("kind", &H_KINDS);
                let place = *ch.pick("place", &H_PLACES);
                let renames = *ch.pick("renames", &H_RENAMES);
                let lang = *ch.pick("lang", &ALL_LANGS);
                check_homonyms(kind, place, renames, lang, &ch.choices(), acc);
            },
            Mode::Product,
            1,
            report::threads(),
            u64::MAX,
        );
        merge(&mut rep, "same_identifier_twice", accs, &stats, json!({"kinds": H_KINDS, "placements": H_PLACES, "serde_rename_on": H_RENAMES, "languages": 6}));
    }
    let amb_k = if rep.thorough() { 3 } else { 2 };
    super::common::ambient_family(&mut rep, "ambient_variations_items", amb_k, |ch| { gen_items(ch, 2); }, |ch, acc| {
        let c = gen_items(ch, 2);
        check_items(&c, &ch.choices(), acc);
    });
    super::common::ambient_family(&mut rep, "ambient_variations_members", amb_k, |ch| { gen_members(ch); }, |ch, acc| {
        let c = gen_members(ch);
        check_members(&c, &ch.choices(), acc);
    });
    file_kinds_family(&mut rep);
    file_sizes_family(&mut rep);
    reruns_family(&mut rep);
    require_nonvacuous(&mut rep);
    rep.cov("rule", json!("items family: every sequence of 1..N items over 7 item kinds × annotated/un-annotated × module depth 0..2 × language: the definitions recovered from the output (minus Inner helpers) must equal the annotated items; members family: every skip pattern over three members (27) × skip spelling × attribute style × rename × 4 container kinds × language: members must equal the non-skipped source members in source order. non-trivial = something is un-annotated / nested in a module / skipped."));
    rep.assume("an annotated const in a backend without const support must make the run fail with an error; output without it is a silent omission");
    rep.assume("enums whose data-carrying variants are all skipped are rejected by typeshare with an error (counted, not judged)");
    rep.finish()
}
