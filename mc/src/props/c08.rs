//! C08 — unsupported constructs are rejected with an error, never silently mis-generated.
use super::common::{merge, require_nonvacuous, Acc};
use crate::cli;
use crate::explore::{explore, Chooser, Mode};
use crate::pipeline::{self, Cfg, Lang, Outcome, SrcFile, ALL_LANGS};
use crate::prog::*;
use crate::report::{self, Report, Violation};
use serde_json::json;

const BAD_TYPES: [&str; 6] = ["u64", "i64", "usize", "isize", "(u32, String)", "(u8,)"];
const CARRIERS: [&str; 9] = ["vec", "option", "map-value", "map-key", "box", "array", "slice", "ref", "generic"];
const TYPE_POSITIONS: [&str; 9] =
    ["struct-field", "newtype-struct", "variant-payload", "variant-field", "alias", "serialized-as-field", "serialized-as-struct", "serialized-as-alias", "const-type"];
const SKIPS: [Skip; 3] = [Skip::No, Skip::Serde, Skip::Typeshare];
/// for the unsupported-types family also the two half skips, under which the member is still on the wire in one direction
const TYPE_SKIPS: [Skip; 5] = [Skip::No, Skip::Serde, Skip::Typeshare, Skip::SerializingOnly, Skip::DeserializingOnly];
/// top level; nested modules; statements of a function body; a block expression (`const _: () = { … };`); a function inside a module
const PLACEMENTS: [&[&str]; 5] = [&[], &["a", "b"], &["fn:handler"], &["const:"], &["a", "fn:setup"]];

fn carry(c: &str, t: Ty) -> Ty {
    match c {
        "vec" => Ty::Vec(Box::new(t)),
        "option" => Ty::Option(Box::new(t)),
        "map-value" => Ty::Map(Box::new(Ty::Prim("String")), Box::new(t)),
        "map-key" => Ty::Map(Box::new(t), Box::new(Ty::Prim("String"))),
        "box" => Ty::Ptr("Box", Box::new(t)),
        "array" => Ty::Array(Box::new(t), 2),
        "slice" => Ty::Slice(Box::new(t)),
        "ref" => Ty::Ref(Box::new(t)),
        _ => Ty::Generic("Holder".into(), vec![t]),
    }
}

#[derive(Clone, Debug)]
pub struct TypeCase {
    /// where the items of the program are declared (index into `PLACEMENTS`)
    pub placement: usize,
    pub bad: &'static str,
    pub chain: Vec<&'static str>,
    pub position: &'static str,
    pub skip: Skip,
}

fn full_ty(c: &TypeCase) -> Ty {
    let mut t = Ty::Raw(c.bad.to_string());
    for k in c.chain.iter().rev() {
        t = carry(k, t);
    }
    t
}

fn skippable(position: &str) -> bool {
    matches!(position, "struct-field" | "variant-payload" | "variant-field" | "serialized-as-field")
}

/// (program with the construct, the same program with the member removed)
pub fn type_program(c: &TypeCase) -> (File, File) {
    let ty = full_ty(c);
    let holder = {
        let mut h = Item::strukt("Holder", vec![Field::new("h", Ty::Param("H".into()))]);
        h.generics = vec!["H".into()];
        h
    };
    let keep = Field::new("keep", Ty::Prim("u32"));
    let mk = |member: Option<Field>, variant: Option<Variant>, item: Option<Item>| -> File {
        let mut items = vec![holder.clone()];
        match c.position {
            "struct-field" | "serialized-as-field" => {
                let mut fs = vec![keep.clone()];
                fs.extend(member);
                fs.push(Field::new("tail", Ty::Prim("bool")));
                items.push(Item::strukt("Outer", fs));
            }
            "variant-field" => {
                let mut fs = vec![keep.clone()];
                fs.extend(member);
                items.push(Item::enumm("Outer", vec![Variant::new("Sv", VKind::Struct(fs)), Variant::new("U", VKind::Unit)]));
            }
            "variant-payload" => {
                let mut vs = vec![Variant::new("Keep", VKind::Newtype(Ty::Prim("u32")))];
                vs.extend(variant);
                vs.push(Variant::new("U", VKind::Unit));
                items.push(Item::enumm("Outer", vs));
            }
            _ => {
                items.push(Item::strukt("Other", vec![keep.clone()]));
                items.extend(item);
            }
        }
        File::single(items)
    };
    let mut member = Field::new("bad", if c.position == "serialized-as-field" { Ty::Prim("String") } else { ty.clone() });
    member.skip = c.skip;
    if c.position == "serialized-as-field" {
        member.serialized_as = Some(ty.render());
    }
    let mut variant = Variant::new("Bad", VKind::Newtype(ty.clone()));
    variant.skip = c.skip;
    let item = match c.position {
        "newtype-struct" => Some(Item::new("Outer", IKind::Newtype(ty.clone()))),
        "alias" => Some(Item::new("Outer", IKind::Alias(ty.clone()))),
        "serialized-as-struct" => {
            let mut i = Item::strukt("Outer", vec![Field::new("x", Ty::Prim("u32"))]);
            i.ts_args = vec![format!("serialized_as = {}", rust_str(&ty.render()))];
            Some(i)
        }
        "serialized-as-alias" => {
            let mut i = Item::new("Outer", IKind::Alias(Ty::Prim("String")));
            i.ts_args = vec![format!("serialized_as = {}", rust_str(&ty.render()))];
            Some(i)
        }
        "const-type" => Some(Item::new("OUTER", IKind::Const { ty: ty.clone(), expr: "1".into() })),
        _ => None,
    };
    let place = |mut f: File| {
        for it in &mut f.items {
            it.mods = PLACEMENTS[c.placement].iter().map(|s| s.to_string()).collect();
        }
        f
    };
    (place(mk(Some(member), Some(variant), item)), place(mk(None, None, None)))
}

fn parse_errors(src: &str) -> Result<Vec<String>, String> {
    match pipeline::parse_only(&[SrcFile::single(src.to_string())], &Cfg::plain()) {
        Ok(m) => Ok(m.values().flat_map(|pd| pd.errors.iter().map(|e| e.error.to_string())).collect()),
        Err(Outcome::ParseFail(e)) => Ok(vec![format!("parse failed: {e}")]),
        Err(o) => Err(format!("{}: {:?}", o.kind(), o).chars().take(200).collect()),
    }
}

pub fn check_type_case(c: &TypeCase, choices: &[u32], acc: &mut Acc) {
    if c.skip != Skip::No && !skippable(c.position) {
        acc.out_of_scope += 1;
        return;
    }
    // `(u8,)` and tuple types are only planted bare or one level deep in serialized_as strings etc. — all positions apply
    let (with, without) = type_program(c);
    let src = render_file(&with);
    if let Err(e) = syn_ok(&src) {
        acc.machinery(format!("renderer produced invalid Rust: {e}\n{src}"));
        return;
    }
    acc.runs += 1;
    acc.inputs.insert(report::fnv64(&src));
    acc.judgements += 1;
    if !c.chain.is_empty() || c.skip != Skip::No {
        acc.nontrivial.insert(report::fnv64(&src));
    }
    let half = if c.skip != Skip::No && !c.skip.skipped() { format!("|marker={:?}", c.skip) } else { String::new() };
    let outer = c.chain.first().copied().unwrap_or("none");
    let inner = c.chain.last().copied().unwrap_or("none");
    let shape = format!("construct={}|pos={}|depth={}|outer={outer}|inner={inner}{}{half}", c.bad, c.position, c.chain.len(), if c.placement == 0 { String::new() } else { format!("|declared-in={}", PLACEMENTS[c.placement].join("/")) });
    let detail = |extra: serde_json::Value| json!({"choices": choices, "construct": c.bad, "carrier_chain": c.chain, "position": c.position, "skip": format!("{:?}", c.skip), "source": src, "observation": extra});
    match parse_errors(&src) {
        Err(e) => {
            acc.outcomes.insert(report::fnv64("panic"));
            acc.vios.add(Violation { sig: format!("C08|lib|crash-instead-of-error|{shape}"), detail: detail(json!(e)) });
        }
        Ok(errs) => {
            if !c.skip.skipped() {
                acc.outcomes.insert(report::fnv64(&format!("rejected={}", !errs.is_empty())));
                if errs.is_empty() {
                    acc.vios.add(Violation { sig: format!("C08|lib|accepted-silently|{shape}"), detail: detail(json!("no parse error recorded")) });
                }
            } else {
                acc.outcomes.insert(report::fnv64(&format!("skip-ok={}", errs.is_empty())));
                if !errs.is_empty() {
                    acc.vios.add(Violation { sig: format!("C08|lib|rejected-although-skipped|{shape}|skip={:?}", c.skip), detail: detail(json!(errs)) });
                    return;
                }
                // differential: output equals the program with the member deleted
                let src2 = render_file(&without);
                for lang in [Lang::TypeScript, Lang::Swift] {
                    let a = pipeline::run(&[SrcFile::single(src.clone())], lang, &Cfg::plain());
                    let b = pipeline::run(&[SrcFile::single(src2.clone())], lang, &Cfg::plain());
                    acc.judgements += 1;
                    match (a.single_text(), b.single_text()) {
                        (Some(x), Some(y)) if x == y => {}
                        _ => {
                            acc.vios.add(Violation {
                                sig: format!("C08|{}|skipped-member-changes-output|{shape}|skip={:?}", lang.name(), c.skip),
                                detail: detail(json!({"with_skipped_member": format!("{a:?}").chars().take(600).collect::<String>(), "member_deleted": format!("{b:?}").chars().take(600).collect::<String>()})),
                            });
                        }
                    }
                }
            }
        }
    }
    if acc.samples.len() < 2 && c.chain.len() >= 2 {
        acc.sample(json!({"construct": c.bad, "rust_type": full_ty(c).render(), "position": c.position, "skip": format!("{:?}", c.skip)}));
    }
}

fn gen_type_case(ch: &mut Chooser, max_depth: usize) -> TypeCase {
    let bad = *ch.pick("construct", &BAD_TYPES);
    let position = *ch.pick("position", &TYPE_POSITIONS);
    let depth = ch.choose("depth", max_depth + 1);
    let chain: Vec<&'static str> = (0..depth).map(|_| *ch.pick("carrier", &CARRIERS)).collect();
    let skip = *ch.pick("skip", &TYPE_SKIPS);
    // where the items are declared: for the short chains
    let placement = if depth <= 1 { ch.choose("declared_in", PLACEMENTS.len()) } else { 0 };
    TypeCase { placement, bad, chain, position, skip }
}

// ---------- structural constructs ----------

const STRUCTURAL: [&str; 28] = [
    "const-not",
    "const-not-paren",
    "const-deref-ref",
    "flatten-struct-field-with-serialized-as",
    "flatten-variant-field-with-serialized-as",
    "flatten-struct-field-after-rename",
    "flatten-struct-field-before-rename",
    "flatten-variant-field-after-rename",
    "flatten-variant-field-before-rename",
    "tuple-struct-2",
    "tuple-variant-2",
    "flatten-struct-field",
    "flatten-variant-field",
    "enum-no-tag",
    "enum-no-content",
    "enum-no-tag-no-content",
    "unit-enum-with-tag",
    "unit-enum-with-content",
    "unit-enum-with-both",
    // the key is there but names nothing: still a tag / content attribute on a unit enum
    "unit-enum-with-empty-tag",
    "unit-enum-with-blank-content",
    "const-string",
    "const-float",
    "const-bool",
    "const-sum",
    "const-call",
    "const-negative",
    "const-paren",
];

/// (source, skippable member?, expected: Reject | Value(v))
pub fn structural_program(kind: &str, skip: Skip) -> Option<(File, Option<File>)> {
    let keep = Field::new("keep", Ty::Prim("u32"));
    let can_skip = matches!(kind, "tuple-variant-2") || kind.starts_with("flatten-") || kind.starts_with("enum-no-") || kind.starts_with("unit-enum-with-");
    if skip != Skip::No && !can_skip {
        return None;
    }
    let f = match kind {
        "tuple-struct-2" => File::single(vec![Item::new("Outer", IKind::TupleStruct(vec![Ty::Prim("u32"), Ty::Prim("String")]))]),
        "tuple-variant-2" => {
            let mut v = Variant::new("Bad", VKind::Tuple(vec![Ty::Prim("u32"), Ty::Prim("String")]));
            v.skip = skip;
            let with = File::single(vec![Item::enumm("Outer", vec![Variant::new("Keep", VKind::Newtype(Ty::Prim("u32"))), v])]);
            let without = File::single(vec![Item::enumm("Outer", vec![Variant::new("Keep", VKind::Newtype(Ty::Prim("u32")))])]);
            return Some((with, Some(without)));
        }
        k if k.starts_with("flatten-") => {
            let mut bad = Field::new("bad", Ty::user("Other"));
            bad.flatten = true;
            bad.skip = skip;
            // `flatten` in one attribute with a valued argument, after or before it
            if kind.ends_with("-after-rename") {
                bad.rename = Some("extra".into());
                bad.style = AttrStyle::Merged;
            } else if kind.ends_with("-before-rename") {
                bad.rename = Some("extra".into());
                bad.style = AttrStyle::MergedReversed;
            } else if kind.ends_with("-with-serialized-as") {
                // a second, unrelated override on the same field must not switch the flatten check off
                bad.serialized_as = Some("String".into());
            }
            let other = Item::strukt("Other", vec![Field::new("o", Ty::Prim("u32"))]);
            let mk = |fields: Vec<Field>| {
                if kind.starts_with("flatten-struct-field") {
                    Item::strukt("Outer", fields)
                } else {
                    Item::enumm("Outer", vec![Variant::new("Sv", VKind::Struct(fields)), Variant::new("U", VKind::Unit)])
                }
            };
            let with = File::single(vec![other.clone(), mk(vec![keep.clone(), bad])]);
            let without = File::single(vec![other, mk(vec![keep])]);
            return Some((with, Some(without)));
        }
        "enum-no-tag" | "enum-no-content" | "enum-no-tag-no-content" => {
            // with a skip marker on the only data-carrying variant the rest is a plain unit enum
            let strip = |e: &mut Item| {
                if let IKind::Enum { tag, content, .. } = &mut e.kind {
                    if kind != "enum-no-content" {
                        *tag = None;
                    }
                    if kind != "enum-no-tag" {
                        *content = None;
                    }
                }
            };
            let mut a = Variant::new("A", VKind::Newtype(Ty::Prim("u32")));
            a.skip = skip;
            let mut e = Item::enumm("Outer", vec![a, Variant::new("B", VKind::Unit), Variant::new("C", VKind::Unit)]);
            strip(&mut e);
            if skip != Skip::No {
                // without the member: the same attributes on what is now a unit enum (a leftover tag / content key
                // on a unit enum is itself a rejected construct, so both runs must then be rejected)
                let mut w = Item::enumm("Outer", vec![Variant::new("B", VKind::Unit), Variant::new("C", VKind::Unit)]);
                if let (IKind::Enum { tag: wt, content: wc, .. }, IKind::Enum { tag, content, .. }) = (&mut w.kind, &e.kind) {
                    *wt = tag.clone();
                    *wc = content.clone();
                }
                return Some((File::single(vec![e]), Some(File::single(vec![w]))));
            }
            File::single(vec![e])
        }
        k if k.starts_with("unit-enum-with-") => {
            let dress = |e: &mut Item| {
                if let IKind::Enum { tag, content, .. } = &mut e.kind {
                    *tag = match kind { "unit-enum-with-empty-tag" => Some(String::new()), "unit-enum-with-content" | "unit-enum-with-blank-content" => None, _ => Some("t".to_string()) };
                    *content = match kind { "unit-enum-with-blank-content" => Some(" ".to_string()), "unit-enum-with-tag" | "unit-enum-with-empty-tag" => None, _ => Some("c".to_string()) };
                }
            };
            let mut e = Item::enumm("Outer", vec![Variant::new("A", VKind::Unit), Variant::new("B", VKind::Unit)]);
            dress(&mut e);
            if skip != Skip::No {
                // a skipped data-carrying variant does not turn the unit enum into an algebraic one
                let mut d = Variant::new("D", VKind::Newtype(Ty::Prim("u32")));
                d.skip = skip;
                let mut with = Item::enumm("Outer", vec![Variant::new("A", VKind::Unit), Variant::new("B", VKind::Unit), d]);
                dress(&mut with);
                return Some((File::single(vec![with]), Some(File::single(vec![e]))));
            }
            File::single(vec![e])
        }
        _ => {
            let (ty, expr) = match kind {
                "const-string" => (Ty::Prim("&str"), "\"text\""),
                "const-float" => (Ty::Prim("f64"), "1.5"),
                "const-bool" => (Ty::Prim("bool"), "true"),
                "const-sum" => (Ty::Prim("u32"), "1 + 2"),
                "const-call" => (Ty::Prim("u32"), "compute(7)"),
                "const-negative" => (Ty::Prim("i32"), "-5"),
                "const-not" => (Ty::Prim("u32"), "!0"),
                "const-not-paren" => (Ty::Prim("u32"), "!(5)"),
                "const-deref-ref" => (Ty::Prim("u32"), "*&7"),
                _ => (Ty::Prim("u32"), "(9)"),
            };
            File::single(vec![Item::new("LIMIT", IKind::Const { ty, expr: expr.into() })])
        }
    };
    Some((f, None))
}

pub fn check_structural(kind: &'static str, skip: Skip, lang: Lang, choices: &[u32], acc: &mut Acc) {
    let Some((with, without)) = structural_program(kind, skip) else {
        acc.out_of_scope += 1;
        return;
    };
    let src = render_file(&with);
    if let Err(e) = syn_ok(&src) {
        acc.machinery(format!("renderer produced invalid Rust: {e}\n{src}"));
        return;
    }
    acc.runs += 1;
    acc.judgements += 1;
    acc.inputs.insert(report::fnv64(&src));
    acc.nontrivial.insert(report::fnv64(&format!("{src}|{}", lang.name())));
    let detail = |extra: serde_json::Value| json!({"choices": choices, "construct": kind, "skip": format!("{skip:?}"), "lang": lang.name(), "source": src, "observation": extra});
    // integer-valued constant expressions typeshare can represent exactly are fine as long as the value is right
    let const_value: Option<&str> = match kind {
        "const-negative" => Some("-5"),
        "const-not" => Some("4294967295"),
        "const-not-paren" => Some("4294967290"),
        "const-deref-ref" => Some("7"),
        "const-paren" => Some("9"),
        _ => None,
    };
    let o = pipeline::run(&[SrcFile::single(src.clone())], lang, &Cfg::plain());
    acc.outcomes.insert(report::fnv64(&format!("{kind}|{}", o.kind())));
    match (&o, skip) {
        (Outcome::Panic(m), _) => acc.vios.add(Violation { sig: format!("C08|{}|crash-instead-of-error|construct={kind}", lang.name()), detail: detail(json!(m)) }),
        (Outcome::Ok(m), Skip::No) => {
            let text = m.values().next().cloned().unwrap_or_default();
            if let Some(v) = const_value {
                if !matches!(lang, Lang::TypeScript | Lang::Go | Lang::Python) {
                    return;
                }
                // accepted: then the value must be the Rust value
                let ok = crate::extract::extract(lang, &text).ok().and_then(|of| of.defs.iter().find_map(|d| if let crate::extract::Def::Const(c) = d { Some(c.value.clone()) } else { None })).map(|val| val == v).unwrap_or(false);
                if !ok {
                    acc.vios.add(Violation { sig: format!("C08|{}|const-value-changed|construct={kind}", lang.name()), detail: detail(json!({"expected_value": v, "output": text})) });
                }
            } else {
                acc.vios.add(Violation { sig: format!("C08|{}|accepted-silently|construct={kind}", lang.name()), detail: detail(json!({"output": text})) });
            }
        }
        (_, Skip::No) => {
            // rejected with an error: what the property asks for (for representable consts a rejection is also acceptable)
        }
        (with_o, _) => {
            // under a skip marker the member does not exist: same outcome (and same text) as the program without it
            let src2 = render_file(without.as_ref().unwrap());
            let b = pipeline::run(&[SrcFile::single(src2.clone())], lang, &Cfg::plain());
            let same = match (with_o, &b) {
                (Outcome::Ok(m), Outcome::Ok(_)) => b.single_text() == m.values().next().map(|s| s.as_str()).or(Some("")),
                (Outcome::Ok(_), _) | (_, Outcome::Ok(_)) => false,
                _ => true, // both rejected
            };
            if !same {
                let class = match (with_o, &b) {
                    (Outcome::Ok(_), Outcome::Ok(_)) => "skipped-member-changes-output",
                    (Outcome::Ok(_), _) => "accepted-only-because-of-skipped-member",
                    _ => "rejected-although-skipped",
                };
                acc.vios.add(Violation { sig: format!("C08|{}|{class}|construct={kind}|skip={skip:?}", lang.name()), detail: detail(json!({"with": format!("{with_o:?}").chars().take(500).collect::<String>(), "without_member_source": src2, "without": format!("{b:?}").chars().take(500).collect::<String>()})) });
            }
        }
    }
}

fn controls(rep: &mut Report) {
    match parse_errors("#[typeshare]\npub struct S { pub a: u64 }\n") {
        Ok(e) if !e.is_empty() => {}
        other => rep.machinery(format!("control: u64 field not reported as a parse error: {other:?}")),
    }
    match parse_errors("#[typeshare]\npub struct S { pub a: u32 }\n") {
        Ok(e) if e.is_empty() => {}
        other => rep.machinery(format!("control: plain struct reported errors: {other:?}")),
    }
}

pub fn run(args: &[String]) -> i32 {
    let tier = report::tier_from_env(args);
    let mut rep = Report::new("C08", &tier);
    controls(&mut rep);
    let max_depth = if rep.thorough() { 3 } else { 2 };
    {
        let (accs, stats) = explore(
            |ch| {
                gen_type_case(ch, max_depth);
            },
            |ch, acc: &mut Acc| {
                let c = gen_type_case(ch, max_depth);
                check_type_case(&c, &ch.choices(), acc);
            },
            Mode::Product,
            3,
            report::threads(),
            u64::MAX,
        );
        merge(&mut rep, "unsupported_types", accs, &stats, json!({"constructs": BAD_TYPES, "carriers": CARRIERS, "carrier_chain_depth": format!("0..={max_depth}"), "positions": TYPE_POSITIONS, "skip_states": ["none", "serde(skip)", "typeshare(skip)", "serde(skip_serializing) alone: not skipped", "serde(skip_deserializing) alone: not skipped"], "items_declared_in (chains of length ≤ 1)": ["top level", "mod a::b", "fn body", "block expression of a const", "fn inside a module"]}));
    }
    // deeper chains with at most two distinct constructors (stated cap)
    if rep.thorough() {
        let (accs, stats) = explore(
            |ch| {
                ch.choose("depth", 2);
            },
            |ch, acc: &mut Acc| {
                let depth = 4 + ch.choose("depth", 2);
                let a = *ch.pick("carrier_a", &CARRIERS);
                let b = *ch.pick("carrier_b", &CARRIERS);
                let pattern = ch.choose("pattern", 1 << depth);
                let chain: Vec<&'static str> = (0..depth).map(|i| if pattern & (1 << i) != 0 { b } else { a }).collect();
                let bad = *ch.pick("construct", &["u64", "(u32, String)"]);
                let position = *ch.pick("position", &["struct-field", "alias", "variant-payload"]);
                let c = TypeCase { placement: 0, bad, chain, position, skip: Skip::No };
                check_type_case(&c, &ch.choices(), acc);
            },
            Mode::Product,
            3,
            report::threads(),
            u64::MAX,
        );
        merge(&mut rep, "unsupported_types_deep_two_constructors", accs, &stats, json!({"depth": [4, 5], "constructors_per_chain": "≤ 2 distinct, every arrangement", "constructs": ["u64", "(u32, String)"], "positions": 3}));
    }
    {
        let (accs, stats) = explore(
            |ch| {
                ch.choose("construct", STRUCTURAL.len());
            },
            |ch, acc: &mut Acc| {
                let kind = *ch.pick("construct", &STRUCTURAL);
                let skip = *ch.pick("skip", &SKIPS);
                let lang = *ch.pick("lang", &ALL_LANGS);
                check_structural(kind, skip, lang, &ch.choices(), acc);
            },
            Mode::Product,
            1,
            report::threads(),
            u64::MAX,
        );
        merge(&mut rep, "structural_constructs", accs, &stats, json!({"constructs": STRUCTURAL, "skip_states": 3, "languages": 6}));
    }
    // the fold over several files (the real `AddAssign` for ParsedData), every position of the offending file(s)
    {
        let srcs = cli::c08_sources();
        let (accs, stats) = explore(
            |ch| {
                ch.choose("construct", 9);
            },
            |ch, acc: &mut Acc| {
                let srcs = cli::c08_sources();
                let ci = ch.choose("construct", srcs.len());
                let n = 2 + ch.choose("nfiles", 3);
                // which of the n files are bad: every non-empty subset of up to two positions
                let first = ch.choose("bad_position", n);
                let second = ch.choose("second_bad_position", n + 1); // n = none
                let layout = ch.choose("layout", 3); // 0 single-file, 1 multi one crate, 2 multi one crate per file
                let alone = ch.flag("offending_item_alone_in_its_file");
                let lang = *ch.pick("lang", &ALL_LANGS);
                let mut files = Vec::new();
                let mut bad_count = 0;
                for i in 0..n {
                    let crate_name = match layout {
                        0 => String::new(),
                        1 => "one".to_string(),
                        _ => format!("c{i}"),
                    };
                    let source = if i == first {
                        bad_count += 1;
                        let b = srcs[ci].1.replace("Good", "BadGood").replace("Outer", "BadOuter");
                        if alone {
                            cli::strip_good_item(&b)
                        } else {
                            b
                        }
                    } else if i == second {
                        bad_count += 1;
                        srcs[(ci + 1) % srcs.len()].1.replace("Good", "SecondGood").replace("Outer", "SecondOuter").replace("NAME", "SECOND_NAME")
                    } else {
                        crate::e3::good_source(&format!("g{i}"))
                    };
                    files.push(crate::pipeline::SrcFile { crate_name, path: format!("f{i}.rs"), source });
                }
                let mut cfg = Cfg::plain();
                cfg.multi_file = layout != 0;
                acc.judgements += 1;
                acc.runs += 1;
                acc.inputs.insert(report::fnv64(&format!("{ci}|{n}|{first}|{second}|{layout}|{alone}")));
                if first != 0 || n > 2 {
                    acc.nontrivial.insert(report::fnv64(&format!("{ci}|{n}|{first}|{second}|{layout}")));
                }
                let o = crate::pipeline::run(&files, lang, &cfg);
                acc.outcomes.insert(report::fnv64(o.kind()));
                let shape = format!("construct={}|files={n}|bad_at={first}{}|layout={layout}|alone={}", srcs[ci].0, if second < n && second != first { format!("+{second}") } else { String::new() }, alone as u8);
                let detail = |what: String| json!({"choices": ch.choices(), "lang": lang.name(), "files": files.iter().map(|f| json!({"crate": f.crate_name, "path": f.path, "source": f.source})).collect::<Vec<_>>(), "observation": what});
                match &o {
                    crate::pipeline::Outcome::ParseErrors(e) => {
                        if e.len() < bad_count {
                            acc.vios.add(Violation { sig: format!("C08|{}|fold-lost-errors|{shape}", lang.name()), detail: detail(format!("{} error(s) reported for {bad_count} offending files: {e:?}", e.len())) });
                        }
                    }
                    other => acc.vios.add(Violation { sig: format!("C08|{}|fold-accepted:{}|{shape}", lang.name(), other.kind()), detail: detail(format!("{other:?}").chars().take(400).collect()) }),
                }
            },
            Mode::Product,
            2,
            report::threads(),
            u64::MAX,
        );
        merge(&mut rep, "fold_over_files", accs, &stats, json!({"constructs": srcs.iter().map(|c| c.0).collect::<Vec<_>>(), "files": "2..=4", "offending_files": "1 or 2, every position", "layouts": ["single-file", "multi-file one crate", "multi-file crate per file"], "offending_item_alone_in_its_file": [false, true], "languages": 6}));
    }
    // a member under a cfg that the target list *accepts* is a member like any other: its unsupported construct is reported
    {
        const GUARDS: [&str; 7] = [
            "target_os = \"ios\"",
            "any(target_os = \"ios\", target_os = \"macos\")",
            "any(target_os = \"ios\", all(test, target_os = \"macos\"))",
            "any(all(unix, target_os = \"ios\"), target_os = \"macos\")",
            "all(feature = \"f\", any(target_os = \"ios\", debug_assertions))",
            "not(target_os = \"android\")",
            "all(not(test), not(target_os = \"android\"), target_os = \"ios\")",
        ];
        const MEMBERS: [&str; 3] = ["pub ticks: u64,", "pub pair: Vec<(u32, String)>,", "#[serde(flatten)] pub rest: Good,"];
        let mut judged = 0u64;
        for g in GUARDS {
            for m in MEMBERS {
                for position in ["struct-field", "variant-field"] {
                    let src = if position == "struct-field" {
                        format!("#[typeshare]\npub struct Good {{ pub a: u32 }}\n#[typeshare]\npub struct Outer {{ pub keep: u32, #[cfg({g})] {m} pub tail: u32 }}\n")
                    } else {
                        format!("#[typeshare]\npub struct Good {{ pub a: u32 }}\n#[typeshare]\n#[serde(tag = \"t\", content = \"c\")]\npub enum Outer {{ Sv {{ keep: u32, #[cfg({g})] {} tail: u32 }}, U }}\n", m.replace("pub ", ""))
                    };
                    let cfg = Cfg { target_os: vec!["ios".into()], ..Cfg::plain() };
                    judged += 1;
                    let rejected = match pipeline::parse_only(&[SrcFile::single(src.clone())], &cfg) {
                        Ok(map) => map.values().any(|pd| !pd.errors.is_empty()),
                        Err(Outcome::ParseFail(_)) => true,
                        Err(_) => false,
                    };
                    if !rejected {
                        rep.vios.add(Violation {
                            sig: format!("C08|lib|accepted-silently|member-under-an-accepted-cfg|pos={position}|member={}", m.split(':').next().unwrap_or("").trim().rsplit(' ').next().unwrap_or("")),
                            detail: json!({"cfg": g, "target_os": ["ios"], "source": src, "observation": "the target list keeps the member, so its unsupported construct has to be reported"}),
                        });
                    }
                }
            }
        }
        rep.cov("members_under_an_accepted_cfg", json!({"guards": GUARDS, "members": MEMBERS, "positions": ["struct-field", "variant-field"], "target_os": ["ios"], "judgements": judged}));
        rep.cov_add("evaluations", judged);
    }
    cli::c08_cli_family(&mut rep);
    cli::c08_arrival_family(&mut rep);
    require_nonvacuous(&mut rep);
    rep.cov("rule", json!("every unsupported type planted under every carrier chain up to the stated depth at 9 positions × 3 skip states, plus 17 structural constructs; without a skip marker the real parser must record an error (the CLI run must fail and leave the output location untouched), with a skip marker the run must succeed and produce exactly the output of the program with the member deleted. non-trivial = nested position or skip marker present."));
    rep.assume("integer constant expressions whose value typeshare can represent (`-5`, `(9)`) may be accepted, but then the generated value must equal the Rust value");
    rep.finish()
}
