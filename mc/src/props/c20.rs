//! C20 — CLI options override typeshare.toml; generated config files round-trip.
use crate::cli::{self, par_map, run_cli, s, Scratch};
use crate::extract;
use crate::pipeline::Lang;
use crate::report::{self, Report, Violation};
use serde_json::json;

const SRC: &str = "#[typeshare]\npub struct Item { pub user_id: u32, pub when: DateTime, pub items: Option<Vec<u32>>, pub nothing: () }\n\n#[typeshare]\npub struct Wrapper<T> { pub inner: T }\n\n#[typeshare]\npub struct OAuthToken { pub oauth_token: String, pub ipv6_addr: u32, pub api_url: String }\n\n#[typeshare(swift = \"Equatable\")]\npub struct Decorated { pub a: u32 }\n\n#[typeshare(swiftGenericConstraints = \"T: Equatable\")]\npub struct Pair<T, U> { pub t: T, pub u: U }\n\n#[typeshare(swift = \"Equatable\", swiftGenericConstraints = \"A: Hashable & Comparable\")]\n#[serde(tag = \"type\", content = \"content\")]\npub enum Both<A, B> { One(A), Two(B) }\n\n#[typeshare]\npub struct Labelled { pub labels: HashMap<String, String>, pub counts: Vec<HashMap<String, u32>> }\n";

/// Swift: the conformance list of `decl_name` and the constraint sets of its generic parameters, as sets
fn swift_decl_sets(text: &str, decl_name: &str) -> Option<(Vec<String>, std::collections::BTreeMap<String, Vec<String>>)> {
    let line = text.lines().find(|l| (l.contains("struct ") || l.contains("enum ")) && l.split(|c: char| !c.is_alphanumeric() && c != '_').any(|w| w == decl_name) && l.trim_end().ends_with('{'))?;
    let after = line.split_once(decl_name)?.1;
    let (generics, rest) = if let Some(r) = after.strip_prefix('<') {
        let end = r.find('>')?;
        (&r[..end], &r[end + 1..])
    } else {
        ("", after)
    };
    let mut params = std::collections::BTreeMap::new();
    for p in generics.split(',').map(|p| p.trim()).filter(|p| !p.is_empty()) {
        let (n, cs) = p.split_once(':').unwrap_or((p, ""));
        params.insert(n.trim().to_string(), cs.split('&').map(|c| c.trim().to_string()).filter(|c| !c.is_empty()).collect());
    }
    let conf = rest.trim().trim_start_matches(':').trim_end_matches('{').split(',').map(|c| c.trim().to_string()).filter(|c| !c.is_empty()).collect();
    Some((conf, params))
}
fn has_all(set: &[String], want: &[&str]) -> bool {
    want.iter().all(|w| set.iter().any(|s| s == w))
}

/// the five double-homed settings: (cli flag, toml table, toml key, cli value, file value)
const SETTINGS: [(&str, &str, &str, &str, &str); 5] = [
    ("--swift-prefix", "swift", "prefix", "CliS", "FileS"),
    ("--kotlin-prefix", "kotlin", "prefix", "CliK", "FileK"),
    ("--java-package", "kotlin", "package", "cli.kt.pkg", "file.kt.pkg"),
    ("--scala-package", "scala", "package", "cli.sc.pkg", "file.sc.pkg"),
    ("--go-package", "go", "package", "cligo", "filego"),
];

fn toml_for(file_mask: u32, extra: &str) -> String {
    let mut tables: std::collections::BTreeMap<&str, Vec<String>> = Default::default();
    for (i, (_, table, key, _, fv)) in SETTINGS.iter().enumerate() {
        if file_mask & (1 << i) != 0 {
            tables.entry(table).or_default().push(format!("{key} = \"{fv}\""));
        }
    }
    let mut s = String::new();
    for (t, kv) in tables {
        s.push_str(&format!("[{t}]\n{}\n\n", kv.join("\n")));
    }
    s.push_str(extra);
    s
}

fn cli_args_for(cli_mask: u32) -> Vec<String> {
    let mut v = Vec::new();
    for (i, (flag, _, _, cv, _)) in SETTINGS.iter().enumerate() {
        if cli_mask & (1 << i) != 0 {
            v.push(s(flag));
            v.push(s(cv));
        }
    }
    v
}

/// reference model: CLI > file > default
fn effective(i: usize, cli_mask: u32, file_mask: u32) -> &'static str {
    if cli_mask & (1 << i) != 0 {
        SETTINGS[i].3
    } else if file_mask & (1 << i) != 0 {
        SETTINGS[i].4
    } else {
        ""
    }
}

#[derive(Debug)]
struct Observed {
    class: &'static str,
    package: Option<String>,
    item_name: Option<String>,
    text: String,
    stderr: String,
    argv: Vec<String>,
}

fn run_lang(sc: &Scratch, lang: Lang, extra_args: &[String], cwd_rel: &str) -> Observed {
    let out = sc.path(&format!("out/types.{}", lang.ext()));
    let _ = std::fs::remove_file(&out);
    sc.mkdir("out");
    let mut args = vec![s("--lang"), s(lang.name())];
    args.extend(extra_args.iter().cloned());
    args.extend([s("-o"), out.to_string_lossy().into_owned(), sc.path("ws").to_string_lossy().into_owned()]);
    let r = run_cli(&args, &sc.path(cwd_rel), &[], cli::TIMEOUT);
    let text = std::fs::read_to_string(&out).unwrap_or_default();
    let (package, item_name) = match extract::extract(lang, &text) {
        Ok(of) => (of.package.clone(), of.defs.iter().map(|d| d.name().to_string()).find(|n| n.ends_with("Item"))),
        Err(_) => (None, None),
    };
    Observed { class: r.class(), package, item_name, text, stderr: r.stderr.chars().take(800).collect(), argv: args }
}

fn judge_matrix_cell(rep_v: &mut Vec<Violation>, lang: Lang, cli_mask: u32, file_mask: u32, o: &Observed) -> bool {
    let shape = |what: &str, setting: &str| format!("C20|{}|{what}|setting={setting}|cli={}|file={}", lang.name(), (cli_mask != 0) as u8, (file_mask != 0) as u8);
    let detail = |what: &str| json!({"lang": lang.name(), "cli_mask": format!("{cli_mask:05b}"), "file_mask": format!("{file_mask:05b}"), "argv": o.argv, "config_file": toml_for(file_mask, ""), "observed_package": o.package, "observed_item_name": o.item_name, "exit": o.class, "stderr": o.stderr, "observation": what});
    let mut ok = true;
    let mut bad = |v: Violation| {
        rep_v.push(v);
    };
    match lang {
        Lang::Swift => {
            let want = format!("{}Item", effective(0, cli_mask, file_mask));
            if o.class != "ok" || o.item_name.as_deref() != Some(want.as_str()) {
                ok = false;
                let src = if cli_mask & 1 != 0 { "cli" } else if file_mask & 1 != 0 { "file" } else { "default" };
                bad(Violation { sig: format!("{}|expected_from={src}", shape("wrong-prefix", "swift-prefix")), detail: detail(&format!("expected type name {want}")) });
            }
        }
        Lang::Kotlin => {
            let want = format!("{}Item", effective(1, cli_mask, file_mask));
            let pkg = effective(2, cli_mask, file_mask);
            if o.class != "ok" || o.item_name.as_deref() != Some(want.as_str()) {
                ok = false;
                let src = if cli_mask & 2 != 0 { "cli" } else if file_mask & 2 != 0 { "file" } else { "default" };
                bad(Violation { sig: format!("{}|expected_from={src}", shape("wrong-prefix", "kotlin-prefix")), detail: detail(&format!("expected type name {want}")) });
            }
            let got = o.package.clone().unwrap_or_default();
            if o.class == "ok" && got != pkg {
                ok = false;
                let src = if cli_mask & 4 != 0 { "cli" } else if file_mask & 4 != 0 { "file" } else { "default" };
                bad(Violation { sig: format!("{}|expected_from={src}", shape("wrong-package", "java-package")), detail: detail(&format!("expected package `{pkg}`")) });
            }
        }
        Lang::Scala => {
            let pkg = effective(3, cli_mask, file_mask);
            if pkg.is_empty() {
                if o.class != "error" {
                    ok = false;
                    bad(Violation { sig: shape(&format!("missing-package-not-an-error:{}", o.class), "scala-package"), detail: detail("no package configured anywhere: the run must fail with a diagnostic") });
                }
            } else if o.class != "ok" || o.package.as_deref() != Some(pkg) {
                ok = false;
                let src = if cli_mask & 8 != 0 { "cli" } else { "file" };
                bad(Violation { sig: format!("{}|expected_from={src}", shape("wrong-package", "scala-package")), detail: detail(&format!("expected package `{pkg}`")) });
            }
        }
        Lang::Go => {
            let pkg = effective(4, cli_mask, file_mask);
            if pkg.is_empty() {
                if o.class != "error" {
                    ok = false;
                    bad(Violation { sig: shape(&format!("missing-package-not-an-error:{}", o.class), "go-package"), detail: detail("no package configured anywhere: the run must fail with a diagnostic") });
                }
            } else if o.class != "ok" || o.package.as_deref() != Some(pkg) {
                ok = false;
                let src = if cli_mask & 16 != 0 { "cli" } else { "file" };
                bad(Violation { sig: format!("{}|expected_from={src}", shape("wrong-package", "go-package")), detail: detail(&format!("expected package `{pkg}`")) });
            }
        }
        _ => {}
    }
    ok
}

pub fn run(args: &[String]) -> i32 {
    let tier = report::tier_from_env(args);
    let mut rep = Report::new("C20", &tier);
    if !cli::bin_available() {
        rep.machinery(format!("hooks-on CLI binary missing at {}", cli::BIN));
        return rep.finish();
    }
    // control: the reference model
    if effective(0, 1, 1) != "CliS" || effective(0, 0, 1) != "FileS" || effective(0, 0, 0) != "" {
        rep.machinery("control: effective() wrong");
    }
    let langs = [Lang::Swift, Lang::Kotlin, Lang::Scala, Lang::Go];
    // 1. the full 2^5 × 2^5 presence matrix × the four languages the settings affect
    let mut cells: Vec<(u32, u32, Lang)> = Vec::new();
    for c in 0..32u32 {
        for f in 0..32u32 {
            for l in langs {
                cells.push((c, f, l));
            }
        }
    }
    let results: Vec<(bool, Vec<Violation>, String)> = par_map(&cells, report::threads(), |(c, f, lang)| {
        let sc = Scratch::new("c20");
        sc.write("ws/app/src/lib.rs", SRC.as_bytes());
        sc.write("cfg/typeshare.toml", toml_for(*f, "").as_bytes());
        let mut extra = cli_args_for(*c);
        extra.extend([s("-c"), sc.path("cfg/typeshare.toml").to_string_lossy().into_owned()]);
        let o = run_lang(&sc, *lang, &extra, "");
        let mut v = Vec::new();
        let ok = judge_matrix_cell(&mut v, *lang, *c, *f, &o);
        (ok, v, format!("{}|{}|{:?}", o.class, o.package.clone().unwrap_or_default(), o.item_name))
    });
    let mut outcomes = std::collections::BTreeSet::new();
    let mut matrix_ok = 0u64;
    for (ok, v, oc) in results {
        if ok {
            matrix_ok += 1;
        }
        outcomes.insert(oc);
        for x in v {
            rep.vios.add(x);
        }
    }
    rep.cov("presence_matrix", json!({"cells": cells.len(), "cells_conforming": matrix_ok, "settings": SETTINGS.iter().map(|s| s.0).collect::<Vec<_>>(), "languages": langs.iter().map(|l| l.name()).collect::<Vec<_>>(), "distinct_outcomes": outcomes.len()}));

    // 1b. an option given on the command line with the empty string is still "given": the file's value must not be used
    let mut empty_runs = 0u64;
    {
        let lang_of = [Lang::Swift, Lang::Kotlin, Lang::Kotlin, Lang::Scala, Lang::Go];
        for (i, (flag, _, _, _, file_value)) in SETTINGS.iter().enumerate() {
            for via in ["-c", "cwd"] {
                let sc = Scratch::new("c20e");
                sc.write("ws/app/src/lib.rs", SRC.as_bytes());
                // every setting present in the file, so that the other languages' requirements are met
                let toml = toml_for(31, "");
                let mut extra = vec![s(flag), String::new()];
                let cwd = if via == "-c" {
                    sc.write("cfg/typeshare.toml", toml.as_bytes());
                    extra.extend([s("-c"), sc.path("cfg/typeshare.toml").to_string_lossy().into_owned()]);
                    ""
                } else {
                    sc.write("proj/typeshare.toml", toml.as_bytes());
                    "proj"
                };
                let o = run_lang(&sc, lang_of[i], &extra, cwd);
                empty_runs += 1;
                // either the run refuses the empty value with a diagnostic, or it generates with the empty value;
                // what it must not do is fall back to the file
                let used_file_value = o.class == "ok" && o.text.contains(file_value);
                if used_file_value || !matches!(o.class, "ok" | "error") {
                    rep.vios.add(Violation {
                        sig: format!("C20|{}|empty-cli-value-lost-to-file|setting={}|via={via}", lang_of[i].name(), flag.trim_start_matches("--")),
                        detail: json!({"argv": o.argv, "config_file": toml, "exit": o.class, "stderr": o.stderr, "output": o.text.chars().take(600).collect::<String>(), "observation": format!("`{flag} \"\"` was given, yet the output carries the file's value `{file_value}`")}),
                    });
                }
            }
        }
    }
    rep.cov("empty_cli_values", json!({"runs": empty_runs, "settings": SETTINGS.iter().map(|s| s.0).collect::<Vec<_>>(), "config_found_via": ["-c", "working directory"]}));
    rep.cov_add("evaluations", empty_runs);
    rep.cov_add("traces_validated_against_impl", empty_runs);
    // 2. file-only tables are applied unchanged
    let mut table_runs = 0u64;
    {
        let table_cases: Vec<(&str, Lang, String, Box<dyn Fn(&str) -> bool + Send + Sync>)> = vec![
            ("type_mappings-1", Lang::TypeScript, "[typescript.type_mappings]\nDateTime = \"MappedDate\"\n".into(), Box::new(|t: &str| t.contains("when: MappedDate"))),
            ("type_mappings-2", Lang::TypeScript, "[typescript.type_mappings]\nDateTime = \"MappedDate\"\n\"Vec<u32>\" = \"Uint32List\"\n".into(), Box::new(|t: &str| t.contains("when: MappedDate") && t.contains("Uint32List"))),
            ("type_mappings-0", Lang::TypeScript, "[typescript.type_mappings]\n".into(), Box::new(|t: &str| t.contains("when: DateTime") && t.contains("items?: number[]"))),
            ("type_mappings-kotlin", Lang::Kotlin, "[kotlin]\npackage = \"p.q\"\n[kotlin.type_mappings]\nDateTime = \"java.time.Instant\"\n".into(), Box::new(|t: &str| t.contains("val when: java.time.Instant"))),
            ("type_mappings-swift", Lang::Swift, "[swift.type_mappings]\nDateTime = \"Date\"\n".into(), Box::new(|t: &str| t.contains("let when: Date"))),
            ("type_mappings-go-container", Lang::Go, "[go]\npackage = \"p\"\n[go.type_mappings]\nDateTime = \"string\"\n\"Vec<u32>\" = \"Uint32s\"\n".into(), Box::new(|t: &str| t.contains("When string") && t.contains("Uint32s"))),
            // keys naming an instance of a map, in typeshare's own spelling of it (TypeScript, Go and Python look those up)
            ("type_mappings-ts-map-instance", Lang::TypeScript, "[typescript.type_mappings]\nDateTime = \"MappedDate\"\n\"HashMap<String,String>\" = \"StringMap\"\n\"HashMap<String,u32>\" = \"Counts\"\n".into(), Box::new(|t: &str| t.contains("labels: StringMap") && t.contains("counts: Counts[]"))),
            ("type_mappings-go-map-instance", Lang::Go, "[go]\npackage = \"p\"\n[go.type_mappings]\nDateTime = \"string\"\n\"HashMap<String,String>\" = \"StringMap\"\n\"HashMap<String,u32>\" = \"Counts\"\n".into(), Box::new(|t: &str| t.contains("Labels StringMap") && t.contains("Counts []Counts"))),
            ("type_mappings-python-map-instance", Lang::Python, "[python.type_mappings]\nDateTime = \"datetime\"\n\"HashMap<String,String>\" = \"StringMap\"\n\"HashMap<String,u32>\" = \"Counts\"\n".into(), Box::new(|t: &str| t.contains("labels: StringMap") && t.contains("counts: List[Counts]"))),
            // keys naming scalar special types
            ("type_mappings-go-scalar", Lang::Go, "[go]\npackage = \"p\"\n[go.type_mappings]\nDateTime = \"string\"\nu32 = \"MyU32\"\nString = \"MyString\"\n".into(), Box::new(|t: &str| t.contains("UserId MyU32") && t.contains("MyString"))),
            ("type_mappings-ts-scalar", Lang::TypeScript, "[typescript.type_mappings]\nDateTime = \"MappedDate\"\nu32 = \"MyU32\"\n".into(), Box::new(|t: &str| t.contains("user_id: MyU32"))),
            // a mapped name is written as configured, also when it is a word the backend would escape in a generated name
            ("type_mappings-swift-keyword-value", Lang::Swift, "[swift.type_mappings]\nDateTime = \"Any\"\n".into(), Box::new(|t: &str| t.contains("let when: Any\n") || t.contains("let when: Any "))),
            ("type_mappings-python", Lang::Python, "[python.type_mappings]\nDateTime = \"datetime\"\n".into(), Box::new(|t: &str| t.contains("datetime"))),
            ("default_decorators", Lang::Swift, "[swift]\ndefault_decorators = [\"Sendable\", \"Hashable\"]\n[swift.type_mappings]\nDateTime = \"Date\"\n".into(), Box::new(|t: &str| t.contains("struct Item: Codable, Sendable, Hashable"))),
            ("default_generic_constraints", Lang::Swift, "[swift]\ndefault_generic_constraints = [\"Sendable\"]\n[swift.type_mappings]\nDateTime = \"Date\"\n".into(), Box::new(|t: &str| t.contains("Wrapper<T: Codable & Sendable>"))),
            // a file-only default and an item-level annotation of the same kind: both apply (union)
            ("default_decorators+item-decorator", Lang::Swift, "[swift]\ndefault_decorators = [\"Sendable\", \"Hashable\"]\n[swift.type_mappings]\nDateTime = \"Date\"\n".into(), Box::new(|t: &str| {
                swift_decl_sets(t, "Decorated").map(|(c, _)| has_all(&c, &["Codable", "Sendable", "Hashable", "Equatable"])).unwrap_or(false)
                    && swift_decl_sets(t, "Both").map(|(c, _)| has_all(&c, &["Codable", "Sendable", "Hashable", "Equatable"])).unwrap_or(false)
                    && swift_decl_sets(t, "Pair").map(|(c, _)| has_all(&c, &["Codable", "Sendable", "Hashable"]) && !c.iter().any(|x| x == "Equatable")).unwrap_or(false)
            })),
            ("default_generic_constraints+item-constraints", Lang::Swift, "[swift]\ndefault_generic_constraints = [\"Sendable\"]\n[swift.type_mappings]\nDateTime = \"Date\"\n".into(), Box::new(|t: &str| {
                swift_decl_sets(t, "Pair").map(|(_, p)| has_all(p.get("T").map(|v| v.as_slice()).unwrap_or(&[]), &["Codable", "Equatable", "Sendable"]) && has_all(p.get("U").map(|v| v.as_slice()).unwrap_or(&[]), &["Codable", "Sendable"]) && !p["U"].iter().any(|x| x == "Equatable")).unwrap_or(false)
                    && swift_decl_sets(t, "Both").map(|(_, p)| has_all(p.get("A").map(|v| v.as_slice()).unwrap_or(&[]), &["Codable", "Hashable", "Comparable", "Sendable"]) && has_all(p.get("B").map(|v| v.as_slice()).unwrap_or(&[]), &["Codable", "Sendable"])).unwrap_or(false)
            })),
            ("both-defaults+both-annotations", Lang::Swift, "[swift]\ndefault_decorators = [\"Sendable\"]\ndefault_generic_constraints = [\"Sendable\", \"Identifiable\"]\nprefix = \"Fp\"\n[swift.type_mappings]\nDateTime = \"Date\"\n".into(), Box::new(|t: &str| {
                swift_decl_sets(t, "FpBoth").map(|(c, p)| has_all(&c, &["Codable", "Sendable", "Equatable"]) && has_all(p.get("A").map(|v| v.as_slice()).unwrap_or(&[]), &["Codable", "Hashable", "Comparable", "Sendable", "Identifiable"]) && has_all(p.get("B").map(|v| v.as_slice()).unwrap_or(&[]), &["Codable", "Sendable", "Identifiable"])).unwrap_or(false)
            })),
            ("codablevoid_constraints", Lang::Swift, "[swift]\ncodablevoid_constraints = [\"Equatable\"]\n[swift.type_mappings]\nDateTime = \"Date\"\n".into(), Box::new(|t: &str| t.contains("struct CodableVoid: Codable, Equatable"))),
            ("uppercase_acronyms", Lang::Go, "[go]\npackage = \"p\"\nuppercase_acronyms = [\"ID\"]\n[go.type_mappings]\nDateTime = \"string\"\n".into(), Box::new(|t: &str| t.contains("UserID uint32"))),
            // mixed-case entries: whatever the list says reaches the generator as it is. The expectation is computed by the
            // library itself, configured in-process with the very same list (differential: file-only table == API argument)
            ("uppercase_acronyms-mixed-case", Lang::Go, "[go]\npackage = \"p\"\nuppercase_acronyms = [\"OAuth\", \"IPv6\", \"url\", \"ID\"]\n[go.type_mappings]\nDateTime = \"string\"\n".into(), Box::new(|t: &str| {
                let cfg = crate::pipeline::Cfg { package: "p".into(), go_uppercase_acronyms: vec!["OAuth".into(), "IPv6".into(), "url".into(), "ID".into()], type_mappings: vec![("DateTime".into(), "string".into())], ..Default::default() };
                let body = |x: &str| x.lines().filter(|l| !l.trim().is_empty() && !l.trim_start().starts_with("//")).map(|l| l.to_string()).collect::<Vec<_>>();
                match crate::pipeline::run(&[crate::pipeline::SrcFile::single(SRC)], Lang::Go, &cfg) {
                    crate::pipeline::Outcome::Ok(m) => m.values().next().map(|lib| body(lib) == body(t)).unwrap_or(false),
                    _ => false,
                }
            })),
            // acronyms are converted in declarations and in every reference alike (the extra source of this case declares
            // AccountId and uses it as a map key, a generic argument and an alias target)
            ("generic-base-go-acronym-references", Lang::Go, "[go]\npackage = \"p\"\nuppercase_acronyms = [\"ID\"]\n[go.type_mappings]\nDateTime = \"string\"\nStamped = \"string\"\n".into(), Box::new(|t: &str| {
                t.contains("type AccountID ") && !t.split(|c: char| !c.is_alphanumeric() && c != '_').any(|w| w == "AccountId")
            })),
            ("uppercase_acronyms-absent", Lang::Go, "[go]\npackage = \"p\"\n[go.type_mappings]\nDateTime = \"string\"\n".into(), Box::new(|t: &str| t.contains("UserId uint32"))),
            ("no_pointer_slice-true", Lang::Go, "[go]\npackage = \"p\"\nno_pointer_slice = true\n[go.type_mappings]\nDateTime = \"string\"\n".into(), Box::new(|t: &str| t.contains("Items []uint32 "))),
            ("no_pointer_slice-false", Lang::Go, "[go]\npackage = \"p\"\nno_pointer_slice = false\n[go.type_mappings]\nDateTime = \"string\"\n".into(), Box::new(|t: &str| t.contains("Items *[]uint32 "))),
            ("no_pointer_slice-absent", Lang::Go, "[go]\npackage = \"p\"\n[go.type_mappings]\nDateTime = \"string\"\n".into(), Box::new(|t: &str| t.contains("Items *[]uint32 "))),
            // a mapping keyed by the base of a generic type replaces the whole expression, arguments included (the extra
            // source file of these cases uses Stamped<OffsetDateTime> and Stamped<()>)
            ("generic-base-kotlin", Lang::Kotlin, "[kotlin]\npackage = \"p.q\"\n[kotlin.type_mappings]\nDateTime = \"String\"\nStamped = \"String\"\n".into(), Box::new(|t: &str| t.contains("val stamp: String") && t.contains("val blank: String"))),
            ("generic-base-swift", Lang::Swift, "[swift.type_mappings]\nDateTime = \"Date\"\nStamped = \"String\"\n".into(), Box::new(|t: &str| t.contains("let stamp: String") && t.contains("let blank: String"))),
            ("generic-base-go", Lang::Go, "[go]\npackage = \"p\"\n[go.type_mappings]\nDateTime = \"string\"\nStamped = \"string\"\n".into(), Box::new(|t: &str| t.contains("Stamp string") && t.contains("Blank string") && !t.contains("\"time\""))),
            ("generic-base-scala", Lang::Scala, "[scala]\npackage = \"a.b\"\n[scala.type_mappings]\nDateTime = \"String\"\nStamped = \"String\"\n".into(), Box::new(|t: &str| t.contains("stamp: String") && t.contains("blank: String"))),
            ("scala-mappings", Lang::Scala, "[scala]\npackage = \"a.b\"\n[scala.type_mappings]\nDateTime = \"java.time.Instant\"\n".into(), Box::new(|t: &str| t.contains("when: java.time.Instant"))),
        ];
        for (name, lang, toml, pred) in &table_cases {
            // each table is honoured both via -c and via discovery from the working directory
            for via in ["-c", "cwd"] {
                let sc = Scratch::new("c20t");
                sc.write("ws/app/src/lib.rs", SRC.as_bytes());
                if name.starts_with("generic-base") {
                    sc.write("ws/app/src/receipts.rs", b"#[typeshare]\npub struct Receipt { pub stamp: Stamped<OffsetDateTime>, pub blank: Stamped<()> }\n");
                    if name.contains("acronym") {
                        sc.write("ws/app/src/ledger.rs", b"#[typeshare]\npub struct AccountId { pub v: u32 }\n#[typeshare]\npub struct Ledger { pub by_id: HashMap<AccountId, String>, pub wrapped: Wrapper<AccountId>, pub all: Vec<AccountId> }\n#[typeshare]\npub type AccountIds = Vec<AccountId>;\n");
                    }
                }
                let (extra, cwd) = if via == "-c" {
                    sc.write("elsewhere/custom.toml", toml.as_bytes());
                    (vec![s("-c"), sc.path("elsewhere/custom.toml").to_string_lossy().into_owned()], "")
                } else {
                    sc.write("proj/typeshare.toml", toml.as_bytes());
                    sc.mkdir("proj");
                    (vec![], "proj")
                };
                let o = run_lang(&sc, *lang, &extra, cwd);
                table_runs += 1;
                if o.class != "ok" || !pred(&o.text) {
                    rep.vios.add(Violation { sig: format!("C20|{}|file-only-setting-not-applied|{name}|via={via}", lang.name()), detail: json!({"config": toml, "argv": o.argv, "exit": o.class, "stderr": o.stderr, "output": o.text}) });
                }
            }
        }
    }
    // 2b. a file-only type mapping also governs the imports of multi-file mode: a mapped name is not imported from a crate
    //     that happens to define a type of that name
    {
        for lang in [Lang::TypeScript, Lang::Kotlin] {
            for via in ["-c", "cwd"] {
                for reference in ["qualified-path", "use"] {
                    let sc = Scratch::new("c20m");
                    let (use_line, ty) = if reference == "use" { ("use models::Stamp;\n", "Stamp") } else { ("", "models::Stamp") };
                    sc.write("ws/app/src/lib.rs", format!("{use_line}use models::Page;\n#[typeshare]\npub struct Entry {{ pub at: {ty}, pub page: Page }}\n").as_bytes());
                    sc.write("ws/models/src/lib.rs", b"#[typeshare]\npub struct Stamp { pub secs: u32 }\n#[typeshare]\npub struct Page { pub n: u32 }\n");
                    let table = if lang == Lang::TypeScript { "[typescript.type_mappings]\nStamp = \"string\"\n" } else { "[kotlin]\npackage = \"p.q\"\n[kotlin.type_mappings]\nStamp = \"String\"\n" };
                    sc.mkdir("out");
                    let mut args = vec![s("--lang"), s(lang.name())];
                    let cwd = if via == "-c" {
                        let p = sc.write("elsewhere/custom.toml", table.as_bytes());
                        args.extend([s("-c"), p.to_string_lossy().into_owned()]);
                        ""
                    } else {
                        sc.write("proj/typeshare.toml", table.as_bytes());
                        "proj"
                    };
                    args.extend([s("-d"), sc.path("out").to_string_lossy().into_owned(), sc.path("ws").to_string_lossy().into_owned()]);
                    let r = run_cli(&args, &sc.path(cwd), &[], cli::TIMEOUT);
                    table_runs += 1;
                    let app = std::fs::read_to_string(sc.path(&format!("out/app.{}", lang.ext()))).unwrap_or_default();
                    let import_lines: Vec<&str> = app.lines().filter(|l| l.trim_start().starts_with("import ") && !l.contains("kotlinx")).collect();
                    let mapped_field = app.contains(if lang == Lang::TypeScript { "at: string" } else { "val at: String" });
                    let stray = import_lines.iter().any(|l| l.split(|c: char| !c.is_alphanumeric() && c != '_').any(|t| t == "Stamp"));
                    let page_imported = import_lines.iter().any(|l| l.split(|c: char| !c.is_alphanumeric() && c != '_').any(|t| t == "Page"));
                    if r.class() != "ok" || !mapped_field || stray || !page_imported {
                        rep.vios.add(Violation {
                            sig: format!("C20|{}|file-only-setting-not-applied|type_mappings-vs-imports|reference={reference}|via={via}|{}", lang.name(), if r.class() != "ok" { "run-failed" } else if !mapped_field { "field-not-mapped" } else if stray { "mapped-name-still-imported" } else { "other-import-lost" }),
                            detail: json!({"config": table, "argv": args, "exit": r.class(), "stderr": r.stderr.chars().take(600).collect::<String>(), "app_output": app, "import_lines": import_lines}),
                        });
                    }
                }
            }
        }
    }
    // 2c. a file-only setting is applied whatever an earlier run with another configuration left at the output location:
    //     run with configuration X, then with Y, into the same file / folder; the result equals Y into an empty location
    {
        let configs = |lang: Lang| -> [String; 3] {
            match lang {
                Lang::Swift => [s("[swift]\ndefault_decorators = [\"Sendable\"]\ncodablevoid_constraints = [\"Equatable\"]\n"), s("[swift]\ndefault_decorators = [\"Hashable\"]\ncodablevoid_constraints = [\"Hashable\", \"Sendable\"]\ndefault_generic_constraints = [\"Sendable\"]\n"), s("")],
                Lang::Kotlin => [s("[kotlin]\npackage = \"p.q\"\n[kotlin.type_mappings]\nDateTime = \"String\"\n"), s("[kotlin]\npackage = \"p.q\"\n[kotlin.type_mappings]\nDateTime = \"Instant\"\n"), s("[kotlin]\npackage = \"p.q\"\n")],
                Lang::Scala => [s("[scala]\npackage = \"p.q\"\n[scala.type_mappings]\nDateTime = \"String\"\n"), s("[scala]\npackage = \"p.q\"\n[scala.type_mappings]\nDateTime = \"Instant\"\n"), s("[scala]\npackage = \"p.q\"\n")],
                Lang::Go => [s("[go]\npackage = \"p\"\nuppercase_acronyms = [\"ID\"]\n"), s("[go]\npackage = \"p\"\nuppercase_acronyms = [\"URL\", \"ID\"]\n[go.type_mappings]\nDateTime = \"time.Time\"\n"), s("[go]\npackage = \"p\"\n")],
                Lang::TypeScript => [s("[typescript.type_mappings]\nDateTime = \"string\"\n"), s("[typescript.type_mappings]\nDateTime = \"Date\"\n"), s("")],
                Lang::Python => [s("[python.type_mappings]\nDateTime = \"str\"\n"), s("[python.type_mappings]\nDateTime = \"datetime\"\n"), s("")],
            }
        };
        let mut jobs = Vec::new();
        for &lang in &crate::pipeline::ALL_LANGS {
            for folder in [false, true] {
                for (x, y) in [(0usize, 1usize), (1, 0), (0, 2), (2, 1)] {
                    jobs.push((lang, folder, x, y));
                }
            }
        }
        let results = cli::par_map(&jobs, report::threads(), |(lang, folder, x, y)| {
            let cfgs = configs(*lang);
            let sc = Scratch::new("c20r");
            sc.write("ws/app/src/lib.rs", SRC.as_bytes());
            let px = sc.write("cfg/x.toml", cfgs[*x].as_bytes());
            let py = sc.write("cfg/y.toml", cfgs[*y].as_bytes());
            let run = |cfg: &std::path::Path, loc: &str| {
                let mut args = vec![s("--lang"), s(lang.name()), s("-c"), cfg.to_string_lossy().into_owned()];
                if *folder {
                    sc.mkdir(loc);
                    args.extend([s("-d"), sc.path(loc).to_string_lossy().into_owned()]);
                } else {
                    sc.mkdir(loc);
                    args.extend([s("-o"), sc.path(&format!("{loc}/types.{}", lang.ext())).to_string_lossy().into_owned()]);
                }
                args.push(sc.path("ws").to_string_lossy().into_owned());
                let r = run_cli(&args, &sc.root, &[], cli::TIMEOUT);
                (r.class(), r.stderr.chars().take(300).collect::<String>(), args)
            };
            let r1 = run(&px, "reused");
            let r2 = run(&py, "reused");
            let r3 = run(&py, "fresh");
            (r1, r2, r3, cli::snapshot(&sc.path("reused")), cli::snapshot(&sc.path("fresh")))
        });
        for ((lang, folder, x, y), (r1, r2, r3, reused, fresh)) in jobs.iter().zip(results.iter()) {
            table_runs += 3;
            let names = ["first", "second", "none"];
            let failed = [r1, r2, r3].iter().any(|r| r.0 != "ok");
            if failed || reused != fresh {
                let differing: Vec<String> = reused.keys().chain(fresh.keys()).filter(|k| reused.get(*k) != fresh.get(*k)).cloned().collect::<std::collections::BTreeSet<_>>().into_iter().collect();
                rep.vios.add(Violation {
                    sig: format!("C20|{}|file-only-setting-not-applied|output-location-used-before-with-another-configuration|{}|earlier={}|now={}|{}", lang.name(), if *folder { "folder" } else { "file" }, names[*x], names[*y], if failed { "run-failed".to_string() } else { format!("differs:{}", differing.iter().map(|d| d.rsplit('/').next().unwrap_or(d).to_string()).collect::<Vec<_>>().join("+")) }),
                    detail: json!({"earlier_config": configs(*lang)[*x], "config": configs(*lang)[*y], "argv_earlier": r1.2, "argv": r2.2, "exits": [r1.0, r2.0, r3.0], "stderr": [&r1.1, &r2.1, &r3.1], "files_that_differ_from_a_run_into_an_empty_location": differing,
                        "reused_location": reused.iter().map(|(k, v)| (k.clone(), String::from_utf8_lossy(v).into_owned())).collect::<std::collections::BTreeMap<_, _>>(),
                        "empty_location": fresh.iter().map(|(k, v)| (k.clone(), String::from_utf8_lossy(v).into_owned())).collect::<std::collections::BTreeMap<_, _>>()}),
                });
            }
        }
    }
    // 3. discovery: ancestor search from cwd depth 0..3, nearest file wins, -c beats discovery
    let mut discovery_runs = 0u64;
    {
        let dirs = ["d0", "d0/d1", "d0/d1/d2", "d0/d1/d2/d3"];
        for cwd_depth in 0..4usize {
            for near in 0..=cwd_depth {
                for far in 0..=near {
                  for near_empty in [false, true] {
                    // an empty typeshare.toml is a legitimate "all keys absent" file and, being nearest, wins
                    if near_empty && near == far {
                        continue;
                    }
                    for with_c in [false, true] {
                        let sc = Scratch::new("c20d");
                        sc.write("ws/app/src/lib.rs", SRC.as_bytes());
                        for d in dirs {
                            sc.mkdir(d);
                        }
                        // far ancestor says FarP, nearer ancestor (if different) says NearP
                        sc.write(&format!("{}/typeshare.toml", dirs[far]), b"[swift]\nprefix = \"FarP\"\n[swift.type_mappings]\nDateTime = \"Date\"\n");
                        if near != far {
                            let near_content: &[u8] = if near_empty { b"" } else { b"[swift]\nprefix = \"NearP\"\n[swift.type_mappings]\nDateTime = \"Date\"\n" };
                            sc.write(&format!("{}/typeshare.toml", dirs[near]), near_content);
                        }
                        sc.write("explicit.toml", b"[swift]\nprefix = \"ExplicitP\"\n[swift.type_mappings]\nDateTime = \"Date\"\n");
                        let extra = if with_c { vec![s("-c"), sc.path("explicit.toml").to_string_lossy().into_owned()] } else { vec![] };
                        let o = run_lang(&sc, Lang::Swift, &extra, dirs[cwd_depth]);
                        discovery_runs += 1;
                        let want = if with_c { "ExplicitPItem" } else if near != far && near_empty { "Item" } else if near != far { "NearPItem" } else { "FarPItem" };
                        if o.item_name.as_deref() != Some(want) {
                            rep.vios.add(Violation {
                                sig: format!("C20|swift|config-discovery|explicit={}|two_levels={}|nearest_empty={}|expected={}", with_c as u8, (near != far) as u8, near_empty as u8, want.trim_end_matches("Item")),
                                detail: json!({"cwd": dirs[cwd_depth], "nearest_config_at": dirs[near], "farther_config_at": dirs[far], "argv": o.argv, "observed": o.item_name, "expected": want, "stderr": o.stderr}),
                            });
                        }
                    }
                  }
                }
            }
        }
    }
    // 4. -g: every CLI subset -> emitted TOML -> reload gives the same code; never overwrites
    let mut g_runs = 0u64;
    {
        let masks: Vec<u32> = (0..32).collect();
        let res: Vec<Vec<Violation>> = par_map(&masks, report::threads(), |mask| {
            let mut v = Vec::new();
            let sc = Scratch::new("c20g");
            sc.write("ws/app/src/lib.rs", SRC.as_bytes());
            let gen_path = sc.path("generated.toml");
            let mut a = cli_args_for(*mask);
            a.extend([s("-g"), s("-c"), gen_path.to_string_lossy().into_owned(), sc.path("ws").to_string_lossy().into_owned()]);
            let r = run_cli(&a, &sc.root, &[], cli::TIMEOUT);
            if r.class() != "ok" || !gen_path.is_file() {
                v.push(Violation { sig: format!("C20|generate-config|failed:{}", r.class()), detail: json!({"argv": a, "stderr": r.stderr}) });
                return v;
            }
            let emitted = std::fs::read_to_string(&gen_path).unwrap_or_default();
            for lang in [Lang::Swift, Lang::Kotlin, Lang::Scala, Lang::Go] {
                let direct = run_lang(&sc, lang, &cli_args_for(*mask), "");
                let direct_text = direct.text.clone();
                let reloaded = run_lang(&sc, lang, &[s("-c"), gen_path.to_string_lossy().into_owned()], "");
                if direct.class != reloaded.class || direct_text != reloaded.text {
                    v.push(Violation {
                        sig: format!("C20|{}|generated-config-does-not-round-trip|direct={}|reloaded={}", lang.name(), direct.class, reloaded.class),
                        detail: json!({"cli_mask": format!("{mask:05b}"), "emitted_toml": emitted, "direct_output": direct_text, "reloaded_output": reloaded.text, "direct_stderr": direct.stderr, "reloaded_stderr": reloaded.stderr}),
                    });
                }
            }
            // a second -g onto the existing file must fail and leave it byte-identical
            let before = std::fs::read(&gen_path).unwrap_or_default();
            let mut a2 = cli_args_for(31 - *mask);
            a2.extend([s("-g"), s("-c"), gen_path.to_string_lossy().into_owned(), sc.path("ws").to_string_lossy().into_owned()]);
            let r2 = run_cli(&a2, &sc.root, &[], cli::TIMEOUT);
            let after = std::fs::read(&gen_path).unwrap_or_default();
            if r2.class() != "error" || before != after {
                v.push(Violation { sig: format!("C20|generate-config|existing-file-not-protected|exit={}|changed={}", r2.class(), (before != after) as u8), detail: json!({"argv": a2, "stderr": r2.stderr}) });
            }
            // default location: typeshare.toml in the working directory
            let sc2 = Scratch::new("c20g2");
            sc2.write("ws/app/src/lib.rs", SRC.as_bytes());
            let mut a3 = cli_args_for(*mask);
            a3.extend([s("-g"), sc2.path("ws").to_string_lossy().into_owned()]);
            let r3 = run_cli(&a3, &sc2.root, &[], cli::TIMEOUT);
            let def = std::fs::read_to_string(sc2.path("typeshare.toml")).unwrap_or_default();
            if r3.class() != "ok" || def != emitted {
                v.push(Violation { sig: format!("C20|generate-config|default-location|exit={}", r3.class()), detail: json!({"argv": a3, "stderr": r3.stderr, "default_file": def, "explicit_file": emitted}) });
            }
            // default location below a directory that has a configuration of its own: -g starts from the defaults plus the
            // command line (it reads no file), writes ./typeshare.toml - never the ancestor's - with the same content as
            // anywhere else, and leaves the ancestor's file alone
            let sc3 = Scratch::new("c20g3");
            sc3.write("ws/app/src/lib.rs", SRC.as_bytes());
            let anc = "[swift]\nprefix = \"Anc\"\n\n[kotlin]\npackage = \"anc.pkg\"\nprefix = \"AncK\"\n";
            sc3.write("typeshare.toml", anc.as_bytes());
            sc3.mkdir("member");
            let mut a4 = cli_args_for(*mask);
            a4.extend([s("-g"), sc3.path("ws").to_string_lossy().into_owned()]);
            let r4 = run_cli(&a4, &sc3.path("member"), &[], cli::TIMEOUT);
            let written = std::fs::read_to_string(sc3.path("member/typeshare.toml")).ok();
            let anc_after = std::fs::read_to_string(sc3.path("typeshare.toml")).unwrap_or_default();
            if r4.class() != "ok" || written.as_deref() != Some(emitted.as_str()) || anc_after != anc {
                v.push(Violation {
                    sig: format!("C20|generate-config|below-a-configured-directory|exit={}|written={}|ancestor_changed={}", r4.class(), match &written { None => "nothing", Some(w) if *w == emitted => "as-elsewhere", Some(_) => "different-content" }, (anc_after != anc) as u8),
                    detail: json!({"argv": a4, "cwd": "member (its parent holds a typeshare.toml)", "stderr": r4.stderr, "written": written, "expected": emitted, "ancestor_file_after": anc_after}),
                });
            }
            v
        });
        for v in res {
            g_runs += 11;
            for x in v {
                rep.vios.add(x);
            }
        }
    }
    let total = cells.len() as u64 + table_runs + discovery_runs + g_runs + empty_runs;
    rep.cov("evaluations", json!(total));
    rep.cov("states", json!(cells.len()));
    rep.cov("transitions", json!(total));
    rep.cov("traces_validated_against_impl", json!(total));
    rep.cov("distinct_nontrivial", json!(cells.iter().filter(|(c, f, _)| *c != 0 || *f != 0).count()));
    rep.cov("file_only_table_runs", json!(table_runs));
    rep.cov("discovery_runs", json!(discovery_runs));
    rep.cov("generate_config_runs", json!(g_runs));
    rep.cov("exhaustive", json!(true));
    rep.sample(json!({"cli_args": cli_args_for(0b00101), "config_file": toml_for(0b00111, ""), "effective_swift_prefix": effective(0, 0b00101, 0b00111), "effective_kotlin_prefix": effective(1, 0b00101, 0b00111)}));
    rep.cov("rule", json!("the complete 2^5 × 2^5 presence matrix of the five double-homed settings (pairwise distinct values) × the four languages they affect; 16 file-only tables × {-c, discovery from cwd}; config discovery from every cwd depth 0..3 with files at one or two ancestor levels, with and without -c; -g for all 32 CLI subsets with reload equivalence, overwrite protection and default location. Oracle: CLI > file > default, observed through the generated code (type-name prefix, package line, mapped names, decorators, acronyms, pointer/slice shape). non-trivial = at least one source present."));
    rep.assume("the scratch directory's ancestors contain no typeshare.toml");
    rep.finish()
}
