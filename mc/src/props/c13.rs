//! C13 — `--target-os` filtering follows the documented accept/reject rule at every level.
//!
//! Space: every cfg expression up to a depth over any/all/not with leaves
//! target_os = a|b|c, feature = "f", unix × every target list over {a,b,c,d}
//! × 8 attachment levels (+ pairs/triples of separate cfg attributes).
//! Oracle: the documented rule evaluated on the generator's own AST.
use crate::explore::{explore, Chooser, Mode};
use crate::pipeline::{self, Cfg, Lang, SrcFile};
use crate::report::{self, Report, VioSet, Violation};
use serde_json::json;
use std::collections::BTreeSet;

#[derive(Clone, Debug)]
pub enum E {
    Os(&'static str),
    Feature,
    Unix,
    Not(Box<E>),
    Any(Vec<E>),
    All(Vec<E>),
}

impl E {
    pub fn render(&self) -> String {
        match self {
            E::Os(o) => format!("target_os = \"{o}\""),
            E::Feature => "feature = \"f\"".into(),
            E::Unix => "unix".into(),
            E::Not(e) => format!("not({})", e.render()),
            E::Any(v) => format!("any({})", v.iter().map(|e| e.render()).collect::<Vec<_>>().join(", ")),
            E::All(v) => format!("all({})", v.iter().map(|e| e.render()).collect::<Vec<_>>().join(", ")),
        }
    }
    fn collect(&self, under_not: bool, plain: &mut BTreeSet<&'static str>, neg: &mut BTreeSet<&'static str>, max_not: &mut usize, nots: usize) {
        match self {
            E::Os(o) => {
                if under_not {
                    neg.insert(o);
                } else {
                    plain.insert(o);
                }
                *max_not = (*max_not).max(nots);
            }
            E::Feature | E::Unix => {}
            E::Not(e) => e.collect(true, plain, neg, max_not, nots + 1),
            E::Any(v) | E::All(v) => {
                for e in v {
                    e.collect(under_not, plain, neg, max_not, nots);
                }
            }
        }
    }
}

/// The documented rule (docs/src/usage/target_os.md, property statement).
pub fn keep(exprs: &[E], t: &[&str]) -> (bool, String) {
    let mut plain = BTreeSet::new();
    let mut neg = BTreeSet::new();
    let mut max_not = 0;
    for e in exprs {
        e.collect(false, &mut plain, &mut neg, &mut max_not, 0);
    }
    let tset: BTreeSet<&str> = t.iter().copied().collect();
    let k = if t.is_empty() {
        true
    } else {
        !neg.iter().any(|o| tset.contains(o)) && (plain.is_empty() || plain.iter().any(|o| tset.contains(o)))
    };
    let shape = format!(
        "plain_in={},plain_out={},neg_in={},neg_out={},notdepth={},attrs={}",
        plain.iter().any(|o| tset.contains(o)) as u8,
        plain.iter().any(|o| !tset.contains(o)) as u8,
        neg.iter().any(|o| tset.contains(o)) as u8,
        neg.iter().any(|o| !tset.contains(o)) as u8,
        max_not.min(3),
        exprs.len()
    );
    (k, shape)
}

const LEAVES_FULL: [E; 5] = [E::Os("a"), E::Os("b"), E::Os("c"), E::Feature, E::Unix];
const LEAVES_REDUCED: [E; 3] = [E::Os("a"), E::Os("b"), E::Feature];

pub fn gen_expr(ch: &mut Chooser, depth: usize, leaves: &[E]) -> E {
    let n = leaves.len() + if depth > 0 { 5 } else { 0 };
    let k = ch.choose("expr", n);
    if k < leaves.len() {
        return leaves[k].clone();
    }
    match k - leaves.len() {
        0 => E::Not(Box::new(gen_expr(ch, depth - 1, leaves))),
        1 => E::Any(vec![gen_expr(ch, depth - 1, leaves)]),
        2 => E::All(vec![gen_expr(ch, depth - 1, leaves)]),
        3 => E::Any(vec![gen_expr(ch, depth - 1, leaves), gen_expr(ch, depth - 1, leaves)]),
        _ => E::All(vec![gen_expr(ch, depth - 1, leaves), gen_expr(ch, depth - 1, leaves)]),
    }
}

pub const LEVELS: [&str; 10] = ["file", "struct", "enum", "alias", "const", "variant", "field", "variant_field", "struct_with_serialized_as", "enum_with_serialized_as"];

fn attrs(exprs: &[E]) -> String {
    exprs.iter().map(|e| format!("#[cfg({})]", e.render())).collect::<Vec<_>>().join(" ")
}

/// One file with the guarded element at every non-file level (typeshare attribute before or after the cfg).
pub fn source_items(exprs: &[E], cfg_first: bool) -> String {
    let g = attrs(exprs);
    let ts = |a: &str| if cfg_first { format!("{a}\n#[typeshare]") } else { format!("#[typeshare]\n{a}") };
    format!(
        "{}\npub struct GS {{ pub a: u32 }}\n{}\npub enum GE {{ A }}\n{}\npub type GA = u32;\n{}\npub const GC: u32 = 1;\n\
         #[typeshare]\npub struct HF {{ pub keep: u32, {g} pub guarded: u32, pub tail: u32 }}\n\
         #[typeshare]\n#[serde(tag = \"t\", content = \"c\")]\npub enum HV {{ Keep, {g} Guarded, Sv {{ keep: u32, {g} guarded: u32, tail: u32 }}, Tail(u32) }}\n\
         {}\npub struct GSA {{ pub a: u32 }}\n{}\npub enum GEA {{ A, B }}\n\
         #[typeshare]\npub struct Control {{ pub x: u32 }}\n",
        ts(&g),
        ts(&g),
        ts(&g),
        ts(&g),
        if cfg_first { format!("{g}\n#[typeshare(serialized_as = \"String\")]") } else { format!("#[typeshare(serialized_as = \"String\")]\n{g}") },
        if cfg_first { format!("{g}\n#[typeshare(serialized_as = \"String\")]") } else { format!("#[typeshare(serialized_as = \"String\")]\n{g}") }
    )
}

pub fn source_file_level(exprs: &[E]) -> String {
    let inner = exprs.iter().map(|e| format!("#![cfg({})]", e.render())).collect::<Vec<_>>().join("\n");
    format!("{inner}\n#[typeshare]\npub struct FS {{ pub a: u32 }}\n#[typeshare]\npub enum FE {{ A }}\n")
}

/// presence of the guarded element per level, observed in the real parse result
pub fn observe(exprs: &[E], t: &[&str], cfg_first: bool) -> Result<[Option<bool>; 10], String> {
    let cfg = Cfg { target_os: t.iter().map(|s| s.to_string()).collect(), ..Cfg::plain() };
    let mut out = [None; 10];
    match pipeline::parse_only(&[SrcFile::single(source_file_level(exprs))], &cfg) {
        Ok(m) => {
            let present = m.values().next().map(|pd| pd.structs.iter().any(|s| s.id.original == "FS") && pd.enums.iter().any(|e| e.shared().id.original == "FE"));
            let absent = m.values().next().map(|pd| pd.structs.is_empty() && pd.enums.is_empty()).unwrap_or(true);
            out[0] = match (present, absent) {
                (Some(true), _) => Some(true),
                (_, true) => Some(false),
                _ => None, // half present: reported as inconsistent
            };
        }
        Err(o) => return Err(format!("file-level: {}", o.kind())),
    }
    match pipeline::parse_only(&[SrcFile::single(source_items(exprs, cfg_first))], &cfg) {
        Ok(m) => {
            let Some(pd) = m.values().next() else { return Err("no parsed data (control struct missing)".into()) };
            if !pd.errors.is_empty() {
                return Err(format!("parse errors: {}", pd.errors[0].error));
            }
            if !pd.structs.iter().any(|s| s.id.original == "Control") {
                return Err("control struct missing".into());
            }
            out[1] = Some(pd.structs.iter().any(|s| s.id.original == "GS"));
            out[2] = Some(pd.enums.iter().any(|e| e.shared().id.original == "GE"));
            out[3] = Some(pd.aliases.iter().any(|a| a.id.original == "GA"));
            out[4] = Some(pd.consts.iter().any(|c| c.id.original == "GC"));
            // an item with typeshare(serialized_as) is carried as an alias
            out[8] = Some(pd.aliases.iter().any(|a| a.id.original == "GSA") || pd.structs.iter().any(|s| s.id.original == "GSA"));
            out[9] = Some(pd.aliases.iter().any(|a| a.id.original == "GEA") || pd.enums.iter().any(|e| e.shared().id.original == "GEA"));
            let hv = pd.enums.iter().find(|e| e.shared().id.original == "HV");
            let hf = pd.structs.iter().find(|s| s.id.original == "HF");
            if let Some(hv) = hv {
                let names: Vec<&str> = hv.shared().variants.iter().map(|v| v.shared().id.original.as_str()).collect();
                if !(names.contains(&"Keep") && names.contains(&"Sv") && names.contains(&"Tail")) {
                    return Err(format!("unguarded variants lost: {names:?}"));
                }
                out[5] = Some(names.contains(&"Guarded"));
                for v in &hv.shared().variants {
                    if let typeshare_core::rust_types::RustEnumVariant::AnonymousStruct { fields, .. } = v {
                        let fnames: Vec<&str> = fields.iter().map(|f| f.id.original.as_str()).collect();
                        if !(fnames.contains(&"keep") && fnames.contains(&"tail")) {
                            return Err(format!("unguarded variant fields lost: {fnames:?}"));
                        }
                        out[7] = Some(fnames.contains(&"guarded"));
                    }
                }
            } else {
                return Err("unguarded enum HV missing".into());
            }
            if let Some(hf) = hf {
                let fnames: Vec<&str> = hf.fields.iter().map(|f| f.id.original.as_str()).collect();
                if !(fnames.contains(&"keep") && fnames.contains(&"tail")) {
                    return Err(format!("unguarded fields lost: {fnames:?}"));
                }
                out[6] = Some(fnames.contains(&"guarded"));
            } else {
                return Err("unguarded struct HF missing".into());
            }
        }
        Err(o) => return Err(format!("items: {}", o.kind())),
    }
    Ok(out)
}

#[derive(Default)]
struct Acc {
    vios: VioSet,
    evals: u64,
    parses: u64,
    inputs: u64,
    nontrivial: u64,
    dropped: u64,
    kept: u64,
    samples: Vec<serde_json::Value>,
}

pub fn target_lists(alpha: &[&'static str]) -> Vec<Vec<&'static str>> {
    let n = alpha.len();
    (0..(1u32 << n)).map(|m| (0..n).filter(|i| m & (1 << i) != 0).map(|i| alpha[i]).collect()).collect()
}

/// `first_of_input`: true for exactly one (target list, order) per attribute set, so inputs are counted once.
fn judge(exprs: &[E], t: &[&str], cfg_first: bool, levels: &[usize], first_of_input: bool, acc: &mut Acc) {
    let (k, shape) = keep(exprs, t);
    let rendered = attrs(exprs);
    acc.parses += 2;
    if first_of_input {
        acc.inputs += 1;
    }
    match observe(exprs, t, cfg_first) {
        Ok(obs) => {
            for &lv in levels {
                acc.evals += 1;
                if !t.is_empty() && !keep(exprs, &[]).1.starts_with("plain_in=0,plain_out=0,neg_in=0,neg_out=0") {
                    acc.nontrivial += 1;
                }
                match obs[lv] {
                    Some(o) if o == k => {
                        if o {
                            acc.kept += 1
                        } else {
                            acc.dropped += 1
                        }
                    }
                    other => {
                        acc.vios.add(Violation {
                            sig: format!("C13|{}|expected={}|observed={:?}|{shape}", LEVELS[lv], if k { "keep" } else { "drop" }, other),
                            detail: json!({"cfg": rendered, "target_os": t, "level": LEVELS[lv], "cfg_before_typeshare": cfg_first,
                                           "expected_kept": k, "observed_kept": other,
                                           "source": if lv == 0 { source_file_level(exprs) } else { source_items(exprs, cfg_first) }}),
                        });
                    }
                }
            }
            if acc.samples.len() < 3 && !t.is_empty() && !k {
                acc.samples.push(json!({"cfg": rendered, "target_os": t, "expected_kept": k, "observed_per_level": format!("{obs:?}")}));
            }
        }
        Err(e) => {
            let kind: String = e.split(':').next().unwrap_or("fail").to_string();
            acc.vios.add(Violation {
                sig: format!("C13|machinery-or-collateral|{kind}|{shape}"),
                detail: json!({"cfg": rendered, "target_os": t, "failure": e, "source": source_items(exprs, cfg_first)}),
            });
        }
    }
}

/// An enum without tag/content whose data-carrying variants are all guarded: when the guards drop them the rest is a
/// plain unit enum and must be generated; when they are kept the enum is algebraic without a tag (a rejected
/// construct, C08). `shared` = both data variants carry the same attributes, otherwise the second one carries
/// `not(<first expression>)` in addition (kept only if both rules keep it).
fn judge_untagged(exprs: &[E], t: &[&str], acc: &mut Acc) {
    let g = attrs(exprs);
    let src = format!(
        "#[typeshare]\npub enum HU {{ Plain, {g} Data(u32), Other, {g} Sv2 {{ x: u32 }} }}\n#[typeshare]\npub struct Control {{ pub x: u32 }}\n"
    );
    let (k, shape) = keep(exprs, t);
    let cfg = Cfg { target_os: t.iter().map(|s| s.to_string()).collect(), ..Cfg::plain() };
    acc.parses += 1;
    acc.evals += 1;
    if !t.is_empty() {
        acc.nontrivial += 1;
    }
    let observed = match pipeline::parse_only(&[SrcFile::single(src.clone())], &cfg) {
        Ok(m) => match m.values().next() {
            Some(pd) => {
                let hu = pd.enums.iter().find(|e| e.shared().id.original == "HU");
                let names: Vec<String> = hu.map(|e| e.shared().variants.iter().map(|v| v.shared().id.original.clone()).collect()).unwrap_or_default();
                if !pd.errors.is_empty() {
                    format!("rejected: {}", pd.errors[0].error.to_string().chars().take(60).collect::<String>())
                } else {
                    format!("generated {names:?}")
                }
            }
            None => "nothing parsed".to_string(),
        },
        Err(o) => format!("failure: {}", o.kind()),
    };
    let ok = if k { observed.starts_with("rejected") } else { observed == "generated [\"Plain\", \"Other\"]" };
    if ok {
        if k {
            acc.kept += 1
        } else {
            acc.dropped += 1
        }
    } else {
        acc.vios.add(Violation {
            sig: format!("C13|untagged-enum-data-variants|expected={}|observed={}|{shape}", if k { "kept (enum rejected: no tag)" } else { "dropped (plain unit enum)" }, observed.split(':').next().unwrap_or("").split('[').next().unwrap_or("").trim()),
            detail: json!({"cfg": g, "target_os": t, "expected_kept": k, "observed": observed, "source": src}),
        });
    }
}

/// A guarded field inside a guarded struct variant: each guard is judged on its own.
fn judge_nested(gv: &[E], gf: &[E], t: &[&str], acc: &mut Acc) {
    let (av, af) = (attrs(gv), attrs(gf));
    let src = format!(
        "#[typeshare]\n#[serde(tag = \"t\", content = \"c\")]\npub enum HN {{ Keep, {av} Sv {{ keep: u32, {af} guarded: u32, tail: u32 }}, Tail(u32) }}\n#[typeshare]\npub struct Control {{ pub x: u32 }}\n"
    );
    let (kv, shape_v) = keep(gv, t);
    let (kf, shape_f) = keep(gf, t);
    let cfg = Cfg { target_os: t.iter().map(|s| s.to_string()).collect(), ..Cfg::plain() };
    acc.parses += 1;
    acc.evals += 1;
    if !t.is_empty() {
        acc.nontrivial += 1;
    }
    let observed: Result<(bool, Option<bool>), String> = match pipeline::parse_only(&[SrcFile::single(src.clone())], &cfg) {
        Ok(m) => match m.values().next() {
            Some(pd) if pd.errors.is_empty() => match pd.enums.iter().find(|e| e.shared().id.original == "HN") {
                Some(e) => {
                    let sv = e.shared().variants.iter().find(|v| v.shared().id.original == "Sv");
                    let field = sv.and_then(|v| match v {
                        typeshare_core::rust_types::RustEnumVariant::AnonymousStruct { fields, .. } => Some(fields.iter().any(|f| f.id.original == "guarded")),
                        _ => None,
                    });
                    Ok((sv.is_some(), field))
                }
                None => Err("enum HN missing".into()),
            },
            Some(pd) => Err(format!("parse errors: {}", pd.errors[0].error)),
            None => Err("nothing parsed".into()),
        },
        Err(o) => Err(format!("failure: {}", o.kind())),
    };
    let expected = (kv, if kv { Some(kf) } else { None });
    match observed {
        Ok(o) if o == expected => {
            if kv && kf {
                acc.kept += 1
            } else {
                acc.dropped += 1
            }
        }
        other => {
            acc.vios.add(Violation {
                sig: format!("C13|field-in-guarded-variant|expected=variant:{}/field:{:?}|observed={}|variant[{shape_v}]|field[{shape_f}]", kv, expected.1, match &other { Ok(o) => format!("variant:{}/field:{:?}", o.0, o.1), Err(e) => e.split(':').next().unwrap_or("").to_string() }),
                detail: json!({"variant_cfg": av, "field_cfg": af, "target_os": t, "expected": format!("{expected:?}"), "observed": format!("{other:?}"), "source": src}),
            });
        }
    }
}

/// One definition per OS: several items of one name, each behind its own guard (and optionally one without). Each
/// guard is judged on its own; with several accepted guards every accepted definition is there.
fn judge_homonyms(kind: &str, guards: &[Option<E>], t: &[&str], acc: &mut Acc) {
    let mut src = String::new();
    for (i, g) in guards.iter().enumerate() {
        let a = g.as_ref().map(|e| format!("#[cfg({})]\n", e.render())).unwrap_or_default();
        src.push_str(&match kind {
            "struct" => format!("#[typeshare]\n{a}pub struct Conn {{ pub m{i}: u32 }}\n"),
            "enum" => format!("#[typeshare]\n{a}pub enum Conn {{ M{i}, Other }}\n"),
            "alias" => format!("#[typeshare]\n{a}pub type Conn = Vec<{}>;\n", ["u8", "u16", "u32"][i]),
            _ => format!("#[typeshare]\n{a}pub const CONN: u32 = {i};\n"),
        });
    }
    src.push_str("#[typeshare]\npub struct Control { pub x: u32 }\n");
    let expected: Vec<bool> = guards.iter().map(|g| g.as_ref().map(|e| keep(std::slice::from_ref(e), t).0).unwrap_or(true)).collect();
    let cfg = Cfg { target_os: t.iter().map(|s| s.to_string()).collect(), ..Cfg::plain() };
    acc.parses += 1;
    acc.evals += guards.len() as u64;
    if !t.is_empty() {
        acc.nontrivial += 1;
    }
    let observed: Result<Vec<bool>, String> = match pipeline::parse_only(&[SrcFile::single(src.clone())], &cfg) {
        Ok(m) => match m.values().next() {
            Some(pd) if pd.errors.is_empty() => Ok((0..guards.len())
                .map(|i| match kind {
                    "struct" => pd.structs.iter().any(|s| s.id.original == "Conn" && s.fields.iter().any(|f| f.id.original == format!("m{i}"))),
                    "enum" => pd.enums.iter().any(|e| e.shared().id.original == "Conn" && e.shared().variants.iter().any(|v| v.shared().id.original == format!("M{i}"))),
                    "alias" => pd.aliases.iter().any(|a| a.id.original == "Conn" && a.r#type.to_string() == format!("Vec<{}>", ["u8", "u16", "u32"][i])),
                    _ => pd.consts.iter().any(|c| c.id.original == "CONN" && matches!(c.expr, typeshare_core::rust_types::RustConstExpr::Int(v) if v == i as i128)),
                })
                .collect()),
            Some(pd) => Err(format!("parse errors: {}", pd.errors[0].error)),
            None => Err("nothing parsed".into()),
        },
        Err(o) => Err(format!("failure: {}", o.kind())),
    };
    match observed {
        Ok(o) if o == expected => {
            acc.kept += expected.iter().filter(|k| **k).count() as u64;
            acc.dropped += expected.iter().filter(|k| !**k).count() as u64;
        }
        other => {
            let show = |v: &[bool]| v.iter().map(|b| if *b { "kept" } else { "dropped" }).collect::<Vec<_>>().join("/");
            acc.vios.add(Violation {
                sig: format!("C13|one-definition-per-os|kind={kind}|expected={}|observed={}", show(&expected), match &other { Ok(o) => show(o), Err(e) => e.split(':').next().unwrap_or("").to_string() }),
                detail: json!({"guards": guards.iter().map(|g| g.as_ref().map(|e| e.render())).collect::<Vec<_>>(), "target_os": t, "expected": show(&expected), "observed": format!("{other:?}"), "source": src}),
            });
        }
    }
}

/// A guarded field whose type typeshare cannot express (or which is flattened): when the target list rejects the
/// field it is as if it were not written at all - nothing about it is validated; when the list keeps it, the run
/// reports the unsupported construct.
fn judge_unsupported_member(exprs: &[E], t: &[&str], shape_of_member: &str, acc: &mut Acc) {
    let g = attrs(exprs);
    let member = match shape_of_member {
        "u64-field" => format!("{g} pub guarded: u64,"),
        "tuple-field" => format!("{g} pub guarded: Vec<(u32, String)>,"),
        _ => format!("{g} #[serde(flatten)] pub guarded: Control,"),
    };
    let src = format!("#[typeshare]\npub struct Control {{ pub x: u32 }}\n#[typeshare]\npub struct HU {{ pub keep: u32, {member} pub tail: u32 }}\n");
    let (k, shape) = keep(exprs, t);
    let cfg = Cfg { target_os: t.iter().map(|s| s.to_string()).collect(), ..Cfg::plain() };
    acc.parses += 1;
    acc.evals += 1;
    if !t.is_empty() {
        acc.nontrivial += 1;
    }
    // observed: Some(true) = the field was looked at (an error about it), Some(false) = dropped silently
    let observed: Result<bool, String> = match pipeline::parse_only(&[SrcFile::single(src.clone())], &cfg) {
        Ok(m) => match m.values().next() {
            Some(pd) if pd.errors.is_empty() => match pd.structs.iter().find(|s| s.id.original == "HU") {
                Some(s) => {
                    let names: Vec<&str> = s.fields.iter().map(|f| f.id.original.as_str()).collect();
                    if names == ["keep", "tail"] {
                        Ok(false)
                    } else {
                        Err(format!("unexpected members {names:?}"))
                    }
                }
                None => Err("struct HU missing without an error".into()),
            },
            Some(_) => Ok(true),
            None => Err("nothing parsed".into()),
        },
        Err(o) => Err(format!("failure: {}", o.kind())),
    };
    match observed {
        Ok(o) if o == k => {
            if k {
                acc.kept += 1
            } else {
                acc.dropped += 1
            }
        }
        other => {
            acc.vios.add(Violation {
                sig: format!("C13|guarded-member-that-cannot-be-generated|member={shape_of_member}|expected={}|observed={}|{shape}", if k { "kept (reported as unsupported)" } else { "dropped (not looked at)" }, match &other { Ok(true) => "reported".to_string(), Ok(false) => "dropped".to_string(), Err(e) => e.split(':').next().unwrap_or("").to_string() }),
                detail: json!({"cfg": g, "target_os": t, "expected_kept": k, "observed": format!("{other:?}"), "source": src}),
            });
        }
    }
}

/// The binary: the target list is what `--target-os` says and nothing else (in particular not a key of a configuration file).
fn cli_family(rep: &mut Report) {
    use crate::cli::{self, par_map, run_cli, s, Scratch};
    if !cli::bin_available() {
        rep.machinery(format!("hooks-on CLI binary missing at {}", cli::BIN));
        return;
    }
    const SRC: &str = "#[typeshare]\n#[cfg(target_os = \"b\")]\npub struct OnlyB { pub x: u32 }\n#[typeshare]\n#[cfg(not(target_os = \"a\"))]\npub struct NotA { pub x: u32 }\n#[typeshare]\npub struct Plain { pub keep: u32, #[cfg(target_os = \"a\")] pub only_a: u32 }\n";
    // (flag value, config text, how the config is found)
    let mut jobs: Vec<(Option<&'static str>, Option<&'static str>, &'static str, Lang)> = Vec::new();
    for flag in [None, Some("a"), Some("b"), Some("a,b")] {
        for config in [None, Some("target_os = [\"a\"]\n"), Some("target_os = [\"b\"]\n[swift]\nprefix = \"\"\n"), Some("[typescript.type_mappings]\nDateTime = \"Date\"\n")] {
            for via in ["-c", "cwd"] {
                if config.is_none() && via == "cwd" {
                    continue;
                }
                for lang in [Lang::TypeScript, Lang::Swift] {
                    jobs.push((flag, config, via, lang));
                }
            }
        }
    }
    let results = par_map(&jobs, report::threads(), |(flag, config, via, lang)| {
        let sc = Scratch::new("c13c");
        sc.write("ws/app/src/lib.rs", SRC.as_bytes());
        sc.mkdir("out");
        sc.mkdir("proj");
        let mut args = cli::lang_args(*lang);
        if let Some(f) = *flag {
            // (the option takes one or more values, up to the next option)
            args.push(s("--target-os"));
            args.extend(f.split(',').map(s));
        }
        let mut cwd = sc.root.clone();
        if let Some(c) = *config {
            if *via == "-c" {
                let p = sc.write("elsewhere/custom.toml", c.as_bytes());
                args.extend([s("-c"), p.to_string_lossy().into_owned()]);
            } else {
                sc.write("proj/typeshare.toml", c.as_bytes());
                cwd = sc.path("proj");
            }
        }
        let out = sc.path(&format!("out/types.{}", lang.ext()));
        args.extend([s("-o"), out.to_string_lossy().into_owned(), sc.path("ws").to_string_lossy().into_owned()]);
        let r = run_cli(&args, &cwd, &[], cli::TIMEOUT);
        (r.class(), r.stderr.chars().take(400).collect::<String>(), std::fs::read_to_string(&out).unwrap_or_default(), args)
    });
    let mut judged = 0u64;
    for ((flag, config, via, lang), (class, stderr, text, argv)) in jobs.iter().zip(results.iter()) {
        let t: Vec<&str> = flag.map(|f| f.split(',').collect()).unwrap_or_default();
        let toks: BTreeSet<&str> = text.split(|c: char| !c.is_alphanumeric() && c != '_').collect();
        let expect = [
            ("OnlyB", keep(&[E::Os("b")], &t).0),
            ("NotA", keep(&[E::Not(Box::new(E::Os("a")))], &t).0),
            ("Plain", true),
            ("only_a", keep(&[E::Os("a")], &t).0),
        ];
        for (name, want) in expect {
            judged += 1;
            let got = toks.contains(name);
            if *class != "ok" || got != want {
                rep.vios.add(Violation {
                    sig: format!("C13|cli|{}|flag={}|config-file={}|via={via}|item={name}|expected={}|observed={}", lang.name(), flag.unwrap_or("absent"), match config { None => "none", Some(c) if c.starts_with("target_os") => "has-a-target_os-key", Some(_) => "other-keys-only" }, if want { "kept" } else { "dropped" }, if *class != "ok" { class } else if got { "kept" } else { "dropped" }),
                    detail: json!({"argv": argv, "config_file": config, "found_via": via, "source": SRC, "stderr": stderr, "output": text}),
                });
            }
        }
    }
    // what a successful run leaves at the output path obeys the rule as well: a run whose target list rejects every
    // annotated item, onto the output of an earlier run without a list, either fails or leaves a file without those items
    {
        const ALL_A: &str = "#![cfg(target_os = \"a\")]\n#[typeshare]\npub struct FileLevelA { pub x: u32 }\n";
        const ALL_A2: &str = "#[typeshare]\n#[cfg(target_os = \"a\")]\npub struct OnlyA { pub x: u32 }\n#[typeshare]\n#[cfg(not(target_os = \"b\"))]\npub enum NotB { One, Two }\n";
        // (language arguments: Kotlin also without any package, where an empty result is zero bytes)
        let langs: Vec<(&str, Vec<String>, &str)> = vec![
            ("kotlin-without-package", vec![s("--lang"), s("kotlin")], "kt"),
            ("kotlin", cli::lang_args(Lang::Kotlin), "kt"),
            ("typescript", cli::lang_args(Lang::TypeScript), "ts"),
            ("swift", cli::lang_args(Lang::Swift), "swift"),
            ("go", cli::lang_args(Lang::Go), "go"),
        ];
        let results = par_map(&langs, report::threads(), |(_, largs, ext)| {
            let sc = Scratch::new("c13s");
            sc.write("ws/app/src/gated.rs", ALL_A.as_bytes());
            sc.write("ws/app/src/lib.rs", ALL_A2.as_bytes());
            sc.mkdir("out");
            let out = sc.path(&format!("out/types.{ext}"));
            let mut a1 = largs.clone();
            a1.extend([s("-o"), out.to_string_lossy().into_owned(), sc.path("ws").to_string_lossy().into_owned()]);
            let r1 = run_cli(&a1, &sc.root, &[], cli::TIMEOUT);
            let first = std::fs::read_to_string(&out).unwrap_or_default();
            let mut a2 = largs.clone();
            a2.extend([s("--target-os"), s("b"), s("-o"), out.to_string_lossy().into_owned(), sc.path("ws").to_string_lossy().into_owned()]);
            let r2 = run_cli(&a2, &sc.root, &[], cli::TIMEOUT);
            let second = std::fs::read_to_string(&out).unwrap_or_default();
            (r1.class(), first, r2.class(), second, r2.stderr.chars().take(300).collect::<String>(), a2)
        });
        for ((name, _, _), (c1, first, c2, second, stderr, argv)) in langs.iter().zip(results.iter()) {
            judged += 1;
            let defines = |t: &str| ["FileLevelA", "OnlyA", "NotB"].iter().filter(|n| t.split(|c: char| !c.is_alphanumeric() && c != '_').any(|w| w == **n)).count();
            if *c1 != "ok" || defines(first) != 3 {
                rep.vios.add(Violation { sig: format!("C13|cli|{name}|run-without-target-list|items-generated={}|exit={c1}", defines(first)), detail: json!({"observation": "without --target-os nothing is filtered", "output": first}) });
            } else if *c2 == "ok" && defines(second) != 0 {
                rep.vios.add(Violation {
                    sig: format!("C13|cli|{name}|run-that-rejects-everything-succeeds-and-leaves-rejected-items|items-left={}", defines(second)),
                    detail: json!({"argv": argv, "exit": c2, "stderr": stderr, "output_path_after_the_run": second, "observation": "--target-os b rejects every annotated item; the run reported success, and the file at the output path still defines them"}),
                });
            }
        }
    }
    rep.cov("cli_target_list_comes_from_the_flag_only", json!({"process_runs": jobs.len(), "flag_values": ["absent", "a", "b", "a,b"], "config_files": ["none", "target_os = [a]", "target_os = [b] + other keys", "other keys only"], "found_via": ["-c", "working directory"], "languages": ["typescript", "swift"], "plus": "a run that rejects everything, onto the output of an earlier run (Kotlin with and without a package, TypeScript, Swift, Go)", "judgements": judged}));
    rep.cov_add("evaluations", judged);
    rep.cov_add("traces_validated_against_impl", jobs.len() as u64);
}

fn merge(rep: &mut Report, name: &str, accs: Vec<Acc>, stats: crate::explore::ExploreStats, extra: serde_json::Value) {
    let mut inputs = 0u64;
    let mut nontrivial = 0u64;
    let (mut evals, mut parses, mut kept, mut dropped) = (0, 0, 0, 0);
    for a in accs {
        rep.vios.merge(a.vios);
        evals += a.evals;
        parses += a.parses;
        kept += a.kept;
        dropped += a.dropped;
        inputs += a.inputs;
        nontrivial += a.nontrivial;
        for s in a.samples.into_iter().take(1) {
            rep.sample(s);
        }
    }
    for d in &stats.divergences {
        rep.machinery(format!("explorer divergence: {d}"));
    }
    rep.cov(name, json!({"executions": stats.executions, "distinct_cfg_attribute_sets": inputs, "judgements": evals, "parses": parses,
        "kept": kept, "dropped": dropped, "choice_points": stats.choice_points, "exhaustive": !stats.cap_hit, "bounds": extra}));
    rep.cov_add("evaluations", evals);
    rep.cov_add("states", inputs);
    rep.cov_add("transitions", stats.choice_points);
    rep.cov_add("traces_validated_against_impl", parses);
    rep.cov_add("distinct_nontrivial", nontrivial);
    rep.cov_add("dropped_elements", dropped);
    rep.cov_add("kept_elements", kept);
}

pub fn run(args: &[String]) -> i32 {
    let tier = report::tier_from_env(args);
    let mut rep = Report::new("C13", &tier);
    let thorough = rep.thorough();
    let all_levels: Vec<usize> = (0..10).collect();

    // negative controls for the oracle
    {
        let e = E::All(vec![E::Feature, E::Not(Box::new(E::Os("a")))]);
        if keep(&[e.clone()], &["a", "b"]).0 || !keep(&[e.clone()], &["b"]).0 || !keep(&[e], &[]).0 {
            rep.machinery("control: reference rule gives wrong answer for all(feature, not(a))");
        }
        if !keep(&[E::Any(vec![E::Os("a"), E::Os("b")])], &["b"]).0 || keep(&[E::Os("a")], &["b"]).0 || !keep(&[E::Unix], &["b"]).0 {
            rep.machinery("control: reference rule gives wrong answer for plain os");
        }
        // observation must really see a dropped element
        match observe(&[E::Os("a")], &["b"], false) {
            Ok(o) if o.iter().all(|x| *x == Some(false)) => {}
            other => rep.machinery(format!("control: cfg(target_os=a) with T=[b] should drop all levels, observed {other:?}")),
        }
        match observe(&[E::Os("a")], &["a"], true) {
            Ok(o) if o.iter().all(|x| *x == Some(true)) => {}
            other => rep.machinery(format!("control: cfg(target_os=a) with T=[a] should keep all levels, observed {other:?}")),
        }
    }

    let lists4 = target_lists(&["a", "b", "c", "d"]);
    // 1. single attribute, full leaf set, depth D (D=1 -> 70 exprs, D=2 -> 10015)
    let depth_a = 2;
    {
        let lists = &lists4;
        let levels = &all_levels;
        let (accs, stats) = explore(
            |ch| {
                gen_expr(ch, depth_a, &LEAVES_FULL);
            },
            |ch, acc: &mut Acc| {
                let e = gen_expr(ch, depth_a, &LEAVES_FULL);
                let ti = ch.choose("targets", lists.len());
                let first = ch.flag("cfg_before_typeshare");
                judge(&[e], &lists[ti], first, levels, ti == 0 && !first, acc);
            },
            Mode::Product,
            4,
            report::threads(),
            u64::MAX,
        );
        merge(&mut rep, "single_attribute_depth3", accs, stats, json!({"expr_depth": depth_a + 1, "leaves": 5, "target_lists": 16, "levels": 10, "attribute_orders": 2}));
    }
    // 1b. the guards decide whether an untagged enum is a unit enum: single attribute depth ≤ 2 and pairs of leaves
    {
        let lists = &lists4;
        let (accs, stats) = explore(
            |ch| {
                gen_expr(ch, 1, &LEAVES_FULL);
            },
            |ch, acc: &mut Acc| {
                let e = gen_expr(ch, 1, &LEAVES_FULL);
                let second = ch.choose("second_attribute", LEAVES_FULL.len() + 1);
                let ti = ch.choose("targets", lists.len());
                let mut es = vec![e];
                if second > 0 {
                    es.push(LEAVES_FULL[second - 1].clone());
                }
                if ti == 0 {
                    acc.inputs += 1;
                }
                judge_untagged(&es, &lists[ti], acc);
            },
            Mode::Product,
            3,
            report::threads(),
            u64::MAX,
        );
        merge(&mut rep, "untagged_enum_with_guarded_data_variants", accs, stats, json!({"expr_depth": 2, "leaves": 5, "second_attribute": "none or one leaf", "target_lists": 16}));
    }
    // 1c. a guarded field inside a guarded struct variant (every pair of expressions of depth ≤ 2)
    {
        let lists = &lists4;
        let (accs, stats) = explore(
            |ch| {
                gen_expr(ch, 1, &LEAVES_FULL);
            },
            |ch, acc: &mut Acc| {
                let gv = gen_expr(ch, 1, &LEAVES_FULL);
                let gf = gen_expr(ch, 1, &LEAVES_FULL);
                let ti = ch.choose("targets", lists.len());
                if ti == 0 {
                    acc.inputs += 1;
                }
                judge_nested(&[gv], &[gf], &lists[ti], acc);
            },
            Mode::Product,
            3,
            report::threads(),
            u64::MAX,
        );
        merge(&mut rep, "guarded_field_in_guarded_variant", accs, stats, json!({"expr_depth": 2, "leaves": 5, "pairs": "every (variant guard, field guard)", "target_lists": 16}));
    }
    // 1d. one definition per OS: two items of one name behind a guard each (leaf or not(leaf)), optionally a third without
    {
        let lists = &lists4;
        const HKINDS: [&str; 4] = ["struct", "enum", "alias", "const"];
        let (accs, stats) = explore(
            |ch| {
                ch.choose("kind", HKINDS.len());
            },
            |ch, acc: &mut Acc| {
                let kind = HKINDS[ch.choose("kind", HKINDS.len())];
                let guard = |ch: &mut Chooser| {
                    let l = gen_expr(ch, 0, &LEAVES_FULL);
                    if ch.flag("negate") {
                        E::Not(Box::new(l))
                    } else {
                        l
                    }
                };
                let mut guards = vec![Some(guard(ch)), Some(guard(ch))];
                if ch.flag("third_without_guard") {
                    guards.push(None);
                }
                let ti = ch.choose("targets", lists.len());
                if ti == 0 {
                    acc.inputs += 1;
                }
                judge_homonyms(kind, &guards, &lists[ti], acc);
            },
            Mode::Product,
            3,
            report::threads(),
            u64::MAX,
        );
        merge(&mut rep, "one_definition_per_os", accs, stats, json!({"kinds": HKINDS, "guards": "two, each a leaf or not(leaf) over 5 leaves; optionally a third item without guard", "target_lists": 16, "observed": "which of the same-named definitions are in the parsed and reconciled data, told apart by their members"}));
    }
    // 1e. a guarded field that could not be generated anyway (u64, a tuple, flatten): dropped without being looked at
    {
        let lists = &lists4;
        const MEMBERS: [&str; 3] = ["u64-field", "tuple-field", "flattened-field"];
        let (accs, stats) = explore(
            |ch| {
                ch.choose("member", MEMBERS.len());
            },
            |ch, acc: &mut Acc| {
                let member = MEMBERS[ch.choose("member", MEMBERS.len())];
                let e = gen_expr(ch, 1, &LEAVES_FULL);
                let ti = ch.choose("targets", lists.len());
                if ti == 0 {
                    acc.inputs += 1;
                }
                judge_unsupported_member(&[e], &lists[ti], member, acc);
            },
            Mode::Product,
            3,
            report::threads(),
            u64::MAX,
        );
        merge(&mut rep, "guarded_member_that_cannot_be_generated", accs, stats, json!({"members": MEMBERS, "expr_depth": 2, "leaves": 5, "target_lists": 16}));
    }
    // 2. two separate cfg attributes, each depth ≤ 2 (70 × 70), and three of depth 1 leaves
    {
        let lists = &lists4;
        let levels = &all_levels;
        let (accs, stats) = explore(
            |ch| {
                gen_expr(ch, 1, &LEAVES_FULL);
            },
            |ch, acc: &mut Acc| {
                let e1 = gen_expr(ch, 1, &LEAVES_FULL);
                let e2 = gen_expr(ch, 1, &LEAVES_FULL);
                let ti = ch.choose("targets", lists.len());
                judge(&[e1, e2], &lists[ti], false, levels, ti == 0, acc);
            },
            Mode::Product,
            4,
            report::threads(),
            u64::MAX,
        );
        merge(&mut rep, "two_attributes_depth2", accs, stats, json!({"expr_depth": 2, "attributes": 2, "target_lists": 16}));
        let (accs, stats) = explore(
            |ch| {
                gen_expr(ch, 0, &LEAVES_FULL);
            },
            |ch, acc: &mut Acc| {
                let wrap = |ch: &mut Chooser| {
                    let l = gen_expr(ch, 0, &LEAVES_FULL);
                    if ch.flag("negate") {
                        E::Not(Box::new(l))
                    } else {
                        l
                    }
                };
                let es = vec![wrap(ch), wrap(ch), wrap(ch)];
                let ti = ch.choose("targets", lists.len());
                judge(&es, &lists[ti], false, levels, ti == 0, acc);
            },
            Mode::Product,
            4,
            report::threads(),
            u64::MAX,
        );
        merge(&mut rep, "three_attributes", accs, stats, json!({"attributes": 3, "each": "leaf or not(leaf)", "target_lists": 16}));
    }
    // 3. thorough: depth 4 over the reduced leaf set × 8 target lists over {a,b,d}
    if thorough {
        let lists = target_lists(&["a", "b", "d"]);
        let lists = &lists;
        let levels = &all_levels;
        let (accs, stats) = explore(
            |ch| {
                gen_expr(ch, 3, &LEAVES_REDUCED);
            },
            |ch, acc: &mut Acc| {
                let e = gen_expr(ch, 3, &LEAVES_REDUCED);
                // the unfiltered list is covered above; skip the empty list here
                let ti = 1 + ch.choose("targets", lists.len() - 1);
                judge(&[e], &lists[ti], false, levels, ti == 1, acc);
            },
            Mode::Product,
            5,
            report::threads(),
            u64::MAX,
        );
        merge(&mut rep, "single_attribute_depth4_reduced", accs, stats, json!({"expr_depth": 4, "leaves": 3, "target_lists": 7, "levels": 10}));
    }
    cli_family(&mut rep);
    rep.cov("exhaustive", json!(true));
    rep.cov("rule", json!("every cfg expression of the grammar up to the stated depth × every target list × 8 attachment levels, each parsed by the real parser::parse with ParseContext.target_os; non-trivial = the expression names at least one target_os and the target list is non-empty; distinct by (attribute text, target list, level) — each such triple is generated exactly once by the enumeration, so the count is a plain counter. states = distinct cfg attribute sets, transitions = explorer choice points"));
    rep.assume("the documented rule is taken from the property statement / docs/src/usage/target_os.md and evaluated on the generator's AST");
    rep.assume("attachment to tuple-variant payloads and newtype fields is not part of the documented levels");
    rep.finish()
}
