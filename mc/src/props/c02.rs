//! C02 — enum wire encoding (variant names, tag and content keys) equals serde's.
use super::common::{merge, require_nonvacuous, Acc};
use crate::explore::{explore, Chooser, Mode};
use crate::extract::{EDef, Payload};
use crate::pipeline::{Cfg, Lang, ALL_LANGS};
use crate::prog::*;
use crate::refmodel::{self, RunFail};
use crate::report::{self, Report, Violation};
use serde_json::json;

const RENAMES: [Option<&str>; 5] = [None, Some("x"), Some("with-dash"), Some("Upper"), Some("_u")];
const RULES: [Option<&str>; 9] = [
    None,
    Some("lowercase"),
    Some("UPPERCASE"),
    Some("PascalCase"),
    Some("camelCase"),
    Some("snake_case"),
    Some("SCREAMING_SNAKE_CASE"),
    Some("kebab-case"),
    Some("SCREAMING-KEBAB-CASE"),
];
// quick uses the first three pairs; camelCase keys are among them because a backend that re-cases keys leaves all-lowercase ones alone
const KEYS: [(&str, &str); 7] = [("type", "content"), ("t", "c"), ("case", "default"), ("kindId", "dataUrl"), ("tag_key", "content_key"), ("Type", "Content"), ("kind", "data")];
const IDENTS: [[&str; 2]; 3] = [["A", "Foo"], ["FooBar", "Foo1"], ["Baz", "Baz"]];

#[derive(Clone, Copy, Debug, PartialEq, Eq)]
pub enum PK {
    Unit,
    NewString,
    NewOptU32,
    NewUser,
    Struct1,
    Struct2,
    NewGeneric,
    NewBoxSelf,
}
const KINDS: [PK; 8] = [PK::Unit, PK::NewString, PK::NewOptU32, PK::NewUser, PK::Struct1, PK::Struct2, PK::NewGeneric, PK::NewBoxSelf];

#[derive(Clone, Debug)]
pub struct Case {
    pub variants: Vec<(String, PK, Option<&'static str>)>,
    pub rule: Option<&'static str>,
    pub keys: (&'static str, &'static str),
    pub lang: Lang,
    pub prefixed: bool,
    pub style: AttrStyle,
}

pub fn gen(ch: &mut Chooser, max_variants: usize, key_choices: usize) -> Case {
    let n = 1 + ch.choose("nvariants", max_variants);
    let mut variants = Vec::new();
    for i in 0..n {
        let (id, pk, rn) = if i == 0 {
            let id = *ch.pick("ident", &IDENTS[0]);
            (id, *ch.pick("kind", &KINDS), *ch.pick("rename", &RENAMES))
        } else {
            // later variants: every kind, rename ∈ {none, dashed}, the two identifiers of the position
            // (the third variant, thorough tier only, is one identifier × 4 kinds to keep the product at ~30M runs)
            if i == 1 {
                let id = *ch.pick("ident", &IDENTS[i]);
                (id, *ch.pick("kind", &KINDS), *ch.pick("rename2", &[None, Some("other-dash")]))
            } else {
                (IDENTS[i][0], *ch.pick("kind3", &[PK::Unit, PK::NewString, PK::Struct1, PK::NewBoxSelf]), *ch.pick("rename2", &[None, Some("other-dash")]))
            }
        };
        variants.push((id.to_string(), pk, rn));
    }
    let rule = *ch.pick("rename_all", &RULES);
    let algebraic = variants.iter().any(|v| v.1 != PK::Unit);
    let keys = if algebraic { KEYS[ch.choose("keys", key_choices)] } else { KEYS[0] };
    // one attribute per argument; all arguments merged in reverse order; one per argument, each list with a trailing comma
    let style = *ch.pick("attr_style", &[AttrStyle::Separate, AttrStyle::MergedReversed, AttrStyle::SeparateReversed]);
    let lang = *ch.pick("lang", &ALL_LANGS);
    let prefixed = ch.flag("cfg");
    Case { variants, rule, keys, lang, prefixed, style }
}

pub fn program(c: &Case) -> (File, Item) {
    let generic = c.variants.iter().any(|v| v.1 == PK::NewGeneric);
    let mut vs = Vec::new();
    for (id, pk, rn) in &c.variants {
        let kind = match pk {
            PK::Unit => VKind::Unit,
            PK::NewString => VKind::Newtype(Ty::Prim("String")),
            PK::NewOptU32 => VKind::Newtype(Ty::Option(Box::new(Ty::Prim("u32")))),
            PK::NewUser => VKind::Newtype(Ty::user("Payload")),
            PK::Struct1 => VKind::Struct(vec![Field::new("alpha", Ty::Prim("u32"))]),
            PK::Struct2 => VKind::Struct(vec![Field::new("alpha", Ty::Prim("u32")), Field::new("beta_two", Ty::Prim("String"))]),
            PK::NewGeneric => VKind::Newtype(Ty::Param("T".into())),
            PK::NewBoxSelf => VKind::Newtype(Ty::Ptr("Box", Box::new(if generic { Ty::Generic("Outer".into(), vec![Ty::Param("T".into())]) } else { Ty::user("Outer") }))),
        };
        let mut v = Variant::new(id, kind);
        v.rename = rn.map(String::from);
        v.style = c.style;
        vs.push(v);
    }
    let algebraic = c.variants.iter().any(|v| v.1 != PK::Unit);
    let mut e = Item::new("Outer", IKind::Enum { variants: vs, tag: algebraic.then(|| c.keys.0.to_string()), content: algebraic.then(|| c.keys.1.to_string()) });
    e.rename_all = c.rule.map(String::from);
    e.style = c.style;
    if generic {
        e.generics = vec!["T".into()];
    }
    let payload = Item::strukt("Payload", vec![Field::new("p", Ty::Prim("u32"))]);
    (File::single(vec![payload, e.clone()]), e)
}

fn payload_class(p: &Payload) -> &'static str {
    match p {
        Payload::None => "unit",
        Payload::Type(..) => "newtype",
        Payload::Inner(_) | Payload::Inline(_) => "struct",
    }
}

fn expected_class(pk: PK) -> &'static str {
    match pk {
        PK::Unit => "unit",
        PK::Struct1 | PK::Struct2 => "struct",
        _ => "newtype",
    }
}

fn vio(acc: &mut Acc, c: &Case, facet: &str, shape: String, detail: serde_json::Value) {
    acc.vios.add(Violation { sig: format!("C02|{}|{facet}|{shape}", c.lang.name()), detail });
}

pub fn check_case(c: &Case, choices: &[u32], acc: &mut Acc) {
    let (file, item) = program(c);
    let IKind::Enum { variants, tag, content } = &item.kind else { return };
    let cfg = if c.prefixed { Cfg::prefixed() } else { Cfg::plain() };
    let expected: Vec<String> = variants.iter().map(|v| refmodel::variant_name(c.rule, v)).collect();
    {
        let mut s = expected.clone();
        s.sort();
        s.dedup();
        if s.len() != expected.len() {
            acc.out_of_scope += 1; // two variants with the same wire name: not a meaningful serde program
            return;
        }
    }
    let algebraic = tag.is_some();
    let generic = !item.generics.is_empty();
    acc.runs += 1;
    let res = refmodel::run_single(&file, c.lang, &cfg);
    let ok = match res {
        Ok(ok) => ok,
        Err((fail, source)) => {
            if let RunFail::Render(e) = &fail {
                acc.machinery(format!("renderer produced invalid Rust: {e}\n{source}"));
                return;
            }
            // Go does not support generic enums / Python generic recursion etc.: a clean generation error is not a wire mismatch
            let shape = format!("{}|generic={}|algebraic={}", fail.class(), generic as u8, algebraic as u8);
            vio(acc, c, "no-output", shape, json!({"choices": choices, "lang": c.lang.name(), "source": source, "failure": fail.describe()}));
            return;
        }
    };
    acc.inputs.insert(report::fnv64(&ok.source));
    let name = refmodel::prefixed(c.lang, &cfg, "Outer");
    let Some(e): Option<&EDef> = ok.out.enums().find(|e| e.name == name) else {
        vio(acc, c, "definition-missing", format!("algebraic={}", algebraic as u8), json!({"choices": choices, "source": ok.source, "output": ok.text}));
        return;
    };
    let base = json!({"choices": choices, "lang": c.lang.name(), "prefixed": c.prefixed, "source": ok.source, "output": ok.text});
    // 1. one case per variant, wire names equal serde's
    acc.judgements += 1;
    if e.variants.len() != variants.len() {
        vio(acc, c, "variant-count", format!("expected={} observed={}", variants.len(), e.variants.len()), base.clone());
    }
    for (i, v) in variants.iter().enumerate() {
        acc.judgements += 1;
        let exp = &expected[i];
        let n = e.variants.iter().filter(|d| &d.wire == exp).count();
        if *exp != v.ident {
            acc.nontrivial.insert(report::fnv64(&format!("{}|{exp}|{:?}|{}", v.ident, c.rule, algebraic)));
        }
        acc.outcomes.insert(report::fnv64(&format!("{}|{n}|{}", c.lang.name(), algebraic)));
        let src = if v.rename.is_some() { "rename".to_string() } else if let Some(r) = c.rule { format!("rename_all:{r}") } else { "ident".into() };
        if n != 1 {
            let observed: Vec<&str> = e.variants.iter().map(|d| d.wire.as_str()).collect();
            let mut d = base.clone();
            d["variant"] = json!(v.ident);
            d["expected_wire"] = json!(exp);
            d["observed_wires"] = json!(observed);
            vio(acc, c, if n == 0 { "variant-name-missing" } else { "variant-name-duplicated" }, format!("src={src}|dash={}|algebraic={}|kind={}", exp.contains('-') as u8, algebraic as u8, expected_class(c.variants[i].1)), d);
            continue;
        }
        let d = e.variants.iter().find(|d| &d.wire == exp).unwrap();
        if payload_class(&d.payload) != expected_class(c.variants[i].1) {
            let mut dd = base.clone();
            dd["variant"] = json!(v.ident);
            dd["observed_payload"] = json!(format!("{:?}", d.payload));
            vio(acc, c, "payload-kind", format!("expected={} observed={}", expected_class(c.variants[i].1), payload_class(&d.payload)), dd);
        }
        // Kotlin unit enums carry the name twice (annotation + constructor argument)
        for k in &d.tag_keys {
            if !algebraic && c.lang == Lang::Kotlin && k != exp {
                let mut dd = base.clone();
                dd["variant"] = json!(v.ident);
                vio(acc, c, "variant-name-second-occurrence", format!("src={src}"), dd);
            }
        }
        if algebraic {
            let (tk, ck) = (tag.as_ref().unwrap(), content.as_ref().unwrap());
            for k in &d.tag_keys {
                acc.judgements += 1;
                if k != tk {
                    let mut dd = base.clone();
                    dd["expected_tag"] = json!(tk);
                    dd["observed"] = json!(k);
                    vio(acc, c, "tag-key-in-variant", format!("kind={}", expected_class(c.variants[i].1)), dd);
                }
            }
            for k in &d.content_keys {
                acc.judgements += 1;
                if k != ck {
                    let mut dd = base.clone();
                    dd["expected_content"] = json!(ck);
                    dd["observed"] = json!(k);
                    vio(acc, c, "content-key-in-variant", format!("kind={}", expected_class(c.variants[i].1)), dd);
                }
            }
        }
    }
    // 2. tag / content facets of the enum as a whole
    if algebraic {
        let (tk, ck) = (tag.as_ref().unwrap(), content.as_ref().unwrap());
        if *tk != "type" || *ck != "content" {
            acc.nontrivial.insert(report::fnv64(&format!("keys|{tk}|{ck}|{}", c.lang.name())));
        }
        for (facet, k) in &e.tag_facets {
            acc.judgements += 1;
            if k != tk {
                let mut dd = base.clone();
                dd["facet"] = json!(facet);
                dd["expected_tag"] = json!(tk);
                dd["observed"] = json!(k);
                vio(acc, c, "tag-key", format!("facet={}", facet.split(':').next().unwrap_or(facet)), dd);
            }
        }
        for (facet, k) in &e.content_facets {
            acc.judgements += 1;
            if k != ck {
                let mut dd = base.clone();
                dd["facet"] = json!(facet);
                dd["expected_content"] = json!(ck);
                dd["observed"] = json!(k);
                vio(acc, c, "content-key", format!("facet={}", facet.split(':').next().unwrap_or(facet)), dd);
            }
        }
        // facet presence: a backend that carries the key must carry it in all its places
        let (want_tag, want_content) = match c.lang {
            Lang::Swift => (1 + 1 + variants.len(), 1 + variants.iter().filter(|v| !matches!(v.kind, VKind::Unit)).count()),
            Lang::Go => (3, 2),
            _ => (0, 0),
        };
        if e.tag_facets.len() < want_tag || e.content_facets.len() < want_content {
            let mut dd = base.clone();
            dd["tag_facets"] = json!(e.tag_facets);
            dd["content_facets"] = json!(e.content_facets);
            vio(acc, c, "facet-count", format!("tag={}/{want_tag} content={}/{want_content}", e.tag_facets.len(), e.content_facets.len()), dd);
        }
    }
    if acc.samples.len() < 2 && algebraic && c.rule.is_some() && c.keys.0 != "type" {
        acc.sample(json!({"lang": c.lang.name(), "source": ok.source, "expected_variant_names": expected, "tag": tag, "content": content,
            "observed": e.variants.iter().map(|d| json!({"case": d.case_name, "wire": d.wire, "payload": payload_class(&d.payload)})).collect::<Vec<_>>(),
            "tag_facets": e.tag_facets, "content_facets": e.content_facets}));
    }
}

fn controls(rep: &mut Report) {
    // canned Swift text with a wrong content key in one encode arm must be seen by the extractor
    let canned = r#"import Foundation

public enum Outer: Codable {
	case a(String)
	case b

	enum CodingKeys: String, CodingKey, Codable {
		case a = "A",
			b
	}

	private enum ContainerCodingKeys: String, CodingKey {
		case kind, data
	}

	public init(from decoder: Decoder) throws {
		let container = try decoder.container(keyedBy: ContainerCodingKeys.self)
		if let type = try? container.decode(CodingKeys.self, forKey: .kind) {
			switch type {
			case .a:
				if let content = try? container.decode(String.self, forKey: .data) {
					self = .a(content)
					return
				}
			case .b:
				self = .b
				return
			}
		}
		throw DecodingError.typeMismatch(Outer.self, DecodingError.Context(codingPath: decoder.codingPath, debugDescription: "Wrong type for Outer"))
	}

	public func encode(to encoder: Encoder) throws {
		var container = encoder.container(keyedBy: ContainerCodingKeys.self)
		switch self {
		case .a(let content):
			try container.encode(CodingKeys.a, forKey: .kind)
			try container.encode(content, forKey: .kind)
		case .b:
			try container.encode(CodingKeys.b, forKey: .kind)
		}
	}
}
"#;
    match crate::extract::extract(Lang::Swift, canned) {
        Ok(of) => {
            let e = of.enums().next();
            let ok = e
                .map(|e| {
                    e.variants.len() == 2
                        && e.variants[0].wire == "A"
                        && e.variants[1].wire == "b"
                        && e.tag_facets.iter().filter(|f| f.1 == "kind").count() == 4
                        && e.content_facets.iter().any(|f| f.1 == "kind")
                        && e.content_facets.iter().filter(|f| f.1 == "data").count() == 2
                })
                .unwrap_or(false);
            if !ok {
                rep.machinery(format!("control: Swift facets not read back correctly: {:?}", e.map(|e| (&e.tag_facets, &e.content_facets))));
            }
        }
        Err(e) => rep.machinery(format!("control: canned Swift text rejected: {}", e.msg())),
    }
    let v = Variant::new("FooBar", VKind::Unit);
    if refmodel::variant_name(Some("snake_case"), &v) != "foo_bar" || refmodel::variant_name(Some("camelCase"), &v) != "fooBar" || refmodel::variant_name(None, &v) != "FooBar" {
        rep.machinery("control: reference model does not reproduce serde's variant names");
    }
}

pub fn run(args: &[String]) -> i32 {
    let tier = report::tier_from_env(args);
    let mut rep = Report::new("C02", &tier);
    controls(&mut rep);
    // quick: the first five pairs (the fifth is the first whose keys a case conversion would alter: tag_key / content_key)
    let (maxv, keyn) = if rep.thorough() { (3, 7) } else { (2, 5) };
    let (accs, stats) = explore(
        |ch| {
            gen(ch, maxv, keyn);
        },
        |ch, acc: &mut Acc| {
            let c = gen(ch, maxv, keyn);
            let choices = ch.choices();
            check_case(&c, &choices, acc);
        },
        Mode::Product,
        4,
        report::threads(),
        u64::MAX,
    );
    merge(
        &mut rep,
        "enum_encoding",
        accs,
        &stats,
        json!({"max_variants": maxv, "variant_kinds": 8, "first_variant_renames": 5, "later_variant_renames": 2, "third_variant": "1 identifier × 4 kinds × 2 renames (thorough only)", "rename_all": 9, "tag_content_pairs": keyn,
               "attr_styles": 2, "languages": 6, "configs": 2, "generics": "variant kind newtype(T)", "recursion": "variant kind newtype(Box<Self>)"}),
    );
    let amb_k = if rep.thorough() { 3 } else { 2 };
    super::common::ambient_family(&mut rep, "ambient_variations", amb_k, |ch| { gen(ch, 2, 6); }, |ch, acc| {
        let c = gen(ch, 2, 6);
        check_case(&c, &ch.choices(), acc);
    });
    require_nonvacuous(&mut rep);
    rep.cov("rule", json!("full product of 1..N variants (identifier × kind × rename) × enum rename_all × (tag, content) pair × attribute style × language × configuration; each facet of the generated enum that carries a variant name, the tag key or the content key is compared with serde's value. non-trivial = expected wire name differs from the identifier, or non-default tag/content keys."));
    rep.assume("facets per backend: TS literal/member keys; Kotlin @SerialName + ctor string + content parameter; Swift CodingKeys, ContainerCodingKeys and every forKey: use; Scala serialName + content parameter; Go const values and the three json tag sites; Python Types member values, Literal defaults and attribute names");
    rep.finish()
}

pub fn replay(choices: &[u32], thorough: bool) -> i32 {
    let mut ch = Chooser::replay(choices);
    let (maxv, keyn) = if thorough { (3, 7) } else { (2, 5) };
    let c = gen(&mut ch, maxv, keyn);
    let mut acc = Acc::default();
    check_case(&c, choices, &mut acc);
    println!("{}", render_file(&program(&c).0));
    for (sig, (_, d)) in &acc.vios.by_sig {
        println!("VIOLATION signature: {sig}\n{}", serde_json::to_string_pretty(d).unwrap());
    }
    (acc.vios.total() > 0) as i32
}
