//! C04 — a generated field is optional iff the Rust field is Option<T> or carries bare serde(default).
use super::common::{merge, require_nonvacuous, Acc};
use crate::explore::{explore, Chooser, Mode};
use crate::extract::{Def, OptMark, Payload, TT};
use crate::pipeline::{Cfg, Lang, ALL_LANGS};
use crate::prog::*;
use crate::refmodel::{self, RunFail};
use crate::report::{self, Report, Violation};
use serde_json::json;

const BASES: [&str; 12] = [
    "u32", "String", "Vec<u32>", "User", "T", "DateTime(mapped)", "Vec<u8>(mapped to bytes)",
    // an Option as a direct parameter of a container is part of the base type, not of the member's optionality
    "Vec<Option<u32>>", "HashMap<String, Option<User>>", "Pair<Option<u32>>",
    // a user type whose definition carries serde(rename): the reference is rewritten in a pass of its own
    "Member(renamed)", "Vec<Member(renamed)>",
];
const WRAPPERS: [&str; 6] = ["T", "Option<T>", "Option<Option<T>>", "Box<Option<T>>", "Option<Box<T>>", "Arc<Option<Option<T>>>"];
const DEFAULTS: [&str; 7] = ["none", "bare", "merged-last", "merged-first", "path", "separate-after-other-serde-attribute", "separate-before-other-serde-attribute"];
const POSITIONS: [&str; 4] = ["struct-field", "variant-field", "variant-payload", "alias"];

fn base_ty(b: &str) -> Ty {
    match b {
        "u32" => Ty::Prim("u32"),
        "String" => Ty::Prim("String"),
        "Vec<u32>" => Ty::Vec(Box::new(Ty::Prim("u32"))),
        "User" => Ty::user("User"),
        "Member(renamed)" => Ty::user("Member"),
        "Vec<Member(renamed)>" => Ty::Vec(Box::new(Ty::user("Member"))),
        "DateTime(mapped)" => Ty::user("DateTime"),
        "Vec<u8>(mapped to bytes)" => Ty::Vec(Box::new(Ty::Prim("u8"))),
        "Vec<Option<u32>>" => Ty::Vec(Box::new(Ty::Option(Box::new(Ty::Prim("u32"))))),
        "HashMap<String, Option<User>>" => Ty::Map(Box::new(Ty::Prim("String")), Box::new(Ty::Option(Box::new(Ty::user("User"))))),
        "Pair<Option<u32>>" => Ty::Generic("Pair".into(), vec![Ty::Option(Box::new(Ty::Prim("u32")))]),
        _ => Ty::Param("T".into()),
    }
}
fn wrap(w: &str, t: Ty) -> Ty {
    let o = |t: Ty| Ty::Option(Box::new(t));
    match w {
        "T" => t,
        "Option<T>" => o(t),
        "Option<Option<T>>" => o(o(t)),
        "Box<Option<T>>" => Ty::Ptr("Box", Box::new(o(t))),
        "Option<Box<T>>" => o(Ty::Ptr("Box", Box::new(t))),
        _ => Ty::Ptr("Arc", Box::new(o(o(t)))),
    }
}
fn opt_levels(t: &Ty) -> usize {
    match t.erase() {
        Ty::Option(inner) => 1 + opt_levels(&inner),
        _ => 0,
    }
}

#[derive(Clone, Debug)]
pub struct Case {
    pub base: &'static str,
    pub wrapper: &'static str,
    pub default: &'static str,
    pub position: &'static str,
    pub lang: Lang,
    pub prefixed: bool,
    /// `#[typeshare(<this language>(type = "Xt"))]` on the field. Only judged together with a bare default on a
    /// non-Option type: there every backend that honours overrides keeps its optional idiom (what an override does
    /// to an `Option<T>` field differs between backends by design and is not C04's business).
    pub type_override: bool,
}

pub fn gen(ch: &mut Chooser) -> Case {
    let position = *ch.pick("position", &POSITIONS);
    let base = *ch.pick("base", &BASES);
    let wrapper = *ch.pick("wrapper", &WRAPPERS);
    let default = if position.ends_with("field") { *ch.pick("default", &DEFAULTS) } else { "none" };
    let lang = *ch.pick("lang", &ALL_LANGS);
    let prefixed = ch.flag("cfg");
    let bare = matches!(default, "bare" | "merged-last" | "merged-first" | "separate-after-other-serde-attribute" | "separate-before-other-serde-attribute");
    let type_override = position.ends_with("field") && wrapper == "T" && bare && lang != Lang::Python && ch.flag("own_language_type_override");
    Case { base, wrapper, default, position, lang, prefixed, type_override }
}

pub fn program(c: &Case) -> File {
    let bt = base_ty(c.base);
    let ty = wrap(c.wrapper, bt.clone());
    let mut f = Field::new("subject", ty.clone());
    match c.default {
        "bare" => f.default = DefaultKind::Bare,
        "merged-last" => {
            f.default = DefaultKind::Bare;
            f.rename = Some("subject".into());
            f.style = AttrStyle::Merged;
        }
        "merged-first" => {
            f.default = DefaultKind::Bare;
            f.rename = Some("subject".into());
            f.style = AttrStyle::MergedReversed;
        }
        "path" => f.default = DefaultKind::Path,
        "separate-after-other-serde-attribute" => {
            // #[serde(rename = "subject")] #[serde(default)]
            f.default = DefaultKind::Bare;
            f.rename = Some("subject".into());
            f.style = AttrStyle::Separate;
        }
        "separate-before-other-serde-attribute" => {
            // #[serde(default,)] #[serde(rename = "subject",)]
            f.default = DefaultKind::Bare;
            f.rename = Some("subject".into());
            f.style = AttrStyle::SeparateReversed;
        }
        _ => {}
    }
    if c.type_override {
        f.ts_args.push(format!("{}(type = \"Xt\")", c.lang.name()));
    }
    let ctl = Field::new("ctl", bt.clone());
    let generic = c.base == "T";
    let mut items = vec![Item::strukt("User", vec![Field::new("u", Ty::Prim("u32"))])];
    if c.base.contains("Member") {
        let mut m = Item::strukt("Member", vec![Field::new("m", Ty::Prim("u32"))]);
        m.rename = Some("MemberV2".into());
        items.push(m);
    }
    if c.base.starts_with("Pair<") {
        let mut p = Item::strukt("Pair", vec![Field::new("a", Ty::Param("A".into()))]);
        p.generics = vec!["A".into()];
        items.push(p);
    }
    let mut push = |mut it: Item| {
        if generic {
            it.generics = vec!["T".into()];
        }
        items.push(it);
    };
    match c.position {
        "struct-field" => push(Item::strukt("Outer", vec![ctl, f, Field::new("tail", Ty::Prim("bool"))])),
        "variant-field" => push(Item::enumm("Outer", vec![Variant::new("V", VKind::Struct(vec![ctl, f, Field::new("tail", Ty::Prim("bool"))])), Variant::new("W", VKind::Unit)])),
        "variant-payload" => push(Item::enumm("Outer", vec![Variant::new("Ctl", VKind::Newtype(bt)), Variant::new("Subject", VKind::Newtype(ty))])),
        _ => {
            push(Item::new("Ctl", IKind::Alias(bt)));
            push(Item::new("Outer", IKind::Alias(ty)));
        }
    }
    File::single(items)
}

fn wrap_opt(t: &TT, n: usize) -> TT {
    let mut t = t.clone();
    for _ in 0..n {
        t = TT::Opt(Box::new(t));
    }
    t
}

pub fn check_case(c: &Case, choices: &[u32], acc: &mut Acc) {
    let file = program(c);
    let mut cfg = if c.prefixed { Cfg::prefixed() } else { Cfg::plain() };
    // types that a backend prints through its custom (de)serialisation helpers
    match (c.base, c.lang) {
        ("DateTime(mapped)", Lang::TypeScript) => cfg.type_mappings.push(("DateTime".into(), "Date".into())),
        ("DateTime(mapped)", Lang::Python) => cfg.type_mappings.push(("DateTime".into(), "datetime".into())),
        ("DateTime(mapped)", Lang::Go) => cfg.type_mappings.push(("DateTime".into(), "string".into())),
        ("DateTime(mapped)", _) => cfg.type_mappings.push(("DateTime".into(), "String".into())),
        ("Vec<u8>(mapped to bytes)", Lang::TypeScript) => cfg.type_mappings.push(("Vec<u8>".into(), "Uint8Array".into())),
        ("Vec<u8>(mapped to bytes)", Lang::Python) => cfg.type_mappings.push(("Vec<u8>".into(), "bytes".into())),
        ("Vec<u8>(mapped to bytes)", Lang::Go) => cfg.type_mappings.push(("Vec<u8>".into(), "[]byte".into())),
        _ => {}
    }
    let ty = wrap(c.wrapper, base_ty(c.base));
    let bare_default = matches!(c.default, "bare" | "merged-last" | "merged-first" | "separate-after-other-serde-attribute" | "separate-before-other-serde-attribute");
    let expect_optional = refmodel::optional(&ty, if bare_default { DefaultKind::Bare } else { DefaultKind::None });
    let levels = opt_levels(&ty);
    // number of optional wrappers the type text must carry in opt-carrying backends
    let type_levels = levels + if bare_default && levels == 0 { 1 } else { 0 };
    // Go with `no_pointer_slice`: the innermost Option around a Vec adds no pointer (documented: a nil slice is the absent value)
    let go_slice_exempt = c.lang == Lang::Go && cfg.go_no_pointer_slice && levels >= 1 && matches!(c.base, "Vec<u32>" | "Vec<u8>(mapped to bytes)" | "Vec<Option<u32>>" | "Vec<Member(renamed)>");
    let type_levels = if go_slice_exempt { type_levels - 1 } else { type_levels };
    acc.runs += 1;
    let res = refmodel::run_single(&file, c.lang, &cfg);
    let tag = format!("{}|{}", c.wrapper, c.default);
    let ok = match res {
        Ok(ok) => ok,
        Err((fail, source)) => {
            if let RunFail::Render(e) = &fail {
                acc.machinery(format!("renderer produced invalid Rust: {e}\n{source}"));
                return;
            }
            acc.vios.add(Violation {
                sig: format!("C04|{}|{}|no-output:{}|base={}", c.lang.name(), c.position, fail.class(), c.base),
                detail: json!({"choices": choices, "lang": c.lang.name(), "source": source, "failure": fail.describe()}),
            });
            return;
        }
    };
    acc.inputs.insert(report::fnv64(&ok.source));
    let outer = refmodel::prefixed(c.lang, &cfg, "Outer");
    // locate (subject type, subject marker, control type)
    let mut found: Option<(TT, OptMark, TT)> = None;
    match c.position {
        "struct-field" | "variant-field" => {
            let fields = if c.position == "struct-field" {
                ok.out.structs().find(|s| s.name == outer).map(|s| s.fields.clone())
            } else if c.lang == Lang::TypeScript {
                ok.out.enums().find(|e| e.name == outer).and_then(|e| e.variants.iter().find_map(|v| if let Payload::Inline(f) = &v.payload { Some(f.clone()) } else { None }))
            } else {
                let n = refmodel::prefixed(c.lang, &cfg, "OuterVInner");
                ok.out.structs().find(|s| s.name == n).map(|s| s.fields.clone())
            };
            if let Some(fs) = fields {
                let s = fs.iter().find(|f| f.wire == "subject");
                let k = fs.iter().find(|f| f.wire == "ctl");
                if let (Some(s), Some(k)) = (s, k) {
                    found = Some((s.ty.clone(), s.opt.clone(), k.ty.clone()));
                }
            }
        }
        "variant-payload" => {
            if let Some(e) = ok.out.enums().find(|e| e.name == outer) {
                let get = |wire: &str| {
                    e.variants.iter().find(|v| v.wire == wire).map(|v| match &v.payload {
                        Payload::Type(t, q) => (t.clone(), *q),
                        Payload::Inner(t) => (t.clone(), false),
                        // TS prints `content?: undefined` for an optional unit-like payload
                        _ => (TT::name("undefined"), true),
                    })
                };
                if let (Some((st, sq)), Some((kt, _))) = (get("Subject"), get("Ctl")) {
                    found = Some((st.clone(), OptMark { optional: sq, nullable: matches!(st, TT::Opt(_)), other_default: None }, kt));
                }
            }
        }
        _ => {
            let ctl = refmodel::prefixed(c.lang, &cfg, "Ctl");
            let get = |n: &str| {
                ok.out.defs.iter().find_map(|d| match d {
                    Def::Alias(a) if a.name == n => Some((a.ty.clone(), a.opt.clone())),
                    _ => None,
                })
            };
            if let (Some((st, so)), Some((kt, _))) = (get(&outer), get(&ctl)) {
                found = Some((st, so, kt));
            }
        }
    }
    let base = json!({"choices": choices, "lang": c.lang.name(), "position": c.position, "base": c.base, "wrapper": c.wrapper, "default": c.default,
        "expected_optional": expect_optional, "source": ok.source, "output": ok.text});
    let Some((sty, sopt, kty)) = found else {
        acc.vios.add(Violation { sig: format!("C04|{}|{}|member-not-found|{tag}", c.lang.name(), c.position), detail: base });
        return;
    };
    acc.judgements += 1;
    if expect_optional || c.default != "none" {
        acc.nontrivial.insert(report::fnv64(&format!("{}|{}|{}|{}|{}", c.position, c.base, c.wrapper, c.default, c.lang.name())));
    }
    let mut bad = |facet: &str, exp: String, obs: String| {
        let mut d = base.clone();
        d["facet"] = json!(facet);
        d["expected"] = json!(exp);
        d["observed"] = json!(obs);
        acc.vios.add(Violation { sig: format!("C04|{}|{}|{facet}|{tag}", c.lang.name(), c.position), detail: d });
    };
    // 1. the "may be absent" marker
    let marker = match c.lang {
        // Swift has no separate marker: the property type is optional
        Lang::Swift => matches!(sty, TT::Opt(_)),
        // aliases / payloads in the opt-carrying backends only have the type
        // (with Go's no_pointer_slice a single Option around a Vec leaves no trace in a bare type: nothing to judge)
        _ if c.position != "struct-field" && c.position != "variant-field" && go_slice_exempt && levels == 1 => expect_optional,
        _ if c.position == "alias" && c.lang != Lang::TypeScript => matches!(sty, TT::Opt(_)),
        _ if c.position == "variant-payload" && c.lang != Lang::TypeScript => matches!(sty, TT::Opt(_)),
        _ => sopt.optional,
    };
    if marker != expect_optional {
        bad(if expect_optional { "marker-missing" } else { "marker-unexpected" }, format!("optional={expect_optional}"), format!("optional={marker} ({sopt:?})"));
    }
    if let Some(d) = &sopt.other_default {
        bad("foreign-default", "no default other than the optional idiom".into(), d.clone());
    }
    // 2. the type under the marker equals the control's type (an overridden type is whatever the user wrote)
    if c.type_override {
        acc.outcomes.insert(report::fnv64(&format!("{}|{marker}|override", c.lang.name())));
        return;
    }
    if c.lang == Lang::TypeScript {
        if sty != kty {
            bad("type-changed", kty.show(), sty.show());
        }
        // Option<Option<T>> must stay distinguishable: `?` plus `| null` (fields only; payload/alias carry no union)
        if c.position.ends_with("field") {
            let want_null = levels >= 2;
            if sopt.nullable != want_null {
                bad("null-union", format!("| null = {want_null}"), format!("| null = {}", sopt.nullable));
            }
        }
    } else {
        let want = wrap_opt(&kty, type_levels);
        if sty != want {
            bad("type-changed", want.show(), sty.show());
        }
    }
    acc.outcomes.insert(report::fnv64(&format!("{}|{marker}|{}", c.lang.name(), sty.show() == kty.show())));
    if acc.samples.len() < 2 && expect_optional && c.base == "Vec<u32>" {
        acc.sample(json!({"lang": c.lang.name(), "position": c.position, "rust_type": ty.render(), "default": c.default, "observed_type": sty.show(), "observed_marker": format!("{sopt:?}"), "control_type": kty.show()}));
    }
}

fn controls(rep: &mut Report) {
    let canned = "@Serializable\ndata class Outer (\n\tval ctl: UInt,\n\tval subject: UInt? = null,\n\tval wrong: UInt = null\n)\n";
    match crate::extract::extract(Lang::Kotlin, canned) {
        Ok(of) => {
            let s = of.structs().next().unwrap();
            let ok = s.fields[1].opt.optional && matches!(s.fields[1].ty, TT::Opt(_)) && s.fields[2].opt.optional && !matches!(s.fields[2].ty, TT::Opt(_)) && !s.fields[0].opt.optional;
            if !ok {
                rep.machinery("control: Kotlin optional markers not read back correctly");
            }
        }
        Err(e) => rep.machinery(format!("control: canned Kotlin rejected: {}", e.msg())),
    }
    if !refmodel::optional(&Ty::Ptr("Box", Box::new(Ty::Option(Box::new(Ty::Prim("u32"))))), DefaultKind::None) || refmodel::optional(&Ty::Prim("u32"), DefaultKind::Path) || !refmodel::optional(&Ty::Prim("u32"), DefaultKind::Bare) {
        rep.machinery("control: reference model optional() wrong");
    }
}

pub fn run(args: &[String]) -> i32 {
    let tier = report::tier_from_env(args);
    let mut rep = Report::new("C04", &tier);
    controls(&mut rep);
    let (accs, stats) = explore(
        |ch| {
            gen(ch);
        },
        |ch, acc: &mut Acc| {
            let c = gen(ch);
            check_case(&c, &ch.choices(), acc);
        },
        Mode::Product,
        3,
        report::threads(),
        u64::MAX,
    );
    merge(&mut rep, "optional_markers", accs, &stats, json!({"bases": BASES, "wrappers": WRAPPERS, "default_forms": DEFAULTS, "positions": POSITIONS, "own_language_type_override": "with a bare default on a non-Option field (marker only)", "languages": 6, "configs": 2}));
    let amb_k = if rep.thorough() { 3 } else { 2 };
    super::common::ambient_family(&mut rep, "ambient_variations", amb_k + 1, |ch| { gen(ch); }, |ch, acc| {
        let c = gen(ch);
        check_case(&c, &ch.choices(), acc);
    });
    require_nonvacuous(&mut rep);
    rep.cov("rule", json!("full product base type × wrapper × serde(default) form × position × language × configuration; the optional marker of the member is compared with `Option ∨ bare default`, and the member's type with the type of a control member of the un-wrapped base type in the same definition (differential oracle). non-trivial = the field is expected optional or carries some default attribute."));
    rep.assume("optional idioms per backend as listed in the property: TS `?` (+ `| null` for double option), Kotlin `? = null`, Swift `?`, Scala `Option[..] = None`, Go pointer + omitempty, Python Optional + default None");
    rep.finish()
}
