//! C10 — generated files are syntactically well-formed in their target language.
use super::common::{merge, require_nonvacuous, Acc};
use crate::cli::Scratch;
use crate::explore::{explore, Mode};
use crate::extract;
use crate::pipeline::{self, Cfg, Lang, Outcome, SrcFile, ALL_LANGS};
use crate::prog::*;
use crate::report::{self, Report, Violation};
use serde_json::json;
use std::sync::Mutex;

fn baseline(lang: Lang) -> File {
    let mut items = vec![
        Item::strukt("Person", vec![Field::new("name", Ty::Prim("String")), Field::new("age", Ty::Prim("u32"))]),
        Item::new("Marker", IKind::UnitStruct),
        Item::new("Ident", IKind::Newtype(Ty::Prim("String"))),
        Item::enumm("Color", vec![Variant::new("Red", VKind::Unit), Variant::new("Green", VKind::Unit)]),
        Item::enumm(
            "Shape",
            vec![
                Variant::new("Circle", VKind::Newtype(Ty::Prim("u32"))),
                Variant::new("Rect", VKind::Struct(vec![Field::new("w", Ty::Prim("u32")), Field::new("h", Ty::Prim("u32"))])),
                Variant::new("Empty", VKind::Unit),
            ],
        ),
        Item::new("Names", IKind::Alias(Ty::Vec(Box::new(Ty::Prim("String"))))),
    ];
    if matches!(lang, Lang::TypeScript | Lang::Go | Lang::Python) {
        items.push(Item::new("LIMIT", IKind::Const { ty: Ty::Prim("u32"), expr: "10".into() }));
    }
    File::single(items)
}

type Dev = (&'static str, fn(&mut File, &mut Cfg));

fn item<'a>(f: &'a mut File, name: &str) -> &'a mut Item {
    f.items.iter_mut().find(|i| i.name == name).unwrap()
}
fn fields<'a>(f: &'a mut File, name: &str) -> &'a mut Vec<Field> {
    match &mut item(f, name).kind {
        IKind::Struct(fs) => fs,
        _ => panic!("not a struct"),
    }
}
fn variants<'a>(f: &'a mut File, name: &str) -> &'a mut Vec<Variant> {
    match &mut item(f, name).kind {
        IKind::Enum { variants, .. } => variants,
        _ => panic!("not an enum"),
    }
}
fn rect_fields(f: &mut File) -> &mut Vec<Field> {
    match &mut variants(f, "Shape")[1].kind {
        VKind::Struct(fs) => fs,
        _ => panic!(),
    }
}
fn set_keys(f: &mut File, t: &str, c: &str) {
    if let IKind::Enum { tag, content, .. } = &mut item(f, "Shape").kind {
        *tag = Some(t.into());
        *content = Some(c.into());
    }
}

pub const DEVIATIONS: &[Dev] = &[
    ("generic-struct-1", |f, _| {
        item(f, "Person").generics = vec!["T".into()];
        fields(f, "Person").push(Field::new("extra", Ty::Param("T".into())));
    }),
    ("generic-struct-2", |f, _| {
        item(f, "Person").generics = vec!["A".into(), "B".into()];
        fields(f, "Person").push(Field::new("left", Ty::Param("A".into())));
        fields(f, "Person").push(Field::new("right", Ty::Vec(Box::new(Ty::Param("B".into())))));
    }),
    ("generic-enum", |f, _| {
        item(f, "Shape").generics = vec!["T".into()];
        variants(f, "Shape").push(Variant::new("Custom", VKind::Newtype(Ty::Param("T".into()))));
        rect_fields(f).push(Field::new("tag", Ty::Option(Box::new(Ty::Param("T".into())))));
    }),
    ("generic-alias", |f, _| {
        item(f, "Names").generics = vec!["T".into()];
        item(f, "Names").kind = IKind::Alias(Ty::Vec(Box::new(Ty::Param("T".into()))));
    }),
    ("generic-newtype", |f, _| {
        item(f, "Ident").generics = vec!["T".into()];
        item(f, "Ident").kind = IKind::Newtype(Ty::Option(Box::new(Ty::Param("T".into()))));
    }),
    // a date-typed member: TypeScript / Go / Python print it through helpers (reviver, time import, validators); the
    // other three refuse the type, which is not a malformed file
    ("datetime-members", |f, _| {
        fields(f, "Person").push(Field::new("seen_at", Ty::user("OffsetDateTime")));
        rect_fields(f).push(Field::new("stamp", Ty::Option(Box::new(Ty::user("OffsetDateTime")))));
    }),
    ("datetime-members-dashed-keys", |f, _| {
        let mut a = Field::new("seen_at", Ty::user("OffsetDateTime"));
        a.rename = Some("seen-at".into());
        fields(f, "Person").push(a);
        let mut b = Field::new("stamp", Ty::Option(Box::new(Ty::user("OffsetDateTime"))));
        b.rename = Some("stamped-on".into());
        rect_fields(f).push(b);
    }),
    // references that instantiate a generic user type (declaring one is another feature)
    ("generic-instantiations", |f, _| {
        let mut w = Item::strukt("Wrapper", vec![Field::new("inner", Ty::Param("W".into()))]);
        w.generics = vec!["W".into()];
        f.items.push(w);
        let mut p2 = Item::strukt("Two", vec![Field::new("l", Ty::Param("L".into())), Field::new("r", Ty::Param("R".into()))]);
        p2.generics = vec!["L".into(), "R".into()];
        f.items.push(p2);
        let wrap = |t: Ty| Ty::Generic("Wrapper".into(), vec![t]);
        fields(f, "Person").push(Field::new("page", wrap(Ty::Prim("String"))));
        fields(f, "Person").push(Field::new("maybe", Ty::Option(Box::new(wrap(Ty::Prim("u32"))))));
        fields(f, "Person").push(Field::new("by_name", Ty::Map(Box::new(Ty::Prim("String")), Box::new(Ty::Generic("Two".into(), vec![Ty::Prim("u32"), wrap(Ty::Prim("bool"))])))));
        rect_fields(f).push(Field::new("wrapped", Ty::Vec(Box::new(wrap(Ty::Prim("String"))))));
        variants(f, "Shape").push(Variant::new("Boxed", VKind::Newtype(Ty::Generic("Two".into(), vec![Ty::Prim("String"), Ty::Prim("u32")]))));
    }),
    // one file per crate: backends derive package / module lines from the crate name
    ("multi-file-mode", |_, c| c.multi_file = true),
    ("field-dashed-rename", |f, _| fields(f, "Person")[0].rename = Some("full-name".into())),
    ("variant-field-dashed-rename", |f, _| rect_fields(f)[0].rename = Some("the-width".into())),
    ("unit-variant-dashed-rename", |f, _| variants(f, "Color")[0].rename = Some("dark-red".into())),
    ("variant-dashed-rename", |f, _| variants(f, "Shape")[0].rename = Some("a-circle".into())),
    ("field-keyword-rename", |f, _| {
        fields(f, "Person")[0].rename = Some("class".into());
        fields(f, "Person")[1].rename = Some("default".into());
    }),
    ("field-keyword-idents", |f, _| {
        let fs = fields(f, "Person");
        fs.push(Field::new("class", Ty::Prim("bool")));
        fs.push(Field::new("default", Ty::Prim("bool")));
        fs.push(Field::new("import", Ty::Prim("bool")));
        let mut t = Field::new("type", Ty::Prim("bool"));
        t.raw = true;
        fs.push(t);
        let mut i = Field::new("in", Ty::Prim("bool"));
        i.raw = true;
        fs.push(i);
        fs.push(Field::new("None", Ty::Prim("bool")));
    }),
    // identifiers that are not keywords themselves but become one once a backend normalises them
    ("field-near-keyword-idents", |f, _| {
        let fs = fields(f, "Person");
        for n in ["in_", "for_", "class_", "_from", "__import", "Class", "None_", "is__", "_"] {
            if n != "_" {
                fs.push(Field::new(n, Ty::Prim("bool")));
            }
        }
    }),
    ("variant-field-near-keyword-idents", |f, _| {
        let fs = rect_fields(f);
        for n in ["as_", "_while", "Def", "lambda_", "self_", "Self_"] {
            fs.push(Field::new(n, Ty::Prim("bool")));
        }
    }),
    ("variant-field-keyword-idents", |f, _| {
        let fs = rect_fields(f);
        fs.push(Field::new("case", Ty::Prim("bool")));
        fs.push(Field::new("from", Ty::Prim("bool")));
        let mut i = Field::new("for", Ty::Prim("bool"));
        i.raw = true;
        fs.push(i);
    }),
    ("variant-keyword-names", |f, _| {
        variants(f, "Color").push(Variant::new("Default", VKind::Unit));
        variants(f, "Color").push(Variant::new("Class", VKind::Unit));
        variants(f, "Shape").push(Variant::new("Switch", VKind::Newtype(Ty::Prim("bool"))));
        variants(f, "Shape").push(Variant::new("Return", VKind::Unit));
        variants(f, "Shape").push(Variant::new("Import", VKind::Struct(vec![Field::new("x", Ty::Prim("u32"))])));
    }),
    // identifiers that are legal in Rust only thanks to a leading underscore
    ("variant-underscore-digit-names", |f, _| {
        variants(f, "Color").push(Variant::new("_2D", VKind::Unit));
        variants(f, "Shape").push(Variant::new("_3D", VKind::Newtype(Ty::Prim("bool"))));
        variants(f, "Shape").push(Variant::new("_0", VKind::Unit));
        variants(f, "Shape").push(Variant::new("_404", VKind::Struct(vec![Field::new("x", Ty::Prim("u32"))])));
    }),
    ("field-underscore-digit-names", |f, _| {
        fields(f, "Person").push(Field::new("_1", Ty::Prim("u32")));
        rect_fields(f).push(Field::new("_2nd", Ty::Prim("bool")));
    }),
    // … under a rule that drops the underscore, so that the serde key itself starts with a digit
    ("field-underscore-digit-names-camel-case", |f, _| {
        fields(f, "Person").push(Field::new("_1", Ty::Prim("u32")));
        fields(f, "Person").push(Field::new("_2fa", Ty::Prim("bool")));
        item(f, "Person").rename_all = Some("camelCase".into());
    }),
    ("type-keyword-names", |f, _| {
        f.items.push(Item::strukt("Protocol", vec![Field::new("x", Ty::Prim("u32"))]));
        f.items.push(Item::enumm("Type", vec![Variant::new("One", VKind::Unit)]));
        f.items.push(Item::new("Any", IKind::Alias(Ty::Prim("String"))));
    }),
    ("field-underscore-rename", |f, _| fields(f, "Person")[0].rename = Some("_private".into())),
    ("variant-digit-rename", |f, _| {
        variants(f, "Color")[0].rename = Some("1st".into());
        variants(f, "Shape")[0].rename = Some("2nd".into());
    }),
    ("variant-digit-name", |f, _| {
        variants(f, "Shape").push(Variant::new("V2", VKind::Unit));
        variants(f, "Color").push(Variant::new("Shade3", VKind::Unit));
    }),
    ("type-rename", |f, _| {
        item(f, "Person").rename = Some("Human".into());
        item(f, "Shape").rename = Some("Figure".into());
        item(f, "Names").rename = Some("NameList".into());
    }),
    ("rename-all-kebab", |f, _| {
        item(f, "Person").rename_all = Some("kebab-case".into());
        fields(f, "Person").push(Field::new("home_address", Ty::Prim("String")));
        item(f, "Shape").rename_all = Some("kebab-case".into());
        item(f, "Color").rename_all = Some("SCREAMING-KEBAB-CASE".into());
    }),
    ("optional-field", |f, _| fields(f, "Person").push(Field::new("nick", Ty::Option(Box::new(Ty::Prim("String")))))),
    ("default-field", |f, _| {
        let mut d = Field::new("score", Ty::Prim("u32"));
        d.default = DefaultKind::Bare;
        fields(f, "Person").push(d);
    }),
    ("double-option-field", |f, _| fields(f, "Person").push(Field::new("maybe", Ty::Option(Box::new(Ty::Option(Box::new(Ty::Prim("bool")))))))),
    ("optional-payload", |f, _| variants(f, "Shape").push(Variant::new("Maybe", VKind::Newtype(Ty::Option(Box::new(Ty::Prim("u32"))))))),
    ("optional-alias", |f, _| item(f, "Names").kind = IKind::Alias(Ty::Option(Box::new(Ty::Vec(Box::new(Ty::Prim("String"))))))),
    ("empty-struct", |f, _| f.items.push(Item::strukt("Nothing", vec![]))),
    ("empty-struct-variant", |f, _| variants(f, "Shape").push(Variant::new("Hollow", VKind::Struct(vec![])))),
    ("single-variant-enums", |f, _| {
        f.items.push(Item::enumm("OnlyUnit", vec![Variant::new("One", VKind::Unit)]));
        f.items.push(Item::enumm("OnlyNewtype", vec![Variant::new("One", VKind::Newtype(Ty::Prim("u32")))]));
        f.items.push(Item::enumm("OnlyStruct", vec![Variant::new("One", VKind::Struct(vec![Field::new("x", Ty::Prim("u32"))]))]));
    }),
    ("all-variants-skipped", |f, _| {
        for v in variants(f, "Color").iter_mut() {
            v.skip = Skip::Serde;
        }
    }),
    ("all-fields-skipped", |f, _| {
        for x in fields(f, "Person").iter_mut() {
            x.skip = Skip::Typeshare;
        }
        for x in rect_fields(f).iter_mut() {
            x.skip = Skip::Serde;
        }
    }),
    ("swift-decorators", |f, _| {
        item(f, "Person").ts_args = vec!["swift = \"Equatable, Hashable\"".into()];
        item(f, "Shape").ts_args = vec!["swift = \"Equatable\"".into()];
        item(f, "Color").ts_args = vec!["swift = \"Sendable, Codable\"".into()];
    }),
    ("swift-generic-constraints", |f, _| {
        item(f, "Person").generics = vec!["T".into()];
        fields(f, "Person").push(Field::new("extra", Ty::Param("T".into())));
        item(f, "Person").ts_args = vec!["swiftGenericConstraints = \"T: Equatable & Hashable\"".into()];
    }),
    ("kotlin-inline", |f, _| item(f, "Ident").ts_args = vec!["kotlin = \"JvmInline\"".into()]),
    ("kotlin-inline-redacted", |f, _| item(f, "Ident").ts_args = vec!["kotlin = \"JvmInline\"".into(), "redacted".into()]),
    ("redacted", |f, _| {
        item(f, "Person").ts_args = vec!["redacted".into()];
        item(f, "Shape").ts_args = vec!["redacted".into()];
        item(f, "Names").ts_args = vec!["redacted".into()];
    }),
    ("field-decorators", |f, _| {
        fields(f, "Person")[0].ts_args = vec!["typescript(readonly)".into(), "kotlin(readonly)".into()];
        fields(f, "Person")[1].ts_args = vec!["typescript(type = \"bigint\")".into(), "kotlin(type = \"Long\")".into(), "swift(type = \"Int64\")".into(), "go(type = \"int64\")".into(), "scala(type = \"Long\")".into(), "python(type = \"int\")".into()];
        rect_fields(f)[0].ts_args = vec!["typescript(readonly, type = \"number | undefined\")".into()];
    }),
    ("docs-single-line", |f, _| {
        item(f, "Person").docs = vec![Doc::Line("A person.".into())];
        fields(f, "Person")[0].docs = vec![Doc::Line("Their name".into())];
        item(f, "Color").docs = vec![Doc::Line("A colour".into())];
        variants(f, "Color")[0].docs = vec![Doc::Line("warm".into())];
        item(f, "Shape").docs = vec![Doc::Line("A shape".into())];
        variants(f, "Shape")[1].docs = vec![Doc::Line("four corners".into())];
        rect_fields(f)[0].docs = vec![Doc::Line("width".into())];
        item(f, "Names").docs = vec![Doc::Line("names".into())];
    }),
    ("docs-multi-line", |f, _| {
        item(f, "Person").docs = vec![Doc::Line("First line\nsecond line".into()), Doc::Line("third".into())];
        fields(f, "Person")[1].docs = vec![Doc::Line("age in\nyears".into())];
        variants(f, "Shape")[0].docs = vec![Doc::Line("round\nthing".into())];
        item(f, "Names").docs = vec![Doc::Block("a block\n doc".into())];
    }),
    // multi-line docs on the remaining levels: the enum types themselves, unit variants, struct-variant fields
    ("docs-multi-line-enum-levels", |f, _| {
        item(f, "Color").docs = vec![Doc::Line("a colour\nof the rainbow".into()), Doc::Line("third line".into())];
        item(f, "Shape").docs = vec![Doc::Line("a shape\nin the plane".into()), Doc::Attr("attr doc\nwith a break".into())];
        variants(f, "Color")[0].docs = vec![Doc::Line("warm\ncolour".into())];
        variants(f, "Shape")[1].docs = vec![Doc::Block("four\n corners".into())];
        rect_fields(f)[0].docs = vec![Doc::Line("the\nwidth".into())];
    }),
    ("tag-content-keywords", |f, _| set_keys(f, "case", "default")),
    ("tag-content-keywords-2", |f, _| set_keys(f, "in", "class")),
    // program rewrites that must not matter (see prog::ambient)
    ("ambient-noise-attributes", |f, _| *f = ambient(f, 1)),
    ("ambient-inside-modules", |f, _| *f = ambient(f, 2)),
    ("ambient-items-reversed", |f, _| *f = ambient(f, 3)),
    ("ambient-noise-items", |f, _| *f = ambient(f, 4)),
    ("ambient-attribute-style-flipped", |f, _| *f = ambient(f, 5)),
    ("tag-content-upper", |f, _| set_keys(f, "Kind", "Payload")),
    ("header", |_, c| c.header = true),
    ("prefix", |_, c| c.prefix = "OP".into()),
    ("package-single-segment", |_, c| c.package = "pkg".into()),
    ("package-empty", |_, c| c.package = String::new()),
    ("package-deep", |_, c| c.package = "a.b.c.d.e".into()),
    ("consts", |f, _| {
        if f.items.iter().any(|i| i.name == "LIMIT") {
            for (n, t, v) in [("SMALL", "u8", "255"), ("NEGATIVE", "i32", "-7"), ("BIG", "U53", "9007199254740991"), ("my_lower_const", "i16", "3"), ("FLOATY", "f64", "2"), ("FLAG", "bool", "1")] {
                f.items.push(Item::new(n, IKind::Const { ty: Ty::Prim(LEAK.iter().find(|x| **x == t).copied().unwrap()), expr: v.into() }));
            }
        }
    }),
    ("recursive-enum", |f, _| {
        variants(f, "Shape").push(Variant::new("Nested", VKind::Newtype(Ty::Ptr("Box", Box::new(Ty::user("Shape"))))));
        variants(f, "Shape").push(Variant::new("Many", VKind::Struct(vec![Field::new("children", Ty::Vec(Box::new(Ty::user("Shape"))))])));
    }),
    ("assorted-types", |f, _| {
        let fs = fields(f, "Person");
        fs.push(Field::new("nothing", Ty::Prim("()")));
        fs.push(Field::new("initial", Ty::Prim("char")));
        fs.push(Field::new("scores", Ty::Map(Box::new(Ty::Prim("String")), Box::new(Ty::Vec(Box::new(Ty::Option(Box::new(Ty::Prim("i32")))))))));
        fs.push(Field::new("fixed", Ty::Array(Box::new(Ty::Prim("u8")), 4)));
        fs.push(Field::new("big", Ty::Prim("U53")));
        fs.push(Field::new("ratio", Ty::Prim("f32")));
        fs.push(Field::new("color", Ty::user("Color")));
    }),
    ("serialized-as", |f, _| {
        fields(f, "Person")[1].serialized_as = Some("String".into());
        item(f, "Marker").ts_args = vec!["serialized_as = \"String\"".into()];
    }),
    ("nested-modules", |f, _| {
        item(f, "Person").mods = vec!["inner".into()];
        item(f, "Shape").mods = vec!["inner".into(), "deeper".into()];
    }),
];

const LEAK: [&str; 6] = ["u8", "i32", "U53", "i16", "f64", "bool"];

struct PyJob {
    id: String,
    text: String,
    detail: serde_json::Value,
    sig_shape: String,
}
static PY_JOBS: Mutex<Vec<PyJob>> = Mutex::new(Vec::new());

/// (language, error class, features of the program, replay detail)
struct Failure {
    lang: &'static str,
    class: String,
    features: Vec<String>,
    detail: serde_json::Value,
}
static FAILURES: Mutex<Vec<Failure>> = Mutex::new(Vec::new());

/// Signatures name the *culprit* features: those that already fail on their own. A failing program
/// that contains culprits is attributed to them; otherwise all its features are listed.
fn flush_failures(rep: &mut Report) {
    let fails = std::mem::take(&mut *FAILURES.lock().unwrap());
    let mut culprits: std::collections::BTreeSet<(String, String)> = Default::default();
    for f in &fails {
        if f.features.len() == 1 {
            culprits.insert((f.lang.to_string(), f.features[0].clone()));
        }
    }
    for f in fails {
        let mut mine: Vec<String> = f.features.iter().filter(|x| culprits.contains(&(f.lang.to_string(), (*x).clone()))).cloned().collect();
        mine.sort();
        let shape = if mine.is_empty() { format!("features={}", f.features.join("+")) } else { format!("culprit={}", mine.join("+")) };
        rep.vios.add(Violation { sig: format!("C10|{}|{}|{shape}", f.lang, f.class), detail: f.detail });
    }
}

pub fn check(devs: &[usize], lang: Lang, choices: &[u32], acc: &mut Acc) {
    let mut file = baseline(lang);
    let mut cfg = Cfg::plain();
    let mut names = Vec::new();
    // the CLI refuses to run Go without a package name, so that combination cannot reach the generator
    if lang == Lang::Go && devs.iter().any(|d| DEVIATIONS[*d].0 == "package-empty") {
        acc.out_of_scope += 1;
        return;
    }
    for d in devs {
        (DEVIATIONS[*d].1)(&mut file, &mut cfg);
        names.push(DEVIATIONS[*d].0);
    }
    let source = render_file(&file);
    if let Err(e) = syn_ok(&source) {
        acc.machinery(format!("renderer produced invalid Rust ({names:?}): {e}\n{source}"));
        return;
    }
    acc.runs += 1;
    acc.judgements += 1;
    acc.inputs.insert(report::fnv64(&format!("{source}|{:?}|{}|{}|{}", cfg.prefix, cfg.package, cfg.header, lang.name())));
    if !devs.is_empty() {
        acc.nontrivial.insert(report::fnv64(&format!("{names:?}|{}", lang.name())));
    }
    // multi-file mode, languages that write import declarations: a second crate, referred to through a `use` and a path
    let with_peer = cfg.multi_file && matches!(lang, Lang::TypeScript | Lang::Kotlin);
    let source = if with_peer { format!("use shapes::Peer;\n{source}\n#[typeshare]\npub struct UsesPeer {{ pub p: Peer, pub q: Vec<shapes::Other> }}\n") } else { source };
    let mut src_files = vec![if cfg.multi_file { SrcFile { crate_name: "app_core".into(), path: "ws/app-core/src/lib.rs".into(), source: source.clone() } } else { SrcFile::single(source.clone()) }];
    if with_peer {
        src_files.push(SrcFile { crate_name: "shapes".into(), path: "ws/shapes/src/lib.rs".into(), source: "#[typeshare]\npub struct Peer { pub n: u32 }\n#[typeshare]\npub struct Other { pub o: u32 }\n".into() });
    }
    let o = pipeline::run(&src_files, lang, &cfg);
    let mut further_files: Vec<String> = Vec::new();
    let text = match &o {
        Outcome::Ok(m) => {
            // the referring crate's file first (it is the one with the import declarations)
            let mut all: Vec<(&String, &String)> = m.iter().collect();
            all.sort_by_key(|(k, _)| !k.to_lowercase().contains("app"));
            further_files = all.iter().skip(1).map(|(_, v)| (*v).clone()).collect();
            all.first().map(|(_, v)| (*v).clone()).unwrap_or_default()
        }
        Outcome::Panic(m) => {
            acc.vios.add(Violation { sig: format!("C10|{}|panic|features={}", lang.name(), names.join("+")), detail: json!({"choices": choices, "features": names, "source": source, "panic": m}) });
            return;
        }
        other => {
            // a refusal (unsupported combination) is not a malformed file
            acc.count(&format!("refused:{}", other.kind()), 1);
            acc.outcomes.insert(report::fnv64(&format!("{}|refused", lang.name())));
            return;
        }
    };
    let detail = json!({"choices": choices, "features": names, "lang": lang.name(), "config": {"prefix": cfg.prefix, "package": cfg.package, "header": cfg.header}, "source": source, "output": text});
    let shape = names.join("+");
    if lang == Lang::Python {
        // judged by the real CPython front end, in one batch at the end
        let id = format!("case_{:016x}", report::fnv64(&format!("{source}|{}", cfg.header)));
        PY_JOBS.lock().unwrap().push(PyJob { id, text: text.clone(), detail: detail.clone(), sig_shape: shape.clone() });
    }
    for other in &further_files {
        if let Err(e) = extract::extract(lang, other) {
            let mut d = detail.clone();
            d["output"] = json!(other);
            d["acceptor"] = json!({"line": e.line(), "message": e.msg()});
            FAILURES.lock().unwrap().push(Failure { lang: lang.name(), class: e.class(), features: names.iter().map(|s| s.to_string()).collect(), detail: d });
        }
    }
    match extract::extract(lang, &text) {
        Ok(of) => {
            acc.outcomes.insert(report::fnv64(&format!("{}|accepted", lang.name())));
            // the import declarations name both types of the other crate
            // (Kotlin without a package: all files are in the default package and nothing is imported)
            if with_peer && !(lang == Lang::Kotlin && cfg.package.is_empty()) && !["Peer", "Other"].iter().all(|n| of.imports.iter().any(|(_, names)| names.iter().any(|x| x.ends_with(n)))) {
                let mut d = detail.clone();
                d["imports_read_back"] = json!(of.imports);
                FAILURES.lock().unwrap().push(Failure { lang: lang.name(), class: "import-declaration-missing".into(), features: names.iter().map(|s| s.to_string()).collect(), detail: d });
            }
        }
        Err(e) => {
            acc.outcomes.insert(report::fnv64(&format!("{}|rejected", lang.name())));
            if lang != Lang::Python {
                let mut d = detail.clone();
                d["acceptor"] = json!({"line": e.line(), "message": e.msg()});
                FAILURES.lock().unwrap().push(Failure { lang: lang.name(), class: e.class(), features: names.iter().map(|s| s.to_string()).collect(), detail: d });
            }
        }
    }
    if acc.samples.len() < 2 && devs.len() == 2 {
        acc.sample(json!({"features": names, "lang": lang.name(), "output_bytes": text.len()}));
    }
}

fn python_batch(rep: &mut Report) {
    let jobs = std::mem::take(&mut *PY_JOBS.lock().unwrap());
    if jobs.is_empty() {
        return;
    }
    let mut uniq: std::collections::BTreeMap<String, &PyJob> = Default::default();
    for j in &jobs {
        uniq.entry(j.id.clone()).or_insert(j);
    }
    let sc = Scratch::new("c10py");
    for (id, j) in &uniq {
        sc.write(&format!("{id}.py"), j.text.as_bytes());
    }
    let out = std::process::Command::new("python3").arg("/verif/py/batch_check.py").arg(&sc.root).output();
    let Ok(out) = out else {
        rep.machinery("cannot run python3 for the CPython batch check");
        return;
    };
    let stdout = String::from_utf8_lossy(&out.stdout);
    let mut seen = 0u64;
    let mut bad = 0u64;
    for line in stdout.lines() {
        let Ok(v) = serde_json::from_str::<serde_json::Value>(line) else { continue };
        seen += 1;
        if v["ok"].as_bool() == Some(true) {
            continue;
        }
        bad += 1;
        let id = v["file"].as_str().unwrap_or("").trim_end_matches(".py").to_string();
        if let Some(j) = uniq.get(&id) {
            let err = v["error"].as_str().unwrap_or("");
            // error class without the offending identifier's spelling
            let class: String = err.split(':').next().unwrap_or("").to_string();
            let mut d = j.detail.clone();
            d["cpython"] = v.clone();
            let hint = if err.contains("is not defined") { format!(":{}", err.split('\'').nth(1).unwrap_or("")) } else { String::new() };
            let _ = hint;
            FAILURES.lock().unwrap().push(Failure { lang: "python", class: format!("cpython-{}:{class}", v["stage"].as_str().unwrap_or("")), features: j.sig_shape.split('+').filter(|s| !s.is_empty()).map(String::from).collect(), detail: d });
        }
    }
    if seen != uniq.len() as u64 {
        rep.machinery(format!("CPython batch judged {seen} of {} modules: {}", uniq.len(), String::from_utf8_lossy(&out.stderr).chars().take(300).collect::<String>()));
    }
    rep.cov("python_cpython_batch", json!({"modules": uniq.len(), "rejected": bad, "checker": "python3 py/batch_check.py (ast.parse + exec under pystub/pydantic)"}));
}

pub fn run(args: &[String]) -> i32 {
    let tier = report::tier_from_env(args);
    let mut rep = Report::new("C10", &tier);
    // controls: the acceptors must reject certainly-invalid text
    for (lang, bad) in [
        (Lang::TypeScript, "export interface A {\n\ta: number;\n"),
        (Lang::Kotlin, "@Serializable\ndata class A (\n\tval a: Int\n\tval b: Int\n)\n"),
        (Lang::Swift, "import Foundation\n\npublic struct A: Codable {\n\tpublic let default: String\n\n\tpublic init(default: String) {\n\t\tself.default = `default`\n\t}\n}\n"),
        (Lang::Scala, "package a\n\npackage b {\n\ncase class A (\n\tx: Int\n)\n\n"),
        (Lang::Go, "package p\n\ntype A struct {\n\tX int `json:\"x\"\n}\n"),
    ] {
        if extract::extract(lang, bad).is_ok() {
            rep.machinery(format!("control: the {} acceptor accepted malformed text", lang.name()));
        }
    }
    let n = DEVIATIONS.len();
    let k = if rep.thorough() { 3 } else { 2 };
    let (accs, stats) = explore(
        |ch| {
            ch.choose("feature_a", n + 1);
        },
        |ch, acc: &mut Acc| {
            // unordered subsets of ≤ k deviations: strictly decreasing indices, 0 = none
            let mut devs = Vec::new();
            let mut bound = n + 1;
            for slot in 0..k {
                let label = ["feature_a", "feature_b", "feature_c"][slot];
                let c = ch.choose(label, bound);
                if c == 0 {
                    break;
                }
                devs.push(c - 1);
                bound = c;
                if bound <= 1 {
                    break;
                }
            }
            let lang = *ch.pick("lang", &ALL_LANGS);
            check(&devs, lang, &ch.choices(), acc);
        },
        Mode::Product,
        2,
        report::threads(),
        u64::MAX,
    );
    merge(&mut rep, "feature_subsets", accs, &stats, json!({"features": n, "max_features_per_program": k, "languages": 6, "feature_names": DEVIATIONS.iter().map(|d| d.0).collect::<Vec<_>>()}));
    python_batch(&mut rep);
    flush_failures(&mut rep);
    require_nonvacuous(&mut rep);
    rep.cov("rule", json!("baseline program (one item of every kind) plus every subset of ≤ 2 (quick) / ≤ 3 (thorough) features from the menu × 6 languages; the output must be accepted by the language's acceptor (lexically closed, balanced, every declaration matching the production typeshare emits, promised keyword escaping in Swift); Python output is parsed by CPython's ast and executed under a stub pydantic. non-trivial = at least one feature deviates from the baseline."));
    rep.assume("the acceptors only reject what is certainly invalid; they are not full grammars of TypeScript/Kotlin/Swift/Scala/Go (no compilers for those are installed)");
    rep.assume("keyword collisions are judged only where the backend promises escaping (Swift declarations, Python attribute names)");
    rep.finish()
}
