//! C05 — type expressions translate structurally, losslessly and honour type mappings.
use super::common::{merge, require_nonvacuous, Acc};
use crate::explore::{explore, Chooser, Mode};
use crate::extract::{Def, OutFile, Payload, TT};
use crate::pipeline::{Cfg, Lang, ALL_LANGS};
use crate::prog::*;
use crate::refmodel::{self, RunFail};
use crate::report::{self, Report, Violation};
use crate::typemodel::{self, Ctx};
use serde_json::json;

const LEAVES: [&str; 17] = ["bool", "char", "String", "&str", "i8", "i16", "i32", "u8", "u16", "u32", "I54", "U53", "f32", "f64", "()", "User", "T"];
/// "" = as the family always wrote it (bare pointer name; std::vec / std::option for the two containers)
const PTR_PATHS: [&str; 6] = ["", "std::sync", "sync", "::alloc::rc", "parking_lot", "crate::shims"];
const PTRS: [&str; 11] = ["Box", "Weak", "Arc", "Rc", "Cow", "ArcWeak", "RcWeak", "Cell", "Mutex", "RefCell", "RwLock"];

#[derive(Clone, Copy, Debug, PartialEq, Eq)]
pub enum Pos {
    Field,
    NewtypeStruct,
    Alias,
    VariantPayload,
    Const,
}
impl Pos {
    fn name(self) -> &'static str {
        match self {
            Pos::Field => "field",
            Pos::NewtypeStruct => "newtype-struct",
            Pos::Alias => "alias",
            Pos::VariantPayload => "variant-payload",
            Pos::Const => "const",
        }
    }
}
const POSITIONS: [Pos; 4] = [Pos::Field, Pos::NewtypeStruct, Pos::Alias, Pos::VariantPayload];

fn leaf(name: &str) -> Ty {
    match name {
        "User" => Ty::user("User"),
        "T" => Ty::Param("T".into()),
        p => Ty::Prim(LEAVES.iter().find(|l| **l == p).copied().unwrap_or("u32")),
    }
}

/// unary chain: at each level pick a constructor or stop with a leaf
fn gen_chain(ch: &mut Chooser, depth: usize) -> Ty {
    if depth == 0 {
        return leaf(LEAVES[ch.choose("leaf", LEAVES.len())]);
    }
    match ch.choose("ctor", 7) {
        0 => leaf(LEAVES[ch.choose("leaf", LEAVES.len())]),
        1 => Ty::Vec(Box::new(gen_chain(ch, depth - 1))),
        2 => Ty::Array(Box::new(gen_chain(ch, depth - 1)), 3),
        3 => Ty::Slice(Box::new(gen_chain(ch, depth - 1))),
        4 => Ty::Option(Box::new(gen_chain(ch, depth - 1))),
        5 => Ty::Ptr("Box", Box::new(gen_chain(ch, depth - 1))),
        _ => Ty::Ref(Box::new(gen_chain(ch, depth - 1))),
    }
}

#[derive(Clone, Debug)]
pub struct Case {
    pub ty: Ty,
    pub pos: Pos,
    pub lang: Lang,
    pub prefixed: bool,
    /// 0 none, 1 User->Mapped, 2 G->MappedG, 3 Vec<u8>->Bytes
    pub mapping: usize,
    pub family: &'static str,
}

fn uses_param(ty: &Ty) -> bool {
    ty.render().split(|c: char| !c.is_alphanumeric()).any(|w| w == "T")
}

pub fn program(c: &Case) -> File {
    let generic = uses_param(&c.ty);
    let mut items = vec![
        Item::strukt("User", vec![Field::new("u", Ty::Prim("u32"))]),
        {
            let mut g = Item::strukt("G", vec![Field::new("a", Ty::Param("A".into())), Field::new("b", Ty::Param("B".into()))]);
            g.generics = vec!["A".into(), "B".into()];
            g
        },
        {
            let mut g = Item::strukt("G1", vec![Field::new("a", Ty::Param("A".into()))]);
            g.generics = vec!["A".into()];
            g
        },
    ];
    let mut it = match c.pos {
        Pos::Field => Item::strukt("Outer", vec![Field::new("f", c.ty.clone())]),
        Pos::NewtypeStruct => Item::new("Outer", IKind::Newtype(c.ty.clone())),
        Pos::Alias => Item::new("Outer", IKind::Alias(c.ty.clone())),
        Pos::VariantPayload => Item::enumm("Outer", vec![Variant::new("V", VKind::Newtype(c.ty.clone())), Variant::new("W", VKind::Unit)]),
        Pos::Const => Item::new("OUTER", IKind::Const { ty: c.ty.clone(), expr: "7".into() }),
    };
    if generic {
        it.generics = vec!["T".into()];
    }
    items.push(it);
    File::single(items)
}

pub fn cfg_of(c: &Case) -> Cfg {
    let mut cfg = if c.prefixed { Cfg::prefixed() } else { Cfg::plain() };
    match c.mapping {
        1 => cfg.type_mappings.push(("User".into(), "Mapped".into())),
        2 => cfg.type_mappings.push(("G".into(), "MappedG".into())),
        // mappings keyed by instances of special types (only TypeScript, Go and Python look those up)
        3 => {
            cfg.type_mappings.push(("Vec<u8>".into(), "Bytes".into()));
            cfg.type_mappings.push(("[u8]".into(), "FixedBytes".into()));
            cfg.type_mappings.push(("&[u8]".into(), "SliceBytes".into()));
            cfg.type_mappings.push(("[String]".into(), "Names".into()));
            cfg.type_mappings.push(("Option<i16>".into(), "MaybeShort".into()));
            cfg.type_mappings.push(("i8".into(), "Tiny".into()));
        }
        // a mapping whose value equals its key: the way to exempt a hand-written type from the prefix
        5 => cfg.type_mappings.push(("User".into(), "User".into())),
        // … by instances of containers that hold a generic user type with two arguments (typeshare prints ", " between them)
        6 => {
            cfg.type_mappings.push(("Vec<G<u32, String>>".into(), "PairList".into()));
            cfg.type_mappings.push(("Vec<G<String, u32>>".into(), "OtherPairList".into()));
            cfg.type_mappings.push(("Vec<G<String, User>>".into(), "UserPairList".into()));
        }
        // … and by instances of maps, spelled the way typeshare prints them (no space after the comma)
        4 => {
            cfg.type_mappings.push(("HashMap<String,u32>".into(), "Counts".into()));
            cfg.type_mappings.push(("HashMap<String,String>".into(), "StringMap".into()));
            cfg.type_mappings.push(("HashMap<u32,Vec<u8>>".into(), "Blobs".into()));
            cfg.type_mappings.push(("HashMap<String,User>".into(), "UsersByName".into()));
        }
        _ => {}
    }
    cfg
}

pub fn observed_type<'a>(c: &Case, out: &'a OutFile, cfg: &Cfg) -> Option<&'a TT> {
    let name = refmodel::prefixed(c.lang, cfg, "Outer");
    match c.pos {
        Pos::Field => out.structs().find(|s| s.name == name).and_then(|s| s.fields.first()).map(|f| &f.ty),
        Pos::NewtypeStruct | Pos::Alias => out.defs.iter().find_map(|d| match d {
            Def::Alias(a) if a.name == name => Some(&a.ty),
            // Go prints an alias to unit as an empty struct
            _ => None,
        }),
        Pos::VariantPayload => out.enums().find(|e| e.name == name).and_then(|e| {
            e.variants.iter().find_map(|v| match &v.payload {
                Payload::Type(t, _) => Some(t),
                Payload::Inner(t) => Some(t),
                _ => None,
            })
        }),
        Pos::Const => out.defs.iter().find_map(|d| match d {
            Def::Const(k) => Some(&k.ty),
            _ => None,
        }),
    }
}

fn opt_of_unit(t: &Ty) -> bool {
    match t {
        Ty::Option(inner) => **inner == Ty::Prim("()") || opt_of_unit(inner),
        _ => false,
    }
}

fn leaf_class(ty: &Ty) -> String {
    match ty.erase() {
        Ty::Prim(p) => p.to_string(),
        Ty::User(_) => "User".into(),
        Ty::Param(_) => "T".into(),
        Ty::Vec(t) | Ty::Array(t, _) | Ty::Slice(t) | Ty::Option(t) => leaf_class(&t),
        Ty::Map(_, v) => leaf_class(&v),
        Ty::Generic(..) => "G".into(),
        _ => "?".into(),
    }
}

pub fn check_case(c: &Case, choices: &[u32], acc: &mut Acc) {
    let file = program(c);
    let cfg = cfg_of(c);
    let generics: Vec<String> = if uses_param(&c.ty) { vec!["T".into()] } else { vec![] };
    let ctx = Ctx { lang: c.lang, cfg: &cfg, generics: &generics, renames: &[] };
    let exp = typemodel::expected(&ctx, &c.ty);
    acc.runs += 1;
    let res = refmodel::run_single(&file, c.lang, &cfg);
    let base = |source: &str, output: &str| json!({"choices": choices, "family": c.family, "lang": c.lang.name(), "prefixed": c.prefixed, "mapping": c.mapping, "position": c.pos.name(), "rust_type": c.ty.render(), "expected": format!("{exp:?}"), "source": source, "output": output});
    let ok = match res {
        Ok(ok) => ok,
        Err((fail, source)) => {
            match &fail {
                RunFail::Render(e) => {
                    acc.machinery(format!("renderer produced invalid Rust: {e}\n{source}"));
                    return;
                }
                // a clean refusal (generic map key in TS/Python) is not a mistranslation
                RunFail::Pipeline(crate::pipeline::Outcome::GenError(m)) if m.contains("cannot be used as a map key") => {
                    acc.out_of_scope += 1;
                    return;
                }
                _ => {}
            }
            let mut d = base(&source, "");
            d["failure"] = json!(fail.describe());
            acc.vios.add(Violation { sig: format!("C05|{}|{}|no-output:{}|leaf={}", c.lang.name(), c.pos.name(), fail.class(), leaf_class(&c.ty)), detail: d });
            return;
        }
    };
    acc.inputs.insert(report::fnv64(&format!("{}|{}", ok.source, c.mapping)));
    acc.judgements += 1;
    if c.ty.depth() > 1 || c.mapping != 0 {
        acc.nontrivial.insert(report::fnv64(&format!("{}|{}|{}|{}", c.ty.render(), c.pos.name(), c.mapping, c.lang.name())));
    }
    let ts_unit_payload = TT::name("undefined");
    let obs = observed_type(c, &ok.out, &cfg);
    // TypeScript prints `content?: undefined` both for a unit variant and for a payload of type Option<()>
    let obs = if obs.is_none() && c.lang == Lang::TypeScript && c.pos == Pos::VariantPayload && opt_of_unit(&c.ty.erase()) {
        Some(&ts_unit_payload)
    } else {
        obs
    };
    let Some(obs) = obs else {
        // Go prints `type Outer struct{}` for an alias of unit: structurally an empty struct
        if c.lang == Lang::Go && matches!(c.pos, Pos::Alias | Pos::NewtypeStruct) && c.ty.erase() == Ty::Prim("()") && ok.out.structs().any(|s| s.name == "Outer" && s.fields.is_empty()) {
            return;
        }
        acc.vios.add(Violation { sig: format!("C05|{}|{}|type-not-found", c.lang.name(), c.pos.name()), detail: base(&ok.source, &ok.text) });
        return;
    };
    let r = typemodel::matches(c.lang, &exp, obs, &ok.out, c.lang != Lang::TypeScript);
    acc.outcomes.insert(report::fnv64(&format!("{}|{:?}", c.lang.name(), r.as_ref().err())));
    if let Err(e) = r {
        let mut d = base(&ok.source, &ok.text);
        d["observed"] = json!(obs.show());
        d["mismatch"] = json!(e);
        acc.vios.add(Violation { sig: format!("C05|{}|{}|{e}", c.lang.name(), c.pos.name()), detail: d });
    }
    if acc.samples.len() < 2 && c.ty.depth() >= 3 && c.prefixed {
        acc.sample(json!({"lang": c.lang.name(), "rust_type": c.ty.render(), "position": c.pos.name(), "observed": obs.show(), "expected": format!("{exp:?}")}));
    }
}

fn gen_tail(ch: &mut Chooser, ty: Ty, family: &'static str, mappings: &[usize]) -> Case {
    let pos = *ch.pick("position", &POSITIONS);
    let lang = *ch.pick("lang", &ALL_LANGS);
    let prefixed = ch.flag("cfg");
    let mapping = *ch.pick("mapping", mappings);
    Case { ty, pos, lang, prefixed, mapping, family }
}


// ---------- family: two type expressions of the same shape in one program ----------

fn build_chain(ctors: &[usize], leaf_name: &str) -> Ty {
    let mut t = leaf(leaf_name);
    for c in ctors.iter().rev() {
        t = match c {
            1 => Ty::Vec(Box::new(t)),
            2 => Ty::Array(Box::new(t), 3),
            3 => Ty::Slice(Box::new(t)),
            4 => Ty::Option(Box::new(t)),
            5 => Ty::Ptr("Box", Box::new(t)),
            6 => Ty::Map(Box::new(Ty::Prim("String")), Box::new(t)),
            _ => Ty::Generic("G1".into(), vec![t]),
        };
    }
    t
}

/// `struct Outer { a: C[l1], b: C[l2], c: C[l1] }` for one constructor chain C and two different leaves: a backend
/// that caches or keys translations by an abbreviated spelling gives `b` (or the second `a`) the wrong type.
fn check_same_shape(ctors: &[usize], l1: &'static str, l2: &'static str, lang: Lang, choices: &[u32], acc: &mut Acc) {
    let (t1, t2) = (build_chain(ctors, l1), build_chain(ctors, l2));
    let generic = l1 == "T" || l2 == "T";
    let mut outer = Item::strukt("Outer", vec![Field::new("a", t1.clone()), Field::new("b", t2.clone()), Field::new("c", t1.clone())]);
    if generic {
        outer.generics = vec!["T".into()];
    }
    let mut g1 = Item::strukt("G1", vec![Field::new("g", Ty::Param("A".into()))]);
    g1.generics = vec!["A".into()];
    let file = File::single(vec![Item::strukt("User", vec![Field::new("u", Ty::Prim("u32"))]), g1, outer]);
    let cfg = Cfg::plain();
    let generics: Vec<String> = if generic { vec!["T".into()] } else { vec![] };
    let ctx = Ctx { lang, cfg: &cfg, generics: &generics, renames: &[] };
    acc.runs += 1;
    let ok = match refmodel::run_single(&file, lang, &cfg) {
        Ok(ok) => ok,
        Err((fail, source)) => {
            match &fail {
                RunFail::Render(e) => acc.machinery(format!("renderer produced invalid Rust: {e}\n{source}")),
                RunFail::Pipeline(crate::pipeline::Outcome::GenError(_)) => acc.out_of_scope += 1,
                _ => acc.vios.add(Violation { sig: format!("C05|{}|same-shape|no-output:{}", lang.name(), fail.class()), detail: json!({"choices": choices, "lang": lang.name(), "source": source, "failure": fail.describe()}) }),
            }
            return;
        }
    };
    acc.inputs.insert(report::fnv64(&ok.source));
    acc.nontrivial.insert(report::fnv64(&format!("{}|{}", ok.source, lang.name())));
    let Some(st) = ok.out.structs().find(|s| s.name == "Outer") else {
        acc.vios.add(Violation { sig: format!("C05|{}|same-shape|type-not-found", lang.name()), detail: json!({"choices": choices, "source": ok.source, "output": ok.text}) });
        return;
    };
    for (wire, ty) in [("a", &t1), ("b", &t2), ("c", &t1)] {
        acc.judgements += 1;
        let exp = typemodel::expected(&ctx, ty);
        let Some(f) = st.fields.iter().find(|f| f.wire == wire) else { continue };
        if let Err(e) = typemodel::matches(lang, &exp, &f.ty, &ok.out, lang != Lang::TypeScript) {
            acc.vios.add(Violation {
                sig: format!("C05|{}|same-shape|field={wire}|{}", lang.name(), e.split(':').next().unwrap_or("")),
                detail: json!({"choices": choices, "lang": lang.name(), "field": wire, "rust_type": ty.render(), "sibling_types": [t1.render(), t2.render()], "expected": format!("{exp:?}"), "observed": f.ty.show(), "mismatch": e, "source": ok.source, "output": ok.text}),
            });
        }
    }
    acc.outcomes.insert(report::fnv64(&format!("{}|{}", lang.name(), st.fields.len())));
}


// ---------- family: generic parameters are declared in the Rust order ----------

const GP_ANNOTATIONS: [&str; 5] = ["", "swiftGenericConstraints = \"B: Equatable\"", "swiftGenericConstraints = \"B: Equatable, A: Hashable\"", "swiftGenericConstraints = \"A: Hashable\"", "swift = \"Equatable\", swiftGenericConstraints = \"B: Hashable & Comparable\""];
const GP_KINDS: [&str; 3] = ["struct", "tagged-enum", "enum-with-struct-variant"];

fn check_generic_order(kind: &'static str, ann: usize, lang: Lang, prefixed: bool, choices: &[u32], acc: &mut Acc) {
    let (a, b) = (Ty::Param("A".into()), Ty::Param("B".into()));
    let mut subject = match kind {
        "struct" => Item::strukt("Pair", vec![Field::new("second", Ty::Vec(Box::new(b.clone()))), Field::new("first", a.clone())]),
        "tagged-enum" => Item::enumm("Pair", vec![Variant::new("Right", VKind::Newtype(b.clone())), Variant::new("Left", VKind::Newtype(a.clone())), Variant::new("Neither", VKind::Unit)]),
        _ => Item::enumm("Pair", vec![Variant::new("Both", VKind::Struct(vec![Field::new("second", b.clone()), Field::new("first", Ty::Option(Box::new(a.clone())))])), Variant::new("Neither", VKind::Unit)]),
    };
    subject.generics = vec!["A".into(), "B".into()];
    if !GP_ANNOTATIONS[ann].is_empty() {
        subject.ts_args.push(GP_ANNOTATIONS[ann].to_string());
    }
    let user = Item::strukt("Uses", vec![Field::new("p", Ty::Generic("Pair".into(), vec![Ty::Prim("String"), Ty::Prim("u32")]))]);
    let file = File::single(vec![subject, user]);
    let cfg = if prefixed { Cfg::prefixed() } else { Cfg::plain() };
    acc.runs += 1;
    let ok = match refmodel::run_single(&file, lang, &cfg) {
        Ok(ok) => ok,
        Err((fail, source)) => {
            match &fail {
                RunFail::Render(e) => acc.machinery(format!("renderer produced invalid Rust: {e}\n{source}")),
                RunFail::Extract { .. } => acc.out_of_scope += 1,
                _ => acc.vios.add(Violation { sig: format!("C05|{}|generic-order|no-output:{}|kind={kind}", lang.name(), fail.class()), detail: json!({"choices": choices, "source": source, "failure": fail.describe()}) }),
            }
            return;
        }
    };
    acc.inputs.insert(report::fnv64(&ok.source));
    acc.nontrivial.insert(report::fnv64(&format!("{}|{}|{prefixed}", ok.source, lang.name())));
    let name = refmodel::prefixed(lang, &cfg, "Pair");
    let declared: Option<Vec<String>> = ok.out.defs.iter().find(|d| d.name() == name).map(|d| match d {
        Def::Struct(s) => s.generics.clone(),
        Def::Enum(e) => e.generics.clone(),
        Def::Alias(a) => a.generics.clone(),
        Def::Const(_) => vec![],
    });
    acc.judgements += 1;
    let detail = |what: String| json!({"choices": choices, "lang": lang.name(), "kind": kind, "annotation": GP_ANNOTATIONS[ann], "source": ok.source, "output": ok.text, "observation": what});
    match declared {
        Some(g) if g == ["A", "B"] => {}
        // Go and Python print generic enums without a parameter list on the enum itself
        Some(g) if g.is_empty() && matches!(lang, Lang::Go | Lang::Python | Lang::TypeScript) && kind != "struct" => {}
        Some(g) => acc.vios.add(Violation { sig: format!("C05|{}|generic-order|declared={}|kind={kind}|annotated={}", lang.name(), g.join(","), (ann != 0) as u8), detail: detail(format!("declared parameter list {g:?}, Rust declares [A, B]")) }),
        None => acc.vios.add(Violation { sig: format!("C05|{}|generic-order|definition-not-found|kind={kind}", lang.name()), detail: detail("Pair not found".into()) }),
    }
    // the use site passes (String, u32) in this order
    if let Some(u) = ok.out.structs().find(|s| s.name == refmodel::prefixed(lang, &cfg, "Uses")) {
        if let Some(TT::Name(_, args)) = u.fields.first().map(|f| &f.ty) {
            acc.judgements += 1;
            if args.len() == 2 {
                let first_is_string = typemodel::matches(lang, &typemodel::Exp::Prim("String"), &args[0], &ok.out, true).is_ok();
                if !first_is_string {
                    acc.vios.add(Violation { sig: format!("C05|{}|generic-order|arguments-permuted|kind={kind}", lang.name()), detail: detail(format!("use site passes {:?}", args.iter().map(|a| a.show()).collect::<Vec<_>>())) });
                }
            }
        }
    }
    acc.outcomes.insert(report::fnv64(&format!("{}|{kind}", lang.name())));
}

fn controls(rep: &mut Report) {
    use typemodel::Exp;
    let of = OutFile::default();
    let e = Exp::Seq(Box::new(Exp::Prim("u8")));
    if typemodel::matches(Lang::Kotlin, &e, &TT::Seq(Box::new(TT::name("UByte"))), &of, true).is_err()
        || typemodel::matches(Lang::Kotlin, &e, &TT::Seq(Box::new(TT::name("Byte"))), &of, true).is_ok()
        || typemodel::matches(Lang::Kotlin, &e, &TT::name("UByte"), &of, true).is_ok()
        || typemodel::matches(Lang::Go, &Exp::Prim("char"), &TT::name("string"), &of, true).is_err()
        || typemodel::matches(Lang::Swift, &Exp::Opt(Box::new(Exp::Prim("bool"))), &TT::name("Bool"), &of, true).is_ok()
        || typemodel::matches(Lang::TypeScript, &Exp::Opt(Box::new(Exp::Prim("bool"))), &TT::name("boolean"), &of, false).is_err()
        || typemodel::matches(Lang::Swift, &Exp::Named("PUser".into(), vec![]), &TT::name("User"), &of, true).is_ok()
    {
        rep.machinery("control: type matcher gives wrong verdicts on canned cases");
    }
}

pub fn run(args: &[String]) -> i32 {
    let tier = report::tier_from_env(args);
    let mut rep = Report::new("C05", &tier);
    controls(&mut rep);
    let thorough = rep.thorough();
    let depth = if thorough { 4 } else { 2 };
    // 1. unary chains
    {
        let (accs, stats) = explore(
            |ch| {
                gen_chain(ch, depth);
            },
            |ch, acc: &mut Acc| {
                let ty = gen_chain(ch, depth);
                let c = gen_tail(ch, ty, "chain", &[0, 1, 3]);
                if c.mapping == 3 && !matches!(c.lang, Lang::TypeScript | Lang::Go | Lang::Python) {
                    acc.out_of_scope += 1; // container mappings are only supported by TS/Go/Python
                    return;
                }
                check_case(&c, &ch.choices(), acc);
            },
            Mode::Product,
            3,
            report::threads(),
            u64::MAX,
        );
        merge(&mut rep, "unary_chains", accs, &stats, json!({"max_constructors": depth, "depth_incl_leaf": depth + 1, "leaves": 17, "constructors": ["Vec", "[_;3]", "&[_]", "Option", "Box", "&"], "positions": 4, "languages": 6, "configs": 2, "mappings": ["none", "User->Mapped", "special-type instances: Vec<u8>, [u8], &[u8], [String], Option<i16>, i8 (TS/Go/Python)"]}));
    }
    // 2. every smart pointer name and path qualification, at depth ≤ 2
    {
        let (accs, stats) = explore(
            |ch| {
                ch.choose("ptr", PTRS.len() + 3);
            },
            |ch, acc: &mut Acc| {
                let k = ch.choose("ptr", PTRS.len() + 3);
                let inner_kind = ch.choose("inner", 3);
                let lf = leaf(LEAVES[ch.choose("leaf", LEAVES.len())]);
                let inner = match inner_kind {
                    0 => lf,
                    1 => Ty::Vec(Box::new(lf)),
                    _ => Ty::Option(Box::new(lf)),
                };
                // how the name is qualified: typeshare never resolves paths, the last segment decides
                let q = if k <= PTRS.len() + 1 { ch.choose("qualification", PTR_PATHS.len()) } else { 0 };
                let qual = |t: Ty| if PTR_PATHS[q].is_empty() { t } else { Ty::Path(PTR_PATHS[q], Box::new(t)) };
                let ty = if k < PTRS.len() {
                    qual(Ty::Ptr(PTRS[k], Box::new(inner)))
                } else if k == PTRS.len() {
                    if q == 0 { Ty::Path("std::vec", Box::new(Ty::Vec(Box::new(inner)))) } else { qual(Ty::Vec(Box::new(inner))) }
                } else if k == PTRS.len() + 1 {
                    if q == 0 { Ty::Path("std::option", Box::new(Ty::Option(Box::new(inner)))) } else { qual(Ty::Option(Box::new(inner))) }
                } else {
                    Ty::Vec(Box::new(Ty::Path("crate::m", Box::new(Ty::user("User")))))
                };
                let outer = if ch.flag("wrap_in_vec") { Ty::Vec(Box::new(ty)) } else { ty };
                let c = gen_tail(ch, outer, "pointers-and-paths", &[0]);
                check_case(&c, &ch.choices(), acc);
            },
            Mode::Product,
            2,
            report::threads(),
            u64::MAX,
        );
        merge(&mut rep, "pointers_and_paths", accs, &stats, json!({"smart_pointers": PTRS, "path_forms": ["std::vec::Vec<_>", "std::option::Option<_>", "crate::m::User"], "qualifications_of_pointer_and_container_names": PTR_PATHS, "inner": ["leaf", "Vec<leaf>", "Option<leaf>"], "wrapped_in_vec": [false, true]}));
    }
    // 3. maps and user generics
    {
        let vdepth = if thorough { 2 } else { 1 };
        let (accs, stats) = explore(
            |ch| {
                ch.choose("shape", 6);
            },
            |ch, acc: &mut Acc| {
                let shape = ch.choose("shape", 6);
                let key = match ch.choose("key", 3) {
                    0 => Ty::Prim("String"),
                    1 => Ty::Prim("u32"),
                    _ => Ty::user("User"),
                };
                let a = gen_chain(ch, vdepth);
                let ty = match shape {
                    0 => Ty::Map(Box::new(key), Box::new(a)),
                    1 => Ty::Vec(Box::new(Ty::Map(Box::new(key), Box::new(a)))),
                    2 => Ty::Generic("G1".into(), vec![a]),
                    3 => Ty::Generic("G".into(), vec![a, key]),
                    5 => Ty::Vec(Box::new(Ty::Generic("G".into(), vec![a, key]))),
                    _ => Ty::Option(Box::new(Ty::Generic("G".into(), vec![key, a]))),
                };
                let c = gen_tail(ch, ty, "maps-and-generics", &[0, 1, 2, 4, 5, 6]);
                if matches!(c.mapping, 4 | 6) && !matches!(c.lang, Lang::TypeScript | Lang::Go | Lang::Python) {
                    acc.out_of_scope += 1; // container mappings are only supported by TS/Go/Python
                    return;
                }
                check_case(&c, &ch.choices(), acc);
            },
            Mode::Product,
            3,
            report::threads(),
            u64::MAX,
        );
        merge(&mut rep, "maps_and_generics", accs, &stats, json!({"shapes": ["HashMap<K,V>", "Vec<HashMap<K,V>>", "G1<A>", "G<A,K>", "Option<G<K,A>>", "Vec<G<A,K>>"], "keys": ["String", "u32", "User"], "argument_chain_constructors": vdepth, "mappings": ["none", "User->Mapped", "G->MappedG", "map instances: HashMap<String,u32>, HashMap<String,String>, HashMap<u32,Vec<u8>>, HashMap<String,User> (TS/Go/Python)", "User->User (identity: exempts the type from the prefix)", "instances holding a two-argument generic: Vec<G<u32, String>>, Vec<G<String, u32>>, Vec<G<String, User>> (TS/Go/Python)"]}));
    }
    // 3b. a mapped generic base swallows its arguments: whatever stands between the angle brackets, the output is the
    //     one of the same program with `u32` there (differential; no expected text written by hand)
    {
        const ARGS: [&str; 9] = ["u32", "()", "OffsetDateTime", "Vec<u8>", "User", "Option<String>", "HashMap<String, ()>", "I54", "Vec<Option<OffsetDateTime>>"];
        const SITES: [&str; 4] = ["field", "alias-target", "variant-payload", "inside-vec-field"];
        fn source(arg: &str, site: &str) -> String {
            let g = format!("Stamped<{arg}>");
            let user = "#[typeshare]\npub struct User { pub u: u32 }\n";
            let body = match site {
                "field" => format!("#[typeshare]\npub struct Outer {{ pub a: {g}, pub n: u32 }}\n"),
                "alias-target" => format!("#[typeshare]\npub type Outer = {g};\n"),
                "variant-payload" => format!("#[typeshare]\n#[serde(tag = \"t\", content = \"c\")]\npub enum Outer {{ A({g}), B {{ x: {g} }}, C }}\n"),
                _ => format!("#[typeshare]\npub struct Outer {{ pub a: Vec<{g}>, pub m: HashMap<String, {g}> }}\n"),
            };
            format!("{user}{body}")
        }
        let (accs, stats) = explore(
            |ch| {
                ch.choose("argument", ARGS.len() - 1);
            },
            |ch, acc: &mut Acc| {
                let arg = ARGS[1 + ch.choose("argument", ARGS.len() - 1)];
                let site = *ch.pick("site", &SITES);
                let lang = *ch.pick("lang", &ALL_LANGS);
                let mut cfg = if ch.flag("cfg") { Cfg::prefixed() } else { Cfg::plain() };
                cfg.type_mappings.push(("Stamped".into(), "MappedStamped".into()));
                if ch.flag("bytes_mapping_in_force") {
                    match lang {
                        Lang::TypeScript => cfg.type_mappings.push(("Vec<u8>".into(), "Uint8Array".into())),
                        Lang::Python => cfg.type_mappings.push(("Vec<u8>".into(), "bytes".into())),
                        Lang::Go => cfg.type_mappings.push(("Vec<u8>".into(), "[]byte".into())),
                        _ => {
                            acc.out_of_scope += 1;
                            return;
                        }
                    }
                }
                acc.runs += 1;
                acc.judgements += 1;
                let run = |a: &str| crate::pipeline::run(&[crate::pipeline::SrcFile::single(source(a, site))], lang, &cfg);
                let (base, got) = (run("u32"), run(arg));
                let show = |o: &crate::pipeline::Outcome| match o {
                    crate::pipeline::Outcome::Ok(m) => m.values().next().cloned().unwrap_or_default(),
                    other => format!("<{}: {}>", other.kind(), format!("{other:?}").chars().take(200).collect::<String>()),
                };
                let (bt, gt) = (show(&base), show(&got));
                // the argument may still count as a dependency for the order of the definitions (C11's business): the
                // outputs are compared as multisets of their non-empty lines
                let blocks = |t: &str| {
                    let mut b: Vec<String> = t.lines().map(|x| x.trim_end().to_string()).filter(|x| !x.is_empty()).collect();
                    b.sort();
                    b
                };
                let same = blocks(&bt) == blocks(&gt);
                acc.inputs.insert(report::fnv64(&format!("{}|{site}", source(arg, site))));
                acc.nontrivial.insert(report::fnv64(&format!("{arg}|{site}|{}", lang.name())));
                acc.outcomes.insert(report::fnv64(&format!("{}|{}", lang.name(), same)));
                if !matches!(base, crate::pipeline::Outcome::Ok(_)) {
                    acc.vios.add(Violation { sig: format!("C05|{}|mapped-generic-base|baseline-not-generated:{}|site={site}", lang.name(), base.kind()), detail: json!({"lang": lang.name(), "source": source("u32", site), "type_mappings": cfg.type_mappings, "outcome": bt}) });
                } else if !same {
                    let first = bt.lines().zip(gt.lines()).find(|(a, b)| a != b).map(|(a, b)| format!("{a}  ≠  {b}")).unwrap_or_else(|| "one output is a prefix of the other".into());
                    acc.vios.add(Violation {
                        sig: format!("C05|{}|mapped-generic-base|argument-shows-in-output|arg={arg}|site={site}|outcome={}", lang.name(), got.kind()),
                        detail: json!({"choices": ch.choices(), "lang": lang.name(), "argument": arg, "site": site, "type_mappings": cfg.type_mappings, "source": source(arg, site), "output": gt, "output_with_u32_argument": bt, "first_difference": first,
                            "observation": "`Stamped` is mapped, so the configured name replaces the whole type expression `Stamped<..>`; its argument must not influence the output"}),
                    });
                }
            },
            Mode::Product,
            2,
            report::threads(),
            u64::MAX,
        );
        merge(&mut rep, "mapped_generic_base_swallows_arguments", accs, &stats, json!({"arguments": &ARGS[1..], "reference_argument": "u32", "sites": SITES, "bytes_mapping_in_force": [false, true], "languages": 6, "configs": 2, "oracle": "the same multiset of lines (the order of the definitions may differ: C11)"}));
    }
    // 4. const type (leaf types; backends with const support)
    {
        let (accs, stats) = explore(
            |ch| {
                ch.choose("leaf", 14);
            },
            |ch, acc: &mut Acc| {
                let lf = leaf(LEAVES[ch.choose("leaf", 14)]);
                let lang = *ch.pick("lang", &[Lang::TypeScript, Lang::Go, Lang::Python]);
                let c = Case { ty: lf, pos: Pos::Const, lang, prefixed: ch.flag("cfg"), mapping: 0, family: "const" };
                check_case(&c, &ch.choices(), acc);
            },
            Mode::Product,
            1,
            report::threads(),
            u64::MAX,
        );
        merge(&mut rep, "const_types", accs, &stats, json!({"leaves": 14, "languages": ["typescript", "go", "python"]}));
    }
    // 3b. generic parameters are declared, and arguments passed, in the Rust order - with and without per-parameter annotations
    {
        let (accs, stats) = explore(
            |ch| {
                ch.choose("kind", GP_KINDS.len());
            },
            |ch, acc: &mut Acc| {
                let kind = *ch.pick("kind", &GP_KINDS);
                let ann = ch.choose("annotation", GP_ANNOTATIONS.len());
                let lang = *ch.pick("lang", &ALL_LANGS);
                let prefixed = ch.flag("cfg");
                check_generic_order(kind, ann, lang, prefixed, &ch.choices(), acc);
            },
            Mode::Product,
            1,
            report::threads(),
            u64::MAX,
        );
        merge(&mut rep, "generic_parameter_order", accs, &stats, json!({"kinds": GP_KINDS, "annotations": GP_ANNOTATIONS, "languages": 6, "configs": 2, "fields_mention_parameters": "in the reverse of the declared order"}));
    }
    // 4. two expressions of the same shape in one program (state carried from one translation to the next)
    {
        // quick: the four constructors that carry state in some backend and six leaves; thorough: everything
        let maxlen = 3;
        let ctor_menu: &[usize] = if thorough { &[1, 2, 3, 4, 5, 6, 7] } else { &[1, 4, 6, 7] };
        let leaf_menu: Vec<&'static str> = if thorough { LEAVES.to_vec() } else { vec!["String", "u32", "bool", "i8", "User", "T"] };
        let (accs, stats) = explore(
            |ch| {
                ch.choose("chain_length", maxlen + 1);
            },
            |ch, acc: &mut Acc| {
                let len = ch.choose("chain_length", maxlen + 1);
                let ctors: Vec<usize> = (0..len).map(|_| ctor_menu[ch.choose("ctor", ctor_menu.len())]).collect();
                let l1 = leaf_menu[ch.choose("leaf_1", leaf_menu.len())];
                let l2 = leaf_menu[ch.choose("leaf_2", leaf_menu.len())];
                let lang = *ch.pick("lang", &ALL_LANGS);
                if l1 == l2 || l1 == "()" || l2 == "()" {
                    acc.out_of_scope += 1;
                    return;
                }
                check_same_shape(&ctors, l1, l2, lang, &ch.choices(), acc);
            },
            Mode::Product,
            3,
            report::threads(),
            u64::MAX,
        );
        merge(&mut rep, "same_shape_two_leaves", accs, &stats, json!({"constructor_chain_length": format!("0..={maxlen}"), "constructors": if thorough { json!(["Vec", "[_;3]", "&[_]", "Option", "Box", "HashMap<String,_>", "G1<_>"]) } else { json!(["Vec", "Option", "HashMap<String,_>", "G1<_>"]) }, "leaves": leaf_menu, "leaf_pairs": "every ordered pair of different leaves", "fields": "a: C[l1], b: C[l2], c: C[l1]", "languages": 6}));
    }
    let amb_k = if rep.thorough() { 3 } else { 2 };
    super::common::ambient_family(&mut rep, "ambient_variations", amb_k + 1, |ch| { gen_chain(ch, 2); }, |ch, acc| {
        let ty = gen_chain(ch, 2);
        let c = gen_tail(ch, ty, "chain", &[0, 1, 3]);
        if c.mapping == 3 && !matches!(c.lang, Lang::TypeScript | Lang::Go | Lang::Python) {
            acc.out_of_scope += 1;
            return;
        }
        check_case(&c, &ch.choices(), acc);
    });
    require_nonvacuous(&mut rep);
    rep.cov("rule", json!("every type expression of the stated families (unary chains over 17 leaves up to the stated constructor depth; every smart-pointer name and path form; maps and user generics with chain arguments) × 4 positions × 6 languages × 2 configurations × type-mapping tables; the type text at the use site is parsed back into a type tree and compared with the structural expectation; primitives are judged by JSON category and value range. non-trivial = nested type or a mapping table in force."));
    rep.assume("TypeScript prints optionality on the member, so Option wrappers are not compared for TypeScript; Swift's Unicode.Scalar is accepted as string-like for char");
    rep.assume("target primitive ranges from the language references (Go int taken as ≥ 32 bits)");
    rep.finish()
}
