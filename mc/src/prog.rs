//! Abstract Rust program (ground truth for every oracle) and its renderer.
#![allow(dead_code)]

#[derive(Clone, Debug, PartialEq, Eq, PartialOrd, Ord, Hash)]
pub enum Ty {
    /// bool char String &str i8 i16 i32 u8 u16 u32 I54 U53 f32 f64 () — and the unsupported u64 i64 usize isize
    Prim(&'static str),
    /// user type (as written in Rust, before serde rename / prefix)
    User(String),
    /// generic parameter
    Param(String),
    Vec(Box<Ty>),
    Array(Box<Ty>, usize),
    /// &[T]
    Slice(Box<Ty>),
    Option(Box<Ty>),
    /// Box Arc Rc Cow Cell RefCell Mutex RwLock Weak …
    Ptr(&'static str, Box<Ty>),
    /// &T
    Ref(Box<Ty>),
    Map(Box<Ty>, Box<Ty>),
    /// user generic type G<A, B>
    Generic(String, Vec<Ty>),
    /// tuple (unsupported)
    Tuple(Vec<Ty>),
    /// path-qualified spelling of the inner node, e.g. std::vec::Vec<T>
    Path(&'static str, Box<Ty>),
    /// verbatim Rust type text
    Raw(String),
}

impl Ty {
    pub fn user(n: &str) -> Ty {
        Ty::User(n.to_string())
    }
    pub fn render(&self) -> String {
        match self {
            Ty::Prim("&str") => "&'static str".into(),
            Ty::Prim(p) => p.to_string(),
            Ty::User(n) | Ty::Param(n) => n.clone(),
            Ty::Vec(t) => format!("Vec<{}>", t.render()),
            Ty::Array(t, n) => format!("[{}; {n}]", t.render()),
            Ty::Slice(t) => format!("&'static [{}]", t.render()),
            Ty::Option(t) => format!("Option<{}>", t.render()),
            Ty::Ptr("Cow", t) => format!("Cow<'static, {}>", t.render()),
            Ty::Ptr(p, t) => format!("{p}<{}>", t.render()),
            Ty::Ref(t) => format!("&'static {}", t.render()),
            Ty::Map(k, v) => format!("HashMap<{}, {}>", k.render(), v.render()),
            Ty::Generic(n, a) => format!("{n}<{}>", a.iter().map(|t| t.render()).collect::<Vec<_>>().join(", ")),
            Ty::Tuple(v) => format!("({})", v.iter().map(|t| t.render()).collect::<Vec<_>>().join(", ")),
            Ty::Path(prefix, t) => format!("{prefix}::{}", t.render()),
            Ty::Raw(s) => s.clone(),
        }
    }
    /// what serde sees: smart pointers, references and path qualification erased
    pub fn erase(&self) -> Ty {
        match self {
            Ty::Ptr(_, t) | Ty::Ref(t) | Ty::Path(_, t) => t.erase(),
            Ty::Vec(t) => Ty::Vec(Box::new(t.erase())),
            Ty::Array(t, n) => Ty::Array(Box::new(t.erase()), *n),
            Ty::Slice(t) => Ty::Slice(Box::new(t.erase())),
            Ty::Option(t) => Ty::Option(Box::new(t.erase())),
            Ty::Map(k, v) => Ty::Map(Box::new(k.erase()), Box::new(v.erase())),
            Ty::Generic(n, a) => Ty::Generic(n.clone(), a.iter().map(|t| t.erase()).collect()),
            Ty::Tuple(v) => Ty::Tuple(v.iter().map(|t| t.erase()).collect()),
            t => t.clone(),
        }
    }
    pub fn is_option(&self) -> bool {
        matches!(self.erase(), Ty::Option(_))
    }
    /// user type names referenced (in order, with repetition)
    pub fn user_refs(&self, out: &mut Vec<String>) {
        match self {
            Ty::User(n) => out.push(n.clone()),
            Ty::Generic(n, a) => {
                out.push(n.clone());
                for t in a {
                    t.user_refs(out);
                }
            }
            Ty::Vec(t) | Ty::Array(t, _) | Ty::Slice(t) | Ty::Option(t) | Ty::Ptr(_, t) | Ty::Ref(t) | Ty::Path(_, t) => t.user_refs(out),
            Ty::Map(k, v) => {
                k.user_refs(out);
                v.user_refs(out);
            }
            Ty::Tuple(v) => {
                for t in v {
                    t.user_refs(out);
                }
            }
            _ => {}
        }
    }
    pub fn depth(&self) -> usize {
        match self {
            Ty::Vec(t) | Ty::Array(t, _) | Ty::Slice(t) | Ty::Option(t) | Ty::Ptr(_, t) | Ty::Ref(t) | Ty::Path(_, t) => 1 + t.depth(),
            Ty::Map(k, v) => 1 + k.depth().max(v.depth()),
            Ty::Generic(_, a) | Ty::Tuple(a) => 1 + a.iter().map(|t| t.depth()).max().unwrap_or(0),
            _ => 1,
        }
    }
}

#[derive(Clone, Copy, Debug, PartialEq, Eq, PartialOrd, Ord, Hash)]
pub enum Skip {
    No,
    Serde,
    Typeshare,
    /// `serde(skip_serializing)` alone: still read from the wire, so not skipped
    SerializingOnly,
    /// `serde(skip_deserializing)` alone: still written to the wire, so not skipped
    DeserializingOnly,
}

impl Skip {
    /// the member is absent from the wire in both directions (what typeshare calls skipped)
    pub fn skipped(self) -> bool {
        matches!(self, Skip::Serde | Skip::Typeshare)
    }
}

#[derive(Clone, Copy, Debug, PartialEq, Eq, PartialOrd, Ord, Hash)]
pub enum DefaultKind {
    None,
    /// #[serde(default)]
    Bare,
    /// #[serde(default = "path")] — must NOT count as optional
    Path,
}

/// How the serde arguments of one element are spelled.
#[derive(Clone, Copy, Debug, PartialEq, Eq, PartialOrd, Ord, Hash)]
pub enum AttrStyle {
    /// one attribute per argument, in canonical order
    Separate,
    /// one merged list `#[serde(a, b)]`
    Merged,
    /// merged, reversed order, extra spaces
    MergedReversed,
    /// separate attributes in reverse order, placed after the doc comments and other attributes
    SeparateReversed,
}

pub const ATTR_STYLES: [AttrStyle; 4] = [AttrStyle::Separate, AttrStyle::Merged, AttrStyle::MergedReversed, AttrStyle::SeparateReversed];

#[derive(Clone, Debug, PartialEq, Eq, Hash)]
pub enum Doc {
    /// `/// text` (one attribute per line of text)
    Line(String),
    /// `/** text */`
    Block(String),
    /// `#[doc = "text"]`
    Attr(String),
    /// `#[doc = r##"text"##]` (a raw string literal: nothing in it is escaped)
    RawAttr(String),
    /// not a doc at all: an attribute of another crate, written verbatim as `#[text]` in the same place
    /// (`value(skip)`, `schemars(skip)`, `sqlx(rename = "x")` …); typeshare reads only serde / typeshare / cfg / doc
    Foreign(String),
}

#[derive(Clone, Debug)]
pub struct Field {
    /// identifier without `r#`
    pub ident: String,
    pub raw: bool,
    pub ty: Ty,
    pub rename: Option<String>,
    pub default: DefaultKind,
    pub skip: Skip,
    pub flatten: bool,
    pub serialized_as: Option<String>,
    /// extra typeshare(...) arguments, e.g. `typescript(readonly)`
    pub ts_args: Vec<String>,
    /// cfg expressions (rendered text inside cfg(...))
    pub cfgs: Vec<String>,
    pub docs: Vec<Doc>,
    pub style: AttrStyle,
}

impl Field {
    pub fn new(ident: &str, ty: Ty) -> Field {
        Field {
            ident: ident.to_string(),
            raw: false,
            ty,
            rename: None,
            default: DefaultKind::None,
            skip: Skip::No,
            flatten: false,
            serialized_as: None,
            ts_args: vec![],
            cfgs: vec![],
            docs: vec![],
            style: AttrStyle::Separate,
        }
    }
}

#[derive(Clone, Debug)]
pub enum VKind {
    Unit,
    Newtype(Ty),
    Struct(Vec<Field>),
    /// tuple variant with ≠ 1 fields (unsupported, or empty)
    Tuple(Vec<Ty>),
}

#[derive(Clone, Debug)]
pub struct Variant {
    pub ident: String,
    pub rename: Option<String>,
    /// variant-level rename_all (applies to the variant's fields)
    pub rename_all: Option<String>,
    pub kind: VKind,
    pub skip: Skip,
    pub serialized_as: Option<String>,
    pub cfgs: Vec<String>,
    pub docs: Vec<Doc>,
    pub style: AttrStyle,
    /// further serde arguments, rendered before the others (so the interesting one is not the first)
    pub extra_serde: Vec<String>,
}

impl Variant {
    pub fn new(ident: &str, kind: VKind) -> Variant {
        Variant { ident: ident.to_string(), rename: None, rename_all: None, kind, skip: Skip::No, serialized_as: None, cfgs: vec![], docs: vec![], style: AttrStyle::Separate, extra_serde: vec![] }
    }
}

#[derive(Clone, Debug)]
pub enum IKind {
    Struct(Vec<Field>),
    UnitStruct,
    /// `struct N(T);`
    Newtype(Ty),
    /// tuple struct with ≠ 1 fields
    TupleStruct(Vec<Ty>),
    Enum { variants: Vec<Variant>, tag: Option<String>, content: Option<String> },
    Alias(Ty),
    Const { ty: Ty, expr: String },
}

#[derive(Clone, Debug)]
pub struct Item {
    pub name: String,
    pub annotated: bool,
    pub rename: Option<String>,
    pub rename_all: Option<String>,
    pub generics: Vec<String>,
    pub kind: IKind,
    /// arguments of #[typeshare(...)] on the item (swift = "...", redacted, serialized_as = "...")
    pub ts_args: Vec<String>,
    pub cfgs: Vec<String>,
    pub docs: Vec<Doc>,
    pub style: AttrStyle,
    /// enclosing modules, outermost first
    pub mods: Vec<String>,
    /// further serde arguments, rendered before the others
    pub extra_serde: Vec<String>,
    /// how the annotation's path is spelled (index into `ANNOTATION_PATHS`)
    pub annotation_path: usize,
}

pub const ANNOTATION_PATHS: [&str; 3] = ["typeshare", "typeshare::typeshare", "::typeshare::typeshare"];

impl Item {
    pub fn new(name: &str, kind: IKind) -> Item {
        Item { name: name.to_string(), annotated: true, rename: None, rename_all: None, generics: vec![], kind, ts_args: vec![], cfgs: vec![], docs: vec![], style: AttrStyle::Separate, mods: vec![], extra_serde: vec![], annotation_path: 0 }
    }
    pub fn strukt(name: &str, fields: Vec<Field>) -> Item {
        Item::new(name, IKind::Struct(fields))
    }
    pub fn enumm(name: &str, variants: Vec<Variant>) -> Item {
        let alg = variants.iter().any(|v| !matches!(v.kind, VKind::Unit));
        Item::new(name, IKind::Enum { variants, tag: alg.then(|| "type".to_string()), content: alg.then(|| "content".to_string()) })
    }
}

#[derive(Clone, Debug, Default)]
pub struct File {
    pub crate_name: String,
    pub path: String,
    pub inner_cfgs: Vec<String>,
    pub uses: Vec<String>,
    pub items: Vec<Item>,
}

impl File {
    pub fn single(items: Vec<Item>) -> File {
        File { crate_name: String::new(), path: "input.rs".into(), inner_cfgs: vec![], uses: vec![], items }
    }
}

pub fn rust_str(s: &str) -> String {
    let mut o = String::from("\"");
    for c in s.chars() {
        match c {
            '"' => o.push_str("\\\""),
            '\\' => o.push_str("\\\\"),
            '\n' => o.push_str("\\n"),
            '\r' => o.push_str("\\r"),
            '\t' => o.push_str("\\t"),
            c => o.push(c),
        }
    }
    o.push('"');
    o
}

fn render_docs(docs: &[Doc], indent: &str, out: &mut String) {
    for d in docs {
        match d {
            Doc::Line(t) => {
                for l in t.split('\n') {
                    out.push_str(&format!("{indent}///{}{l}\n", if l.is_empty() { "" } else { " " }));
                }
            }
            Doc::Block(t) => out.push_str(&format!("{indent}/** {t} */\n")),
            Doc::Attr(t) => out.push_str(&format!("{indent}#[doc = {}]\n", rust_str(t))),
            Doc::RawAttr(t) => out.push_str(&format!("{indent}#[doc = r##\"{t}\"##]\n")),
            Doc::Foreign(t) => out.push_str(&format!("{indent}#[{t}]\n")),
        }
    }
}

/// serde / typeshare attribute lines for one element
fn render_attrs(serde_args: &[String], ts_args: &[String], cfgs: &[String], docs: &[Doc], style: AttrStyle, indent: &str, out: &mut String) {
    let mut serde_lines: Vec<String> = Vec::new();
    match style {
        AttrStyle::Separate => {
            for a in serde_args {
                serde_lines.push(format!("#[serde({a})]"));
            }
        }
        AttrStyle::Merged => {
            if !serde_args.is_empty() {
                serde_lines.push(format!("#[serde({})]", serde_args.join(", ")));
            }
        }
        AttrStyle::MergedReversed => {
            if !serde_args.is_empty() {
                let mut r = serde_args.to_vec();
                r.reverse();
                serde_lines.push(format!("#[ serde( {} ) ]", r.join(" , ")));
            }
        }
        AttrStyle::SeparateReversed => {
            for a in serde_args.iter().rev() {
                serde_lines.push(format!("#[serde({a},)]"));
            }
        }
    }
    let ts_line = if ts_args.is_empty() { None } else { Some(format!("#[typeshare({})]", ts_args.join(", "))) };
    let cfg_lines: Vec<String> = cfgs.iter().map(|c| format!("#[cfg({c})]")).collect();
    let late = matches!(style, AttrStyle::SeparateReversed | AttrStyle::MergedReversed);
    if !late {
        for l in &cfg_lines {
            out.push_str(&format!("{indent}{l}\n"));
        }
        for l in &serde_lines {
            out.push_str(&format!("{indent}{l}\n"));
        }
        if let Some(l) = &ts_line {
            out.push_str(&format!("{indent}{l}\n"));
        }
        render_docs(docs, indent, out);
    } else {
        render_docs(docs, indent, out);
        if let Some(l) = &ts_line {
            out.push_str(&format!("{indent}{l}\n"));
        }
        for l in &serde_lines {
            out.push_str(&format!("{indent}{l}\n"));
        }
        for l in &cfg_lines {
            out.push_str(&format!("{indent}{l}\n"));
        }
    }
}

fn field_serde_args(f: &Field) -> (Vec<String>, Vec<String>) {
    let mut s = Vec::new();
    let mut t = Vec::new();
    if let Some(r) = &f.rename {
        s.push(format!("rename = {}", rust_str(r)));
    }
    match f.default {
        DefaultKind::None => {}
        DefaultKind::Bare => s.push("default".into()),
        DefaultKind::Path => s.push("default = \"Default::default\"".into()),
    }
    if f.flatten {
        s.push("flatten".into());
    }
    match f.skip {
        Skip::No => {}
        Skip::Serde => s.push("skip".into()),
        Skip::Typeshare => t.push("skip".into()),
        Skip::SerializingOnly => s.push("skip_serializing".into()),
        Skip::DeserializingOnly => s.push("skip_deserializing".into()),
    }
    if let Some(sa) = &f.serialized_as {
        t.push(format!("serialized_as = {}", rust_str(sa)));
    }
    t.extend(f.ts_args.iter().cloned());
    (s, t)
}

fn render_field(f: &Field, indent: &str, public: bool, out: &mut String) {
    let (s, t) = field_serde_args(f);
    render_attrs(&s, &t, &f.cfgs, &f.docs, f.style, indent, out);
    out.push_str(&format!("{indent}{}{}{}: {},\n", if public { "pub " } else { "" }, if f.raw { "r#" } else { "" }, f.ident, f.ty.render()));
}

pub fn render_item(it: &Item, indent: &str, out: &mut String) {
    let mut s: Vec<String> = it.extra_serde.clone();
    if let Some(r) = &it.rename {
        s.push(format!("rename = {}", rust_str(r)));
    }
    if let Some(r) = &it.rename_all {
        s.push(format!("rename_all = {}", rust_str(r)));
    }
    if let IKind::Enum { tag, content, .. } = &it.kind {
        if let Some(t) = tag {
            s.push(format!("tag = {}", rust_str(t)));
        }
        if let Some(c) = content {
            s.push(format!("content = {}", rust_str(c)));
        }
    }
    // #[typeshare] itself: first (Separate/Merged) or last (reversed styles)
    let late = matches!(it.style, AttrStyle::SeparateReversed | AttrStyle::MergedReversed);
    let ts_attr = if !it.annotated {
        None
    } else if it.ts_args.is_empty() {
        Some(format!("#[{}]", ANNOTATION_PATHS[it.annotation_path]))
    } else {
        Some(format!("#[{}({})]", ANNOTATION_PATHS[it.annotation_path], it.ts_args.join(", ")))
    };
    if !late {
        if let Some(a) = &ts_attr {
            out.push_str(&format!("{indent}{a}\n"));
        }
    }
    render_attrs(&s, &[], &it.cfgs, &it.docs, it.style, indent, out);
    if late {
        if let Some(a) = &ts_attr {
            out.push_str(&format!("{indent}{a}\n"));
        }
    }
    let gen = if it.generics.is_empty() { String::new() } else { format!("<{}>", it.generics.join(", ")) };
    match &it.kind {
        IKind::Struct(fields) => {
            out.push_str(&format!("{indent}pub struct {}{gen} {{\n", it.name));
            let ind2 = format!("{indent}    ");
            for f in fields {
                render_field(f, &ind2, true, out);
            }
            out.push_str(&format!("{indent}}}\n"));
        }
        IKind::UnitStruct => out.push_str(&format!("{indent}pub struct {}{gen};\n", it.name)),
        IKind::Newtype(t) => out.push_str(&format!("{indent}pub struct {}{gen}(pub {});\n", it.name, t.render())),
        IKind::TupleStruct(ts) => {
            out.push_str(&format!("{indent}pub struct {}{gen}({});\n", it.name, ts.iter().map(|t| format!("pub {}", t.render())).collect::<Vec<_>>().join(", ")))
        }
        IKind::Enum { variants, .. } => {
            out.push_str(&format!("{indent}pub enum {}{gen} {{\n", it.name));
            let ind2 = format!("{indent}    ");
            let ind3 = format!("{indent}        ");
            for v in variants {
                let mut vs = v.extra_serde.clone();
                let mut vt = Vec::new();
                if let Some(r) = &v.rename {
                    vs.push(format!("rename = {}", rust_str(r)));
                }
                if let Some(r) = &v.rename_all {
                    vs.push(format!("rename_all = {}", rust_str(r)));
                }
                match v.skip {
                    Skip::No => {}
                    Skip::Serde => vs.push("skip".into()),
                    Skip::Typeshare => vt.push("skip".into()),
                    Skip::SerializingOnly => vs.push("skip_serializing".into()),
                    Skip::DeserializingOnly => vs.push("skip_deserializing".into()),
                }
                render_attrs(&vs, &vt, &v.cfgs, &v.docs, v.style, &ind2, out);
                match &v.kind {
                    VKind::Unit => out.push_str(&format!("{ind2}{},\n", v.ident)),
                    VKind::Newtype(t) => {
                        let sa = v.serialized_as.as_ref().map(|s| format!("#[typeshare(serialized_as = {})] ", rust_str(s))).unwrap_or_default();
                        out.push_str(&format!("{ind2}{}({sa}{}),\n", v.ident, t.render()))
                    }
                    VKind::Tuple(ts) => out.push_str(&format!("{ind2}{}({}),\n", v.ident, ts.iter().map(|t| t.render()).collect::<Vec<_>>().join(", "))),
                    VKind::Struct(fields) => {
                        out.push_str(&format!("{ind2}{} {{\n", v.ident));
                        for f in fields {
                            render_field(f, &ind3, false, out);
                        }
                        out.push_str(&format!("{ind2}}},\n"));
                    }
                }
            }
            out.push_str(&format!("{indent}}}\n"));
        }
        IKind::Alias(t) => out.push_str(&format!("{indent}pub type {}{gen} = {};\n", it.name, t.render())),
        IKind::Const { ty, expr } => out.push_str(&format!("{indent}pub const {}: {} = {};\n", it.name, ty.render(), expr)),
    }
}

pub fn render_file(f: &File) -> String {
    let mut out = String::new();
    for c in &f.inner_cfgs {
        out.push_str(&format!("#![cfg({c})]\n"));
    }
    for u in &f.uses {
        out.push_str(&format!("use {u};\n"));
    }
    // group consecutive items with the same module path
    let mut i = 0;
    while i < f.items.len() {
        let mods = f.items[i].mods.clone();
        let mut j = i;
        while j < f.items.len() && f.items[j].mods == mods {
            j += 1;
        }
        let mut indent = String::new();
        // a path element is a module name, or `fn:<name>` (function body) or `const:` (anonymous const block)
        for m in &mods {
            if let Some(f) = m.strip_prefix("fn:") {
                out.push_str(&format!("{indent}pub fn {f}() {{\n"));
            } else if m.starts_with("const:") {
                out.push_str(&format!("{indent}const _: () = {{\n"));
            } else {
                out.push_str(&format!("{indent}pub mod {m} {{\n"));
            }
            indent.push_str("    ");
        }
        for it in &f.items[i..j] {
            render_item(it, &indent, &mut out);
            out.push('\n');
        }
        for m in mods.iter().rev() {
            indent.truncate(indent.len() - 4);
            out.push_str(&format!("{indent}}}{}\n", if m.starts_with("const:") { ";" } else { "" }));
        }
        i = j;
    }
    out
}

/// A rendered file that syn rejects is a machinery error (renderer bug), not a verdict.
pub fn syn_ok(src: &str) -> Result<(), String> {
    syn::parse_file(src).map(|_| ()).map_err(|e| e.to_string())
}


// ------------------------------------------------------------------------------------------
// Ambient variations: rewrites of a program that no property's verdict may depend on
// ------------------------------------------------------------------------------------------

pub const AMBIENTS: [&str; 6] = ["none", "noise-attributes", "inside-modules", "items-reversed", "noise-items", "attribute-style-flipped"];

fn flip(s: AttrStyle) -> AttrStyle {
    match s {
        AttrStyle::Separate => AttrStyle::MergedReversed,
        AttrStyle::Merged => AttrStyle::SeparateReversed,
        AttrStyle::MergedReversed => AttrStyle::Separate,
        AttrStyle::SeparateReversed => AttrStyle::Merged,
    }
}

fn for_fields(it: &mut Item, f: &mut dyn FnMut(&mut Field)) {
    match &mut it.kind {
        IKind::Struct(fs) => fs.iter_mut().for_each(|x| f(x)),
        IKind::Enum { variants, .. } => {
            for v in variants {
                if let VKind::Struct(fs) = &mut v.kind {
                    fs.iter_mut().for_each(|x| f(x));
                }
            }
        }
        _ => {}
    }
}

/// Apply ambient variation `k` (index into `AMBIENTS`). Names introduced here contain "Ambient".
pub fn ambient(file: &File, k: usize) -> File {
    let mut f = file.clone();
    match AMBIENTS[k] {
        "noise-attributes" => {
            for it in &mut f.items {
                // (each doc ends in an empty doc line: "summary, blank line" is a common layout)
                it.docs.push(Doc::Line("ambient note on the item".into()));
                it.docs.push(Doc::Line(String::new()));
                it.docs.push(Doc::Foreign("schemars(skip, rename = \"AmbientSchemaName\")".into()));
                it.cfgs.push("feature = \"ambient\"".into());
                if matches!(it.kind, IKind::Struct(_)) {
                    it.extra_serde.push("deny_unknown_fields".into());
                }
                for_fields(it, &mut |x| {
                    x.docs.push(Doc::Line("ambient note on the field".into()));
                    x.docs.push(Doc::Line(String::new()));
                    x.docs.push(Doc::Foreign("schemars(skip)".into()));
                    x.docs.push(Doc::Foreign("sqlx(rename = \"ambient_column\", default, flatten)".into()));
                    x.cfgs.push("feature = \"ambient\"".into());
                });
                if let IKind::Enum { variants, .. } = &mut it.kind {
                    for v in variants {
                        v.docs.push(Doc::Line("ambient note on the variant".into()));
                        v.docs.push(Doc::Line(String::new()));
                        v.docs.push(Doc::Foreign("value(skip)".into()));
                        v.docs.push(Doc::Foreign("strum(serialize = \"ambient-name\", tag = \"x\", content = \"y\")".into()));
                        v.cfgs.push("feature = \"ambient\"".into());
                        v.extra_serde.push("alias = \"AmbientAlias\"".into());
                    }
                }
            }
        }
        "inside-modules" => {
            for it in &mut f.items {
                let mut m = vec!["amb".to_string(), "inner".to_string()];
                m.extend(it.mods.iter().cloned());
                it.mods = m;
            }
        }
        "items-reversed" => f.items.reverse(),
        "noise-items" => {
            let mut items = vec![Item::strukt("AaaAmbient", vec![Field::new("n", Ty::Prim("String"))])];
            items.extend(f.items.iter().cloned());
            items.push(Item::new("MmmAmbient", IKind::Alias(Ty::Vec(Box::new(Ty::user("AaaAmbient"))))));
            items.push(Item::enumm("ZzzAmbient", vec![Variant::new("One", VKind::Unit), Variant::new("Two", VKind::Unit)]));
            f.items = items;
        }
        "attribute-style-flipped" => {
            for it in &mut f.items {
                it.style = flip(it.style);
                for_fields(it, &mut |x| x.style = flip(x.style));
                if let IKind::Enum { variants, .. } = &mut it.kind {
                    for v in variants {
                        v.style = flip(v.style);
                    }
                }
            }
        }
        _ => {}
    }
    f
}
