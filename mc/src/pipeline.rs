//! Seam S-lib: the real typeshare pipeline on in-memory sources, in the same
//! call sequence as cli/src/main.rs::generate_types and core/tests/snapshot_tests.rs.
use std::collections::{BTreeMap, HashMap};
use std::panic::{catch_unwind, AssertUnwindSafe};
use std::path::PathBuf;
use typeshare_core::{
    context::{ParseContext, ParseFileContext},
    language::{CrateName, CrateTypes, Go, Kotlin, Language, Python, Scala, Swift, TypeScript, GenericConstraints},
    parser::{self, ParsedData},
    reconcile::reconcile_aliases,
};

#[derive(Clone, Copy, Debug, PartialEq, Eq, Hash, PartialOrd, Ord)]
pub enum Lang {
    TypeScript,
    Kotlin,
    Swift,
    Scala,
    Go,
    Python,
}

pub const ALL_LANGS: [Lang; 6] = [Lang::TypeScript, Lang::Kotlin, Lang::Swift, Lang::Scala, Lang::Go, Lang::Python];

impl Lang {
    pub fn name(self) -> &'static str {
        match self {
            Lang::TypeScript => "typescript",
            Lang::Kotlin => "kotlin",
            Lang::Swift => "swift",
            Lang::Scala => "scala",
            Lang::Go => "go",
            Lang::Python => "python",
        }
    }
    pub fn ext(self) -> &'static str {
        match self {
            Lang::TypeScript => "ts",
            Lang::Kotlin => "kt",
            Lang::Swift => "swift",
            Lang::Scala => "scala",
            Lang::Go => "go",
            Lang::Python => "py",
        }
    }
    pub fn from_name(s: &str) -> Option<Lang> {
        ALL_LANGS.iter().copied().find(|l| l.name() == s)
    }
}

#[derive(Clone, Debug, Default)]
pub struct Cfg {
    /// Swift / Kotlin type prefix
    pub prefix: String,
    /// Kotlin / Scala / Go package ("" = backend specific default chosen by `default_package`)
    pub package: String,
    pub type_mappings: Vec<(String, String)>,
    pub header: bool,
    pub multi_file: bool,
    pub target_os: Vec<String>,
    pub swift_default_decorators: Vec<String>,
    pub swift_default_generic_constraints: Vec<String>,
    pub swift_codablevoid_constraints: Vec<String>,
    pub go_uppercase_acronyms: Vec<String>,
    pub go_no_pointer_slice: bool,
}

impl Cfg {
    pub fn plain() -> Cfg {
        Cfg { package: "com.pkg.types".into(), ..Default::default() }
    }
    pub fn prefixed() -> Cfg {
        // the "every naming knob on" configuration
        Cfg {
            prefix: "P".into(),
            package: "org.other.mod".into(),
            go_uppercase_acronyms: vec!["ID".into(), "URL".into()],
            go_no_pointer_slice: true,
            swift_default_decorators: vec!["Sendable".into()],
            swift_default_generic_constraints: vec!["Equatable".into()],
            ..Default::default()
        }
    }
}

pub fn make_language(lang: Lang, cfg: &Cfg) -> Box<dyn Language> {
    let tm: HashMap<String, String> = cfg.type_mappings.iter().cloned().collect();
    match lang {
        Lang::TypeScript => Box::new(TypeScript { type_mappings: tm, no_version_header: !cfg.header, ..Default::default() }),
        Lang::Kotlin => Box::new(Kotlin {
            package: cfg.package.clone(),
            module_name: String::new(),
            prefix: cfg.prefix.clone(),
            type_mappings: tm,
            no_version_header: !cfg.header,
        }),
        Lang::Swift => Box::new(Swift {
            prefix: cfg.prefix.clone(),
            type_mappings: tm,
            default_decorators: cfg.swift_default_decorators.clone(),
            default_generic_constraints: GenericConstraints::from_config(cfg.swift_default_generic_constraints.clone()),
            multi_file: cfg.multi_file,
            codablevoid_constraints: cfg.swift_codablevoid_constraints.clone(),
            no_version_header: !cfg.header,
            ..Default::default()
        }),
        Lang::Scala => Box::new(Scala {
            package: cfg.package.clone(),
            module_name: String::new(),
            type_mappings: tm,
            no_version_header: !cfg.header,
        }),
        Lang::Go => Box::new(Go {
            package: cfg.package.rsplit('.').next().unwrap_or("pkg").to_string(),
            type_mappings: tm,
            uppercase_acronyms: cfg.go_uppercase_acronyms.clone(),
            no_pointer_slice: cfg.go_no_pointer_slice,
            no_version_header: !cfg.header,
            ..Default::default()
        }),
        Lang::Python => Box::new(Python { type_mappings: tm, no_version_header: !cfg.header, ..Default::default() }),
    }
}

#[derive(Clone, Debug)]
pub struct SrcFile {
    pub crate_name: String,
    /// path as the CLI would see it (only used for diagnostics and crate derivation by the caller)
    pub path: String,
    pub source: String,
}

impl SrcFile {
    pub fn single(source: impl Into<String>) -> SrcFile {
        SrcFile { crate_name: String::new(), path: "input.rs".into(), source: source.into() }
    }
}

#[derive(Debug, Clone)]
pub enum Outcome {
    /// crate name -> generated text
    Ok(BTreeMap<String, String>),
    /// parse errors recorded (file, message)
    ParseErrors(Vec<(String, String)>),
    /// `parser::parse` returned Err (syn error…)
    ParseFail(String),
    /// generation returned an io::Error
    GenError(String),
    Panic(String),
}

impl Outcome {
    pub fn kind(&self) -> &'static str {
        match self {
            Outcome::Ok(_) => "ok",
            Outcome::ParseErrors(_) => "parse_errors",
            Outcome::ParseFail(_) => "parse_fail",
            Outcome::GenError(_) => "gen_error",
            Outcome::Panic(_) => "panic",
        }
    }
    pub fn single_text(&self) -> Option<&str> {
        match self {
            Outcome::Ok(m) if m.len() == 1 => m.values().next().map(|s| s.as_str()),
            Outcome::Ok(m) if m.is_empty() => Some(""),
            _ => None,
        }
    }
}

thread_local! {
    static LAST_PANIC: std::cell::RefCell<String> = const { std::cell::RefCell::new(String::new()) };
}

/// Install a quiet panic hook that records the message (location stripped to file name) per thread.
pub fn install_panic_hook() {
    std::panic::set_hook(Box::new(|info| {
        let msg = if let Some(s) = info.payload().downcast_ref::<&str>() {
            s.to_string()
        } else if let Some(s) = info.payload().downcast_ref::<String>() {
            s.clone()
        } else {
            "<non-string panic>".to_string()
        };
        let loc = info
            .location()
            .map(|l| {
                let f = l.file();
                let f = f.rsplit('/').next().unwrap_or(f);
                format!("{f}")
            })
            .unwrap_or_default();
        LAST_PANIC.with(|p| *p.borrow_mut() = format!("{loc}: {msg}"));
    }));
}

pub fn last_panic() -> String {
    LAST_PANIC.with(|p| p.borrow().clone())
}

/// cli/src/parse.rs::all_types, verbatim in behaviour.
fn all_types(file_mappings: &mut BTreeMap<CrateName, ParsedData>) -> CrateTypes {
    file_mappings
        .iter_mut()
        .map(|(crate_name, parsed_data)| (crate_name, std::mem::take(&mut parsed_data.type_names)))
        .fold(HashMap::new(), |mut import_map: CrateTypes, (crate_name, type_names)| {
            import_map.entry(crate_name.clone()).or_default().extend(type_names);
            import_map
        })
}

pub fn out_file_name(lang: Lang, crate_name: &str) -> String {
    use typeshare_core::RenameExt;
    match lang {
        Lang::Swift => format!("{}.{}", crate_name.to_string().to_pascal_case(), lang.ext()),
        _ => format!("{}.{}", crate_name, lang.ext()),
    }
}

/// Parse all files in the given (arrival) order, fold per crate, reconcile.
pub fn parse_all(files: &[SrcFile], lang: Lang, cfg: &Cfg, ignored: &[String]) -> Result<BTreeMap<CrateName, ParsedData>, Outcome> {
    let ignored_refs: Vec<&str> = ignored.iter().map(|s| s.as_str()).collect();
    let ctx = ParseContext { ignored_types: ignored_refs, multi_file: cfg.multi_file, target_os: cfg.target_os.clone() };
    let mut map: BTreeMap<CrateName, ParsedData> = BTreeMap::new();
    for f in files {
        let crate_name = CrateName::from(f.crate_name.as_str());
        let pfc = ParseFileContext {
            source_code: f.source.clone(),
            crate_name: crate_name.clone(),
            file_name: out_file_name(lang, &f.crate_name),
            file_path: PathBuf::from(&f.path),
        };
        match parser::parse(&ctx, pfc) {
            Ok(Some(pd)) => {
                let cn = pd.crate_name.clone();
                *map.entry(cn).or_default() += pd;
            }
            Ok(None) => {}
            Err(e) => return Err(Outcome::ParseFail(e.to_string())),
        }
    }
    Ok(map)
}

/// The whole pipeline; never unwinds.
pub fn run(files: &[SrcFile], lang: Lang, cfg: &Cfg) -> Outcome {
    {
        let srcs: Vec<(&str, &str)> = files.iter().map(|f| (f.path.as_str(), f.source.as_str())).collect();
        crate::crumb::note(lang.name(), &format!("prefix={:?} package={:?} multi_file={} target_os={:?} mappings={:?}", cfg.prefix, cfg.package, cfg.multi_file, cfg.target_os, cfg.type_mappings), &srcs);
    }
    let r = catch_unwind(AssertUnwindSafe(|| run_inner(files, lang, cfg)));
    crate::crumb::done();
    match r {
        Ok(o) => o,
        Err(_) => Outcome::Panic(last_panic()),
    }
}

fn run_inner(files: &[SrcFile], lang: Lang, cfg: &Cfg) -> Outcome {
    let mut language = make_language(lang, cfg);
    let ignored: Vec<String> = language.ignored_reference_types().into_iter().map(|s| s.to_string()).collect();
    let mut map = match parse_all(files, lang, cfg, &ignored) {
        Ok(m) => m,
        Err(o) => return o,
    };
    reconcile_aliases(&mut map);
    let import_candidates = if cfg.multi_file { all_types(&mut map) } else { HashMap::new() };
    let mut errs = Vec::new();
    for pd in map.values() {
        for e in &pd.errors {
            errs.push((e.file_name.clone(), e.error.to_string()));
        }
    }
    if !errs.is_empty() {
        return Outcome::ParseErrors(errs);
    }
    let mut out = BTreeMap::new();
    if cfg.multi_file {
        for (cn, pd) in map {
            let mut buf = Vec::new();
            if let Err(e) = language.generate_types(&mut buf, &import_candidates, pd) {
                return Outcome::GenError(e.to_string());
            }
            out.insert(cn.to_string(), String::from_utf8_lossy(&buf).into_owned());
        }
    } else if let Some(pd) = map.remove(&CrateName::from("")) {
        let mut buf = Vec::new();
        if let Err(e) = language.generate_types(&mut buf, &HashMap::new(), pd) {
            return Outcome::GenError(e.to_string());
        }
        out.insert(String::new(), String::from_utf8_lossy(&buf).into_owned());
    }
    Outcome::Ok(out)
}

/// Parse only (language independent part): returns the folded, reconciled data or the failure.
pub fn parse_only(files: &[SrcFile], cfg: &Cfg) -> Result<BTreeMap<CrateName, ParsedData>, Outcome> {
    {
        let srcs: Vec<(&str, &str)> = files.iter().map(|f| (f.path.as_str(), f.source.as_str())).collect();
        crate::crumb::note("(parse only)", &format!("multi_file={} target_os={:?}", cfg.multi_file, cfg.target_os), &srcs);
    }
    let r = catch_unwind(AssertUnwindSafe(|| {
        let mut m = parse_all(files, Lang::TypeScript, cfg, &[])?;
        reconcile_aliases(&mut m);
        Ok(m)
    }));
    crate::crumb::done();
    match r {
        Ok(x) => x,
        Err(_) => Err(Outcome::Panic(last_panic())),
    }
}
