//! Reference models, written from serde's and the target languages' documentation.
#![allow(dead_code)]
use crate::extract::{self, OutFile};
use crate::pipeline::{self, Cfg, Lang, Outcome, SrcFile};
use crate::prog::*;
use crate::serde_case::RenameRule;

/// serde's JSON key for a struct field.
pub fn field_key(container_rename_all: Option<&str>, f: &Field) -> String {
    if let Some(r) = &f.rename {
        return r.clone();
    }
    match container_rename_all.and_then(|r| RenameRule::from_str(r).ok()) {
        Some(rule) => rule.apply_to_field(&f.ident),
        None => f.ident.clone(),
    }
}

/// serde's wire name for an enum variant.
pub fn variant_name(enum_rename_all: Option<&str>, v: &Variant) -> String {
    if let Some(r) = &v.rename {
        return r.clone();
    }
    match enum_rename_all.and_then(|r| RenameRule::from_str(r).ok()) {
        Some(rule) => rule.apply_to_variant(&v.ident),
        None => v.ident.clone(),
    }
}

/// Name under which an item is defined in `lang` (serde rename, then prefix).
pub fn type_name(lang: Lang, cfg: &Cfg, it: &Item) -> String {
    let base = it.rename.clone().unwrap_or_else(|| it.name.clone());
    prefixed(lang, cfg, &base)
}

pub fn prefixed(lang: Lang, cfg: &Cfg, base: &str) -> String {
    match lang {
        Lang::Swift | Lang::Kotlin => format!("{}{}", cfg.prefix, base),
        _ => base.to_string(),
    }
}

/// optional(field) per the property: Option<_> (after smart-pointer erasure) or bare serde(default)
pub fn optional(ty: &Ty, default: DefaultKind) -> bool {
    ty.is_option() || default == DefaultKind::Bare
}

#[derive(Debug, Clone)]
pub enum RunFail {
    /// renderer produced something syn rejects: machinery bug
    Render(String),
    /// pipeline did not produce output
    Pipeline(Outcome),
    /// output could not be parsed back
    Extract { class: String, msg: String, line: u32, text: String },
}

impl RunFail {
    pub fn class(&self) -> String {
        match self {
            RunFail::Render(_) => "render".into(),
            RunFail::Pipeline(o) => format!("pipeline:{}", o.kind()),
            RunFail::Extract { class, .. } => format!("unparseable-output:{class}"),
        }
    }
    pub fn describe(&self) -> String {
        match self {
            RunFail::Render(e) => format!("renderer bug: {e}"),
            RunFail::Pipeline(o) => format!("{o:?}").chars().take(400).collect(),
            RunFail::Extract { msg, line, .. } => format!("line {line}: {msg}"),
        }
    }
}

pub struct RunOk {
    pub text: String,
    pub out: OutFile,
    pub source: String,
}

thread_local! {
    static AMBIENT: std::cell::Cell<usize> = const { std::cell::Cell::new(0) };
}

/// Run `f` with ambient variation `k` (see `prog::AMBIENTS`) applied to every program `run_single` renders.
pub fn with_ambient<R>(k: usize, f: impl FnOnce() -> R) -> R {
    AMBIENT.with(|a| a.set(k));
    let r = f();
    AMBIENT.with(|a| a.set(0));
    r
}

/// render -> real pipeline -> extractor, for a single-file program
pub fn run_single(file: &File, lang: Lang, cfg: &Cfg) -> Result<RunOk, (RunFail, String)> {
    let k = AMBIENT.with(|a| a.get());
    if k == 0 {
        let source = render_file(file);
        return run_source(&source, lang, cfg);
    }
    let source = render_file(&ambient(file, k));
    let mut r = run_source(&source, lang, cfg)?;
    // definitions introduced by the variation itself are not the check's business
    r.out.defs.retain(|d| !d.name().contains("Ambient"));
    Ok(r)
}

pub fn run_source(source: &str, lang: Lang, cfg: &Cfg) -> Result<RunOk, (RunFail, String)> {
    run_source_in_crate(source, "", lang, cfg)
}

/// As `run_source`, the file belonging to crate `krate` (multi-file mode names the output after it).
pub fn run_source_in_crate(source: &str, krate: &str, lang: Lang, cfg: &Cfg) -> Result<RunOk, (RunFail, String)> {
    let source = source.to_string();
    if let Err(e) = syn_ok(&source) {
        return Err((RunFail::Render(e), source));
    }
    let src_file = if krate.is_empty() { SrcFile::single(source.clone()) } else { SrcFile { crate_name: krate.into(), path: format!("ws/{krate}/src/lib.rs"), source: source.clone() } };
    let o = pipeline::run(&[src_file], lang, cfg);
    let text = match &o {
        Outcome::Ok(m) => m.values().next().cloned().unwrap_or_default(),
        _ => return Err((RunFail::Pipeline(o), source)),
    };
    if text.is_empty() {
        // nothing annotated: the pipeline writes no file at all
        return Ok(RunOk { text, out: OutFile::default(), source });
    }
    match extract::extract(lang, &text) {
        Ok(out) => Ok(RunOk { text, out, source }),
        Err(e) => Err((RunFail::Extract { class: e.class(), msg: e.msg(), line: e.line(), text }, source)),
    }
}

pub const RENAME_ALL_RULES: [&str; 8] =
    ["lowercase", "UPPERCASE", "PascalCase", "camelCase", "snake_case", "SCREAMING_SNAKE_CASE", "kebab-case", "SCREAMING-KEBAB-CASE"];
