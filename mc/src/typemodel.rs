//! Reference translation of Rust type expressions: structure + JSON category / capacity of primitives.
#![allow(dead_code)]
use crate::extract::{OutFile, TT};
use crate::pipeline::{Cfg, Lang};
use crate::prog::Ty;

/// Expected shape of a translated type.
#[derive(Clone, Debug, PartialEq)]
pub enum Exp {
    /// Rust primitive: judged by category/capacity
    Prim(&'static str),
    /// exact name (user type with prefix, generic parameter, mapped name) with arguments
    Named(String, Vec<Exp>),
    Seq(Box<Exp>),
    /// fixed-size array: a backend may print a sequence or a fixed-size form of exactly this length
    Array(Box<Exp>, usize),
    Map(Box<Exp>, Box<Exp>),
    Opt(Box<Exp>),
    /// type_mappings replaced the whole node by this text
    Mapped(String),
}

pub struct Ctx<'a> {
    pub lang: Lang,
    pub cfg: &'a Cfg,
    /// generic parameters in scope (never prefixed, never renamed)
    pub generics: &'a [String],
    /// user type renames via serde(rename): original -> renamed
    pub renames: &'a [(String, String)],
}

fn mapping<'a>(cfg: &'a Cfg, key: &str) -> Option<&'a String> {
    cfg.type_mappings.iter().find(|(k, _)| k == key).map(|(_, v)| v)
}

/// typeshare's own spelling of a special type (`Display for SpecialRustType`), used as the key of type mappings in
/// the backends that look special types up (TypeScript, Go, Python): "Vec<u8>", "[u8]" (array of any length),
/// "&[u8]", "HashMap<String,u32>", "Option<Vec>" (sic: the id of the argument), and the primitives' own names.
fn mapping_key(ty: &Ty) -> Option<String> {
    match ty {
        Ty::Vec(t) => Some(format!("Vec<{}>", display(t)?)),
        Ty::Array(t, _) => Some(format!("[{}]", display(t)?)),
        Ty::Slice(t) => Some(format!("&[{}]", display(t)?)),
        Ty::Map(k, v) => Some(format!("HashMap<{},{}>", display(k)?, display(v)?)),
        Ty::Option(t) => Some(format!("Option<{}>", id_of(t)?)),
        Ty::Prim("&str") => Some("String".into()),
        Ty::Prim(p) => Some(p.to_string()),
        _ => None,
    }
}
/// `Display for RustType`
fn display(ty: &Ty) -> Option<String> {
    match ty {
        Ty::User(n) | Ty::Param(n) => Some(n.clone()),
        Ty::Generic(n, args) if args.is_empty() => Some(n.clone()),
        Ty::Generic(n, args) => Some(format!("{n}<{}>", args.iter().map(display).collect::<Option<Vec<_>>>()?.join(", "))),
        other => mapping_key(other),
    }
}
/// `RustType::id`
fn id_of(ty: &Ty) -> Option<String> {
    Some(match ty {
        Ty::User(n) | Ty::Param(n) | Ty::Generic(n, _) => n.clone(),
        Ty::Vec(_) => "Vec".into(),
        Ty::Array(..) => "[]".into(),
        Ty::Slice(_) => "&[]".into(),
        Ty::Option(_) => "Option".into(),
        Ty::Map(..) => "HashMap".into(),
        Ty::Prim("&str") => "String".into(),
        Ty::Prim(p) => p.to_string(),
        _ => return None,
    })
}

pub fn expected(ctx: &Ctx, ty: &Ty) -> Exp {
    let ty = ty.erase();
    expected_erased(ctx, &ty)
}

fn container_mappable(lang: Lang) -> bool {
    matches!(lang, Lang::TypeScript | Lang::Go | Lang::Python)
}

fn expected_erased(ctx: &Ctx, ty: &Ty) -> Exp {
    if container_mappable(ctx.lang) {
        if let Some(k) = mapping_key(ty) {
            if let Some(m) = mapping(ctx.cfg, &k) {
                return Exp::Mapped(m.clone());
            }
        }
    }
    match ty {
        Ty::Prim(p) => Exp::Prim(p),
        Ty::Param(n) => Exp::Named(n.clone(), vec![]),
        Ty::User(n) => {
            if let Some(m) = mapping(ctx.cfg, n) {
                return Exp::Mapped(m.clone());
            }
            if ctx.generics.contains(n) {
                return Exp::Named(n.clone(), vec![]);
            }
            let base = ctx.renames.iter().find(|(o, _)| o == n).map(|(_, r)| r.clone()).unwrap_or_else(|| n.clone());
            Exp::Named(crate::refmodel::prefixed(ctx.lang, ctx.cfg, &base), vec![])
        }
        Ty::Generic(n, args) => {
            if let Some(m) = mapping(ctx.cfg, n) {
                return Exp::Mapped(m.clone());
            }
            let base = ctx.renames.iter().find(|(o, _)| o == n).map(|(_, r)| r.clone()).unwrap_or_else(|| n.clone());
            Exp::Named(crate::refmodel::prefixed(ctx.lang, ctx.cfg, &base), args.iter().map(|a| expected_erased(ctx, a)).collect())
        }
        Ty::Vec(t) | Ty::Slice(t) => Exp::Seq(Box::new(expected_erased(ctx, t))),
        Ty::Array(t, n) => Exp::Array(Box::new(expected_erased(ctx, t)), *n),
        // Go with `no_pointer_slice`: an optional Vec is written without the pointer (a nil slice is the absent value)
        Ty::Option(t) if ctx.lang == Lang::Go && ctx.cfg.go_no_pointer_slice && matches!(**t, Ty::Vec(_)) => expected_erased(ctx, t),
        Ty::Option(t) => Exp::Opt(Box::new(expected_erased(ctx, t))),
        Ty::Map(k, v) => Exp::Map(Box::new(expected_erased(ctx, k)), Box::new(expected_erased(ctx, v))),
        Ty::Ptr(_, t) | Ty::Ref(t) | Ty::Path(_, t) => expected_erased(ctx, t),
        Ty::Tuple(_) | Ty::Raw(_) => Exp::Mapped("<unsupported>".into()),
    }
}

#[derive(Clone, Copy, Debug, PartialEq, Eq)]
pub enum Cat {
    Bool,
    Str,
    Int,
    Float,
    Unit,
}

/// (category, min, max) of a Rust primitive; floats carry mantissa bits in `max`
pub fn rust_prim(p: &str) -> Option<(Cat, i128, i128)> {
    Some(match p {
        "bool" => (Cat::Bool, 0, 0),
        "char" | "String" | "&str" | "str" => (Cat::Str, 0, 0),
        "()" => (Cat::Unit, 0, 0),
        "i8" => (Cat::Int, i8::MIN as i128, i8::MAX as i128),
        "i16" => (Cat::Int, i16::MIN as i128, i16::MAX as i128),
        "i32" => (Cat::Int, i32::MIN as i128, i32::MAX as i128),
        "u8" => (Cat::Int, 0, u8::MAX as i128),
        "u16" => (Cat::Int, 0, u16::MAX as i128),
        "u32" => (Cat::Int, 0, u32::MAX as i128),
        "I54" => (Cat::Int, -9007199254740991, 9007199254740991),
        "U53" => (Cat::Int, 0, 9007199254740991),
        "f32" => (Cat::Float, 0, 24),
        "f64" => (Cat::Float, 0, 53),
        _ => return None,
    })
}

/// (category, min, max) of a target-language primitive name, from the language references.
pub fn target_prim(lang: Lang, name: &str) -> Option<(Cat, i128, i128)> {
    const I64: (i128, i128) = (i64::MIN as i128, i64::MAX as i128);
    const BIG: (i128, i128) = (i128::MIN, i128::MAX);
    Some(match (lang, name) {
        (Lang::TypeScript, "number") => (Cat::Float, -9007199254740991, 9007199254740991),
        (Lang::TypeScript, "string") => (Cat::Str, 0, 0),
        (Lang::TypeScript, "boolean") => (Cat::Bool, 0, 0),
        (Lang::TypeScript, "undefined") => (Cat::Unit, 0, 0),
        (Lang::Kotlin | Lang::Scala, "Byte") => (Cat::Int, -128, 127),
        (Lang::Kotlin | Lang::Scala, "Short") => (Cat::Int, i16::MIN as i128, i16::MAX as i128),
        (Lang::Kotlin | Lang::Scala, "Int") => (Cat::Int, i32::MIN as i128, i32::MAX as i128),
        (Lang::Kotlin | Lang::Scala, "Long") => (Cat::Int, I64.0, I64.1),
        (Lang::Kotlin, "UByte") => (Cat::Int, 0, 255),
        (Lang::Kotlin, "UShort") => (Cat::Int, 0, 65535),
        (Lang::Kotlin, "UInt") => (Cat::Int, 0, u32::MAX as i128),
        (Lang::Kotlin, "ULong") => (Cat::Int, 0, u64::MAX as i128),
        (Lang::Kotlin | Lang::Scala, "Float") => (Cat::Float, 0, 24),
        (Lang::Kotlin | Lang::Scala, "Double") => (Cat::Float, 0, 53),
        (Lang::Kotlin | Lang::Scala, "Boolean") => (Cat::Bool, 0, 0),
        (Lang::Kotlin | Lang::Scala, "String") => (Cat::Str, 0, 0),
        (Lang::Kotlin | Lang::Scala, "Unit") => (Cat::Unit, 0, 0),
        (Lang::Swift, "Int8") => (Cat::Int, -128, 127),
        (Lang::Swift, "Int16") => (Cat::Int, i16::MIN as i128, i16::MAX as i128),
        (Lang::Swift, "Int32") => (Cat::Int, i32::MIN as i128, i32::MAX as i128),
        (Lang::Swift, "Int64" | "Int") => (Cat::Int, I64.0, I64.1),
        (Lang::Swift, "UInt8") => (Cat::Int, 0, 255),
        (Lang::Swift, "UInt16") => (Cat::Int, 0, 65535),
        (Lang::Swift, "UInt32") => (Cat::Int, 0, u32::MAX as i128),
        (Lang::Swift, "UInt64" | "UInt") => (Cat::Int, 0, u64::MAX as i128),
        (Lang::Swift, "Float") => (Cat::Float, 0, 24),
        (Lang::Swift, "Double") => (Cat::Float, 0, 53),
        (Lang::Swift, "Bool") => (Cat::Bool, 0, 0),
        (Lang::Swift, "String") => (Cat::Str, 0, 0),
        // single Unicode scalar value; treated as string-like (encodes as a one-character string in the snapshot convention)
        (Lang::Swift, "Unicode.Scalar") => (Cat::Str, 0, 0),
        (Lang::Swift, "CodableVoid") => (Cat::Unit, 0, 0),
        // Go: int is at least 32 bits wide
        (Lang::Go, "int") => (Cat::Int, i32::MIN as i128, i32::MAX as i128),
        (Lang::Go, "int8") => (Cat::Int, -128, 127),
        (Lang::Go, "int16") => (Cat::Int, i16::MIN as i128, i16::MAX as i128),
        (Lang::Go, "int32" | "rune") => (Cat::Int, i32::MIN as i128, i32::MAX as i128),
        (Lang::Go, "int64") => (Cat::Int, I64.0, I64.1),
        (Lang::Go, "uint8" | "byte") => (Cat::Int, 0, 255),
        (Lang::Go, "uint16") => (Cat::Int, 0, 65535),
        (Lang::Go, "uint32") => (Cat::Int, 0, u32::MAX as i128),
        (Lang::Go, "uint64") => (Cat::Int, 0, u64::MAX as i128),
        (Lang::Go, "uint") => (Cat::Int, 0, u32::MAX as i128),
        (Lang::Go, "float32") => (Cat::Float, 0, 24),
        (Lang::Go, "float64") => (Cat::Float, 0, 53),
        (Lang::Go, "bool") => (Cat::Bool, 0, 0),
        (Lang::Go, "string") => (Cat::Str, 0, 0),
        (Lang::Go, "struct{}") => (Cat::Unit, 0, 0),
        (Lang::Python, "int") => (Cat::Int, BIG.0, BIG.1),
        (Lang::Python, "float") => (Cat::Float, 0, 53),
        (Lang::Python, "bool") => (Cat::Bool, 0, 0),
        (Lang::Python, "str") => (Cat::Str, 0, 0),
        (Lang::Python, "None") => (Cat::Unit, 0, 0),
        _ => return None,
    })
}

/// Can `target` hold every value of Rust primitive `p`, in the same JSON category?
pub fn prim_ok(lang: Lang, p: &str, target: &str, out: &OutFile) -> Result<(), String> {
    let Some((rc, rmin, rmax)) = rust_prim(p) else { return Err(format!("unknown rust primitive {p}")) };
    // resolve helper aliases the output itself defines (Scala's `type UByte = Byte`)
    let mut name = target.to_string();
    for _ in 0..3 {
        if let Some(a) = out.aux_names.iter().find_map(|a| a.strip_prefix("alias:").and_then(|r| r.split_once('=')).filter(|(l, _)| *l == name).map(|(_, r)| r.to_string())) {
            name = a;
        } else {
            break;
        }
    }
    let Some((tc, tmin, tmax)) = target_prim(lang, &name) else {
        return Err(format!("{p}->{target}: not a primitive of the target language"));
    };
    match (rc, tc) {
        (Cat::Int, Cat::Int) => {
            if tmin <= rmin && rmax <= tmax {
                Ok(())
            } else {
                Err(format!("{p}->{target}: capacity (target resolves to {name})"))
            }
        }
        // JavaScript numbers: integers up to 2^53 are exact
        (Cat::Int, Cat::Float) if lang == Lang::TypeScript => {
            if tmin <= rmin && rmax <= tmax {
                Ok(())
            } else {
                Err(format!("{p}->{target}: capacity"))
            }
        }
        (Cat::Float, Cat::Float) => {
            if rmax <= tmax || lang == Lang::TypeScript {
                Ok(())
            } else {
                Err(format!("{p}->{target}: precision"))
            }
        }
        (a, b) if a == b => Ok(()),
        _ => Err(format!("{p}->{target}: category")),
    }
}

/// Compare an observed type tree with the expectation. `opt_sensitive=false` ignores optional wrappers (TypeScript
/// prints optionality on the member, not in the type).
pub fn matches(lang: Lang, exp: &Exp, obs: &TT, out: &OutFile, opt_sensitive: bool) -> Result<(), String> {
    match (exp, obs) {
        (Exp::Opt(e), o) if !opt_sensitive => matches(lang, e, o.strip_opt(), out, opt_sensitive),
        (e, TT::Opt(o)) if !opt_sensitive => matches(lang, e, o, out, opt_sensitive),
        (Exp::Opt(e), TT::Opt(o)) => matches(lang, e, o, out, opt_sensitive),
        (Exp::Opt(_), _) => Err("optional-wrapper-lost".into()),
        (_, TT::Opt(_)) => Err("optional-wrapper-invented".into()),
        (Exp::Prim(p), TT::Name(n, args)) if args.is_empty() => prim_ok(lang, p, n, out),
        (Exp::Prim(p), o) => Err(format!("{p}: primitive became {}", shape(o))),
        (Exp::Named(n, ea), TT::Name(on, oa)) => {
            if n != on {
                return Err(format!("name: expected {} got {}", class_of_name(n), class_of_name(on)));
            }
            if ea.len() != oa.len() {
                return Err(format!("generic-arity: expected {} got {}", ea.len(), oa.len()));
            }
            for (e, o) in ea.iter().zip(oa) {
                matches(lang, e, o, out, opt_sensitive)?;
            }
            Ok(())
        }
        (Exp::Named(..), o) => Err(format!("named type became {}", shape(o))),
        (Exp::Seq(e), TT::Seq(o)) => matches(lang, e, o, out, opt_sensitive),
        (Exp::Seq(_), o) => Err(format!("sequence became {}", shape(o))),
        (Exp::Array(e, _), TT::Seq(o)) => matches(lang, e, o, out, opt_sensitive),
        (Exp::Array(e, n), TT::Fixed(o, m)) => {
            if n != m {
                return Err("array-length".into());
            }
            matches(lang, e, o, out, opt_sensitive)
        }
        (Exp::Array(..), o) => Err(format!("array became {}", shape(o))),
        (Exp::Map(ek, ev), TT::Map(ok, ov)) => {
            matches(lang, ek, ok, out, opt_sensitive).map_err(|e| format!("map-key:{e}"))?;
            matches(lang, ev, ov, out, opt_sensitive)
        }
        (Exp::Map(..), o) => Err(format!("map became {}", shape(o))),
        (Exp::Mapped(m), o) => {
            let shown = match o {
                TT::Name(n, a) if a.is_empty() => n.clone(),
                other => other.show(),
            };
            if &shown == m {
                Ok(())
            } else {
                Err(format!("mapping-not-applied: got {}", shape(o)))
            }
        }
    }
}

fn shape(t: &TT) -> &'static str {
    match t {
        TT::Name(..) => "a named type",
        TT::Seq(_) => "a sequence",
        TT::Fixed(..) => "a fixed array",
        TT::Map(..) => "a map",
        TT::Opt(_) => "an optional",
        TT::Raw(_) => "raw text",
    }
}

fn class_of_name(n: &str) -> String {
    // abstract user names so that signatures do not depend on the alphabet's spelling
    if n.starts_with('P') && n.len() > 1 && n.chars().nth(1).map(|c| c.is_uppercase()).unwrap_or(false) {
        format!("prefixed:{}", &n[1..])
    } else {
        n.to_string()
    }
}
