//! TypeScript: acceptor + extractor for the declaration subset typeshare emits.
use super::lex::{Cur, PResult, Tok, K};
use super::*;

const TS_RESERVED: &[&str] = &[
    "break", "case", "catch", "class", "const", "continue", "debugger", "default", "delete", "do", "else", "enum", "export", "extends",
    "false", "finally", "for", "function", "if", "import", "in", "instanceof", "new", "null", "return", "super", "switch", "this", "throw",
    "true", "try", "typeof", "var", "void", "while", "with",
];

pub fn parse(toks: &[Tok]) -> PResult<OutFile> {
    let mut c = Cur::new(toks, true);
    let mut of = OutFile::default();
    while !c.at_end() {
        if c.is_word("import") {
            c.next();
            c.expect_punct("{")?;
            let mut names = Vec::new();
            loop {
                names.push(c.ident()?.0);
                if !c.accept_punct(",") {
                    break;
                }
            }
            c.expect_punct("}")?;
            c.expect_word("from")?;
            let path = c.string()?;
            c.expect_punct(";")?;
            of.imports.push((path, names));
            continue;
        }
        c.expect_word("export")?;
        let first_comment = c.comments.len();
        let _ = first_comment;
        if c.accept_word("interface") {
            let name = type_name(&mut c)?;
            let generics = generics_decl(&mut c)?;
            c.expect_punct("{")?;
            let fields = fields(&mut c)?;
            c.expect_punct("}")?;
            of.defs.push(Def::Struct(SDef { name, generics, fields, comments: vec![] }));
        } else if c.accept_word("enum") {
            let name = type_name(&mut c)?;
            let generics = generics_decl(&mut c)?;
            c.expect_punct("{")?;
            let mut variants = Vec::new();
            while !c.is_punct("}") {
                let (id, _) = c.ident()?;
                c.expect_punct("=")?;
                let w = c.string()?;
                c.expect_punct(",")?;
                variants.push(VDef { case_name: id, wire: w, payload: Payload::None, parent: None, content_keys: vec![], tag_keys: vec![], comments: vec![] });
            }
            c.expect_punct("}")?;
            of.defs.push(Def::Enum(EDef { name, generics, algebraic: false, variants, tag_facets: vec![], content_facets: vec![], comments: vec![] }));
        } else if c.accept_word("const") {
            let (name, _) = c.ident()?;
            if name == "ReviverFunc" || name == "ReplacerFunc" {
                // helper: `= (key: string, value: unknown): unknown => { ... };`
                c.expect_punct("=")?;
                c.balanced("(", ")")?;
                c.expect_punct(":")?;
                c.ident()?;
                c.expect_punct("=>")?;
                let body = c.balanced("{", "}")?;
                c.expect_punct(";")?;
                if name == "ReviverFunc" {
                    // the key filter: every `key === ` compares with exactly one string literal and is followed by
                    // `||`, `&&` or `)`; the literals are the wire keys the reviver turns into Date
                    let mut keys = Vec::new();
                    let mut bad: Option<String> = None;
                    for i in 0..body.len() {
                        if !(body[i].k == K::Ident && body[i].text == "key") || (i > 0 && body[i - 1].k == K::Punct && body[i - 1].text == ".") {
                            continue;
                        }
                        let mut j = i + 1;
                        let mut op = String::new();
                        while j < body.len() && body[j].k == K::Punct && (body[j].text == "==" || body[j].text == "=") && op.len() < 3 {
                            op.push_str(&body[j].text);
                            j += 1;
                        }
                        if op != "===" {
                            continue;
                        }
                        match body.get(j) {
                            Some(t) if t.k == K::Str => {
                                keys.push(t.text.clone());
                                match body.get(j + 1) {
                                    Some(n) if n.k == K::Punct && ["||", "&&", ")"].contains(&n.text.as_str()) => {}
                                    other => bad = Some(format!("ReviverFunc: the comparison `key === {:?}` is followed by `{}`, not by `||`, `&&` or `)`", t.text, other.map(|t| t.text.as_str()).unwrap_or("<end>"))),
                                }
                            }
                            other => bad = Some(format!("ReviverFunc: `key ===` is followed by `{}`, not by a string literal", other.map(|t| t.text.as_str()).unwrap_or("<end>"))),
                        }
                    }
                    if let Some(b) = bad {
                        return c.err(b);
                    }
                    of.reviver_keys = Some(keys);
                }
                of.helper_defs.push(name);
                continue;
            }
            c.expect_punct(":")?;
            let ty = ty(&mut c)?;
            c.expect_punct("=")?;
            let neg = c.accept_punct("-");
            let v = match c.next() {
                Some(t) if t.k == K::Num => t.text.clone(),
                _ => return c.err("expected integer literal"),
            };
            c.expect_punct(";")?;
            of.defs.push(Def::Const(CDef { name, ty, value: if neg { format!("-{v}") } else { v } }));
        } else if c.accept_word("type") {
            let name = type_name(&mut c)?;
            let generics = generics_decl(&mut c)?;
            c.expect_punct("=")?;
            if c.is_punct("|") && matches!(c.peek_n(1), Some(t) if t.k == K::Punct && t.text == "{") {
                // algebraic enum
                let mut variants = Vec::new();
                while c.accept_punct("|") {
                    c.expect_punct("{")?;
                    let tag = key(&mut c)?;
                    c.expect_punct(":")?;
                    let wire = c.string()?;
                    c.expect_punct(",")?;
                    let content = key(&mut c)?;
                    let q = c.accept_punct("?");
                    c.expect_punct(":")?;
                    let payload = if c.is_punct("{") {
                        c.next();
                        let fs = fields(&mut c)?;
                        c.expect_punct("}")?;
                        Payload::Inline(fs)
                    } else {
                        let t = ty(&mut c)?;
                        if t == TT::name("undefined") && q {
                            Payload::None
                        } else {
                            Payload::Type(t, q)
                        }
                    };
                    c.expect_punct("}")?;
                    variants.push(VDef { case_name: wire.clone(), wire, payload, parent: None, content_keys: vec![content], tag_keys: vec![tag], comments: vec![] });
                }
                c.expect_punct(";")?;
                of.defs.push(Def::Enum(EDef { name, generics, algebraic: true, variants, tag_facets: vec![], content_facets: vec![], comments: vec![] }));
            } else if c.is_punct(";") {
                // `export type E = ;` — an enum whose variants were all removed: not a TypeScript declaration
                return c.err("type alias without a right-hand side");
            } else {
                let t = ty(&mut c)?;
                let mut opt = OptMark::default();
                let mut t = t;
                while c.accept_punct("|") {
                    if c.accept_word("undefined") {
                        opt.optional = true;
                    } else if c.accept_word("null") {
                        opt.nullable = true;
                    } else {
                        let rest = raw_until_semicolon(&mut c)?;
                        t = TT::Raw(format!("{} | {}", t.show(), rest));
                        break;
                    }
                }
                c.expect_punct(";")?;
                of.defs.push(Def::Alias(ADef { name, generics, ty: t, opt, comments: vec![] }));
            }
        } else {
            return c.err("expected interface / type / enum / const after export");
        }
    }
    Ok(of)
}

fn type_name(c: &mut Cur) -> PResult<String> {
    let (n, _) = c.ident()?;
    // TypeScript output does not promise keyword escaping (C10 judges that only for Swift and Python)
    let _ = TS_RESERVED;
    Ok(n)
}

fn generics_decl(c: &mut Cur) -> PResult<Vec<String>> {
    let mut g = Vec::new();
    if c.accept_punct("<") {
        loop {
            g.push(c.ident()?.0);
            if !c.accept_punct(",") {
                break;
            }
        }
        c.expect_punct(">")?;
    }
    Ok(g)
}

fn key(c: &mut Cur) -> PResult<String> {
    match c.peek() {
        Some(t) if t.k == K::Str => {
            c.next();
            Ok(t.text.clone())
        }
        Some(t) if t.k == K::Ident => {
            c.next();
            Ok(t.text.clone())
        }
        _ => c.err("expected property name"),
    }
}

fn fields(c: &mut Cur) -> PResult<Vec<FDef>> {
    let mut out = Vec::new();
    while !c.is_punct("}") {
        let n_comments = c.comments.len();
        let mut readonly = false;
        if c.is_word("readonly") && !matches!(c.peek_n(1), Some(t) if t.k == K::Punct && (t.text == ":" || t.text == "?")) {
            c.next();
            readonly = true;
        }
        let k = key(c)?;
        let comments: Vec<String> = c.comments[n_comments..].iter().map(|x| x.1.clone()).collect();
        let q = c.accept_punct("?");
        c.expect_punct(":")?;
        let mut t = ty(c)?;
        let mut opt = OptMark { optional: q, ..Default::default() };
        while c.accept_punct("|") {
            if c.accept_word("null") {
                opt.nullable = true;
            } else {
                let rest = raw_until_semicolon(c)?;
                t = TT::Raw(format!("{} | {}", t.show(), rest));
                break;
            }
        }
        c.expect_punct(";")?;
        out.push(FDef { ident: k.clone(), wire: k, ty: t, opt, comments, readonly });
    }
    Ok(out)
}

fn raw_until_semicolon(c: &mut Cur) -> PResult<String> {
    let mut s = Vec::new();
    let mut depth = 0i32;
    loop {
        match c.peek() {
            Some(t) if t.k == K::Punct && t.text == ";" && depth == 0 => break,
            Some(t) if t.k == K::Punct && t.text == "}" && depth == 0 => break,
            Some(t) => {
                if t.k == K::Punct && ["(", "[", "{", "<"].contains(&t.text.as_str()) {
                    depth += 1;
                }
                if t.k == K::Punct && [")", "]", "}", ">"].contains(&t.text.as_str()) {
                    depth -= 1;
                }
                s.push(t.raw.clone());
                c.next();
            }
            None => return c.err("unterminated type"),
        }
    }
    Ok(s.join(" "))
}

pub fn ty(c: &mut Cur) -> PResult<TT> {
    let mut base = if c.accept_punct("[") {
        // tuple
        let mut elems = Vec::new();
        if !c.is_punct("]") {
            loop {
                elems.push(ty(c)?);
                if !c.accept_punct(",") {
                    break;
                }
            }
        }
        c.expect_punct("]")?;
        if elems.is_empty() {
            TT::Fixed(Box::new(TT::name("never")), 0)
        } else if elems.iter().all(|e| *e == elems[0]) {
            let n = elems.len();
            TT::Fixed(Box::new(elems.into_iter().next().unwrap()), n)
        } else {
            TT::Raw(format!("[{}]", elems.iter().map(|e| e.show()).collect::<Vec<_>>().join(", ")))
        }
    } else {
        let (n, _) = c.ident()?;
        let mut args = Vec::new();
        if c.accept_punct("<") {
            loop {
                args.push(ty(c)?);
                if !c.accept_punct(",") {
                    break;
                }
            }
            c.expect_punct(">")?;
        }
        if n == "Record" && args.len() == 2 {
            let v = args.pop().unwrap();
            let k = args.pop().unwrap();
            TT::Map(Box::new(k), Box::new(v))
        } else {
            TT::Name(n, args)
        }
    };
    while c.is_punct("[") && matches!(c.peek_n(1), Some(t) if t.k == K::Punct && t.text == "]") {
        c.next();
        c.next();
        base = TT::Seq(Box::new(base));
    }
    Ok(base)
}
