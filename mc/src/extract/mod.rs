//! Per-language extractors: generated text -> one neutral model of what the
//! target language's JSON binding would see. They double as the C10 acceptors
//! (a `SynErr`/`LexError` means "certainly malformed").
pub mod go;
pub mod kotlin;
pub mod lex;
pub mod python;
pub mod scala;
pub mod swift;
pub mod ts;

use crate::pipeline::Lang;
pub use lex::{LexError, SynErr};

/// Type tree as written in the target language, normalised over the six syntaxes.
#[derive(Clone, Debug, PartialEq, Eq, PartialOrd, Ord)]
pub enum TT {
    /// named type with arguments (primitives, user types, generic parameters)
    Name(String, Vec<TT>),
    Seq(Box<TT>),
    /// fixed-size sequence (TS tuple of n equal elements, Go [n]T)
    Fixed(Box<TT>, usize),
    Map(Box<TT>, Box<TT>),
    /// optional wrapper that is part of the type text (Kotlin/Swift `T?`, Scala Option[T], Go *T, Python Optional[T])
    Opt(Box<TT>),
    /// something the type grammar does not describe (type overrides etc.)
    Raw(String),
}

impl TT {
    pub fn name(n: &str) -> TT {
        TT::Name(n.to_string(), vec![])
    }
    pub fn show(&self) -> String {
        match self {
            TT::Name(n, a) if a.is_empty() => n.clone(),
            TT::Name(n, a) => format!("{n}<{}>", a.iter().map(|t| t.show()).collect::<Vec<_>>().join(",")),
            TT::Seq(t) => format!("Seq<{}>", t.show()),
            TT::Fixed(t, n) => format!("Fixed{n}<{}>", t.show()),
            TT::Map(k, v) => format!("Map<{},{}>", k.show(), v.show()),
            TT::Opt(t) => format!("Opt<{}>", t.show()),
            TT::Raw(s) => format!("Raw({s})"),
        }
    }
    /// all named leaves / heads, in order
    pub fn names(&self, out: &mut Vec<String>) {
        match self {
            TT::Name(n, a) => {
                out.push(n.clone());
                for t in a {
                    t.names(out);
                }
            }
            TT::Seq(t) | TT::Fixed(t, _) | TT::Opt(t) => t.names(out),
            TT::Map(k, v) => {
                k.names(out);
                v.names(out);
            }
            TT::Raw(_) => {}
        }
    }
    pub fn strip_opt(&self) -> &TT {
        match self {
            TT::Opt(t) => t,
            t => t,
        }
    }
}

#[derive(Clone, Debug, Default, PartialEq, Eq)]
pub struct OptMark {
    /// the language's "may be absent" marker on the member (TS `?`, Kotlin `= null`, Swift `?`, Scala `= None`, Go omitempty, Python default=None)
    pub optional: bool,
    /// TS `| null` / the type itself is an optional type
    pub nullable: bool,
    /// any other default (`= _` in Scala)
    pub other_default: Option<String>,
}

#[derive(Clone, Debug)]
pub struct FDef {
    /// identifier on the foreign side (backticks / quotes removed)
    pub ident: String,
    /// JSON key the foreign JSON library binds this member to
    pub wire: String,
    pub ty: TT,
    pub opt: OptMark,
    pub comments: Vec<String>,
    pub readonly: bool,
}

#[derive(Clone, Debug)]
pub enum Payload {
    None,
    /// newtype payload: type + whether marked optional
    Type(TT, bool),
    /// reference to a helper struct generated for a struct variant (name, generic args)
    Inner(TT),
    /// TS: inline object type
    Inline(Vec<FDef>),
}

#[derive(Clone, Debug)]
pub struct VDef {
    pub case_name: String,
    pub wire: String,
    pub payload: Payload,
    /// Kotlin `: Parent()`, Scala `extends Parent`, Go const type …
    pub parent: Option<TT>,
    /// every key the content is bound under for this variant (TS member key, Kotlin/Scala ctor param …)
    pub content_keys: Vec<String>,
    pub tag_keys: Vec<String>,
    pub comments: Vec<String>,
}

#[derive(Clone, Debug)]
pub struct SDef {
    pub name: String,
    pub generics: Vec<String>,
    pub fields: Vec<FDef>,
    pub comments: Vec<String>,
}

#[derive(Clone, Debug)]
pub struct EDef {
    pub name: String,
    pub generics: Vec<String>,
    pub algebraic: bool,
    pub variants: Vec<VDef>,
    /// every occurrence of the tag key outside the variants (facet name, key)
    pub tag_facets: Vec<(String, String)>,
    pub content_facets: Vec<(String, String)>,
    pub comments: Vec<String>,
}

#[derive(Clone, Debug)]
pub struct ADef {
    pub name: String,
    pub generics: Vec<String>,
    pub ty: TT,
    pub opt: OptMark,
    pub comments: Vec<String>,
}

#[derive(Clone, Debug)]
pub struct CDef {
    pub name: String,
    pub ty: TT,
    pub value: String,
}

#[derive(Clone, Debug)]
pub enum Def {
    Struct(SDef),
    Enum(EDef),
    Alias(ADef),
    Const(CDef),
}

impl Def {
    pub fn name(&self) -> &str {
        match self {
            Def::Struct(s) => &s.name,
            Def::Enum(e) => &e.name,
            Def::Alias(a) => &a.name,
            Def::Const(c) => &c.name,
        }
    }
    pub fn kind(&self) -> &'static str {
        match self {
            Def::Struct(_) => "struct",
            Def::Enum(_) => "enum",
            Def::Alias(_) => "alias",
            Def::Const(_) => "const",
        }
    }
}

#[derive(Clone, Debug, Default)]
pub struct OutFile {
    pub header: Option<String>,
    pub package: Option<String>,
    /// (module/path, imported names)
    pub imports: Vec<(String, Vec<String>)>,
    pub defs: Vec<Def>,
    /// helper names this file defines (CodableVoid, UByte…, TypeVars, serialize_* …)
    pub helper_defs: Vec<String>,
    /// all comment tokens
    pub comments: Vec<String>,
    /// additional names defined that are neither helpers nor defs (Go key types, accessors …)
    pub aux_names: Vec<String>,
    /// TypeScript: the wire keys the generated `ReviverFunc` turns into `Date` (None: no reviver in the file)
    pub reviver_keys: Option<Vec<String>>,
}

impl OutFile {
    pub fn find(&self, name: &str) -> Option<&Def> {
        self.defs.iter().find(|d| d.name() == name)
    }
    pub fn structs(&self) -> impl Iterator<Item = &SDef> {
        self.defs.iter().filter_map(|d| if let Def::Struct(s) = d { Some(s) } else { None })
    }
    pub fn enums(&self) -> impl Iterator<Item = &EDef> {
        self.defs.iter().filter_map(|d| if let Def::Enum(s) = d { Some(s) } else { None })
    }
}

#[derive(Debug, Clone)]
pub enum ExtractError {
    Lex(LexError),
    Syn(SynErr),
}

impl ExtractError {
    pub fn line(&self) -> u32 {
        match self {
            ExtractError::Lex(e) => e.line,
            ExtractError::Syn(e) => e.line,
        }
    }
    pub fn msg(&self) -> String {
        match self {
            ExtractError::Lex(e) => format!("lexical: {}", e.msg),
            ExtractError::Syn(e) => format!("syntax: {}", e.msg),
        }
    }
    /// message without the offending token text (for signatures)
    pub fn class(&self) -> String {
        let m = self.msg();
        m.split(" (at `").next().unwrap_or(&m).to_string()
    }
}

pub fn extract(lang: Lang, text: &str) -> Result<OutFile, ExtractError> {
    let toks = lex::lex(lang, text).map_err(ExtractError::Lex)?;
    lex::check_balanced(&toks).map_err(ExtractError::Syn)?;
    let r = match lang {
        Lang::TypeScript => ts::parse(&toks),
        Lang::Kotlin => kotlin::parse(&toks),
        Lang::Swift => swift::parse(&toks),
        Lang::Scala => scala::parse(&toks),
        Lang::Go => go::parse(&toks),
        Lang::Python => python::parse(&toks),
    };
    let mut of = r.map_err(ExtractError::Syn)?;
    of.comments = toks.iter().filter(|t| t.k == lex::K::Comment).map(|t| t.raw.clone()).collect();
    Ok(of)
}

/// Code tokens with comments (and Python docstrings) removed — for the C15 differential oracle.
pub fn code_tokens(lang: Lang, text: &str) -> Result<(Vec<String>, Vec<String>), ExtractError> {
    let toks = lex::lex(lang, text).map_err(ExtractError::Lex)?;
    let mut code = Vec::new();
    let mut comments = Vec::new();
    let mut prev_sig_is_line_start = true;
    for (i, t) in toks.iter().enumerate() {
        match t.k {
            lex::K::Comment => comments.push(t.raw.clone()),
            lex::K::Newline => {
                prev_sig_is_line_start = true;
                if lang == Lang::Python || lang == Lang::Go {
                    // newlines are significant; collapse runs
                    if code.last().map(|s: &String| s != "\n").unwrap_or(false) {
                        code.push("\n".to_string());
                    }
                }
            }
            lex::K::Str if lang == Lang::Python && prev_sig_is_line_start && {
                // a string that is a whole statement is a docstring
                let next = toks[i + 1..].iter().find(|x| x.k != lex::K::Comment);
                next.map(|n| n.k == lex::K::Newline).unwrap_or(true)
            } =>
            {
                comments.push(t.raw.clone());
            }
            _ => {
                prev_sig_is_line_start = false;
                code.push(if t.k == lex::K::Str { format!("\"{}\"", t.text) } else { t.raw.clone() });
            }
        }
    }
    Ok((code, comments))
}
