//! Shared tokenizer for the six target languages (just enough lexical structure
//! to find comments, strings, identifiers and punctuation reliably).
use crate::pipeline::Lang;

#[derive(Clone, Debug, PartialEq, Eq)]
pub enum K {
    Ident,
    Num,
    /// string literal; `text` is the decoded value, `raw` the source slice
    Str,
    /// Go raw string (backticks) / Swift+Kotlin backticked identifier come out as RawStr / Ident respectively
    RawStr,
    Punct,
    Comment,
    Newline,
}

#[derive(Clone, Debug)]
pub struct Tok {
    pub k: K,
    pub text: String,
    pub raw: String,
    pub line: u32,
    /// true for Python triple-quoted strings
    pub triple: bool,
    /// column of the first character (used for Python indentation)
    pub col: u32,
}

#[derive(Debug, Clone)]
pub struct LexError {
    pub msg: String,
    pub line: u32,
}

pub struct LexCfg {
    pub line_comment: &'static [&'static str],
    pub block_comment: bool,
    pub nested_block: bool,
    pub backtick_ident: bool,
    pub backtick_raw_string: bool,
    pub triple_quotes: bool,
    pub single_quote_strings: bool,
}

pub fn cfg_for(lang: Lang) -> LexCfg {
    match lang {
        Lang::TypeScript => LexCfg { line_comment: &["//"], block_comment: true, nested_block: false, backtick_ident: false, backtick_raw_string: true, triple_quotes: false, single_quote_strings: true },
        Lang::Kotlin => LexCfg { line_comment: &["//"], block_comment: true, nested_block: true, backtick_ident: true, backtick_raw_string: false, triple_quotes: true, single_quote_strings: false },
        Lang::Swift => LexCfg { line_comment: &["//"], block_comment: true, nested_block: true, backtick_ident: true, backtick_raw_string: false, triple_quotes: true, single_quote_strings: false },
        Lang::Scala => LexCfg { line_comment: &["//"], block_comment: true, nested_block: true, backtick_ident: true, backtick_raw_string: false, triple_quotes: true, single_quote_strings: false },
        Lang::Go => LexCfg { line_comment: &["//"], block_comment: true, nested_block: false, backtick_ident: false, backtick_raw_string: true, triple_quotes: false, single_quote_strings: false },
        Lang::Python => LexCfg { line_comment: &["#"], block_comment: false, nested_block: false, backtick_ident: false, backtick_raw_string: false, triple_quotes: true, single_quote_strings: true },
    }
}

fn is_ident_start(c: char) -> bool {
    c == '_' || c == '$' || c.is_alphabetic()
}
fn is_ident_cont(c: char) -> bool {
    c == '_' || c == '$' || c.is_alphanumeric()
}

/// Tokenize; comments are kept as tokens. Errors on unterminated comment / string.
pub fn lex(lang: Lang, src: &str) -> Result<Vec<Tok>, LexError> {
    let cfg = cfg_for(lang);
    let cs: Vec<char> = src.chars().collect();
    let mut i = 0usize;
    let mut line = 1u32;
    let mut line_start = 0usize;
    let mut out = Vec::new();
    let starts = |i: usize, pat: &str| -> bool {
        let p: Vec<char> = pat.chars().collect();
        i + p.len() <= cs.len() && cs[i..i + p.len()] == p[..]
    };
    while i < cs.len() {
        let c = cs[i];
        let col = (i - line_start) as u32;
        if c == '\n' {
            out.push(Tok { k: K::Newline, text: "\n".into(), raw: "\n".into(), line, triple: false, col });
            i += 1;
            line += 1;
            line_start = i;
            continue;
        }
        if c == ' ' || c == '\t' || c == '\r' {
            i += 1;
            continue;
        }
        // comments
        if let Some(lc) = cfg.line_comment.iter().find(|p| starts(i, p)) {
            let st = i;
            while i < cs.len() && cs[i] != '\n' {
                i += 1;
            }
            let raw: String = cs[st..i].iter().collect();
            out.push(Tok { k: K::Comment, text: raw[lc.len()..].to_string(), raw, line, triple: false, col });
            continue;
        }
        if cfg.block_comment && starts(i, "/*") {
            let st = i;
            let l0 = line;
            let mut depth = 1;
            i += 2;
            while i < cs.len() && depth > 0 {
                if starts(i, "*/") {
                    depth -= 1;
                    i += 2;
                } else if cfg.nested_block && starts(i, "/*") {
                    depth += 1;
                    i += 2;
                } else {
                    if cs[i] == '\n' {
                        line += 1;
                        line_start = i + 1;
                    }
                    i += 1;
                }
            }
            if depth > 0 {
                return Err(LexError { msg: "unterminated block comment".into(), line: l0 });
            }
            let raw: String = cs[st..i].iter().collect();
            out.push(Tok { k: K::Comment, text: raw.clone(), raw, line: l0, triple: false, col });
            continue;
        }
        // strings
        if c == '"' || (c == '\'' && cfg.single_quote_strings) {
            let q = c;
            let l0 = line;
            let st = i;
            if cfg.triple_quotes && i + 2 < cs.len() && cs[i + 1] == q && cs[i + 2] == q {
                i += 3;
                let mut val = String::new();
                let mut closed = false;
                while i < cs.len() {
                    if cs[i] == '\\' && lang == Lang::Python && i + 1 < cs.len() {
                        val.push(cs[i]);
                        val.push(cs[i + 1]);
                        if cs[i + 1] == '\n' {
                            line += 1;
                            line_start = i + 2;
                        }
                        i += 2;
                        continue;
                    }
                    if cs[i] == q && i + 2 < cs.len() && cs[i + 1] == q && cs[i + 2] == q {
                        closed = true;
                        i += 3;
                        break;
                    }
                    if cs[i] == '\n' {
                        line += 1;
                        line_start = i + 1;
                    }
                    val.push(cs[i]);
                    i += 1;
                }
                if !closed {
                    return Err(LexError { msg: "unterminated triple-quoted string".into(), line: l0 });
                }
                let raw: String = cs[st..i].iter().collect();
                out.push(Tok { k: K::Str, text: val, raw, line: l0, triple: true, col });
                continue;
            }
            i += 1;
            let mut val = String::new();
            let mut closed = false;
            while i < cs.len() {
                let d = cs[i];
                if d == '\\' {
                    if i + 1 >= cs.len() {
                        break;
                    }
                    let e = cs[i + 1];
                    match e {
                        'n' => val.push('\n'),
                        't' => val.push('\t'),
                        'r' => val.push('\r'),
                        '0' => val.push('\0'),
                        '\\' => val.push('\\'),
                        '"' => val.push('"'),
                        '\'' => val.push('\''),
                        'u' => {
                            // \u{XXXX} (Rust Debug / Swift / Kotlin) or \uXXXX
                            if i + 2 < cs.len() && cs[i + 2] == '{' {
                                // the braced form is an escape in Swift and TypeScript only; Kotlin, Scala, Go and Python
                                // have \uXXXX, and reject (or take literally) a brace after \u
                                if !matches!(lang, Lang::Swift | Lang::TypeScript) {
                                    return Err(LexError { msg: "`\\u{` is not a unicode escape of this language".into(), line: l0 });
                                }
                                let mut j = i + 3;
                                let mut hex = String::new();
                                while j < cs.len() && cs[j] != '}' {
                                    hex.push(cs[j]);
                                    j += 1;
                                }
                                if let Some(ch) = u32::from_str_radix(&hex, 16).ok().and_then(char::from_u32) {
                                    val.push(ch);
                                }
                                i = j + 1;
                                continue;
                            } else {
                                let hex: String = cs[(i + 2).min(cs.len())..(i + 6).min(cs.len())].iter().collect();
                                if let Some(ch) = u32::from_str_radix(&hex, 16).ok().and_then(char::from_u32) {
                                    val.push(ch);
                                }
                                i += 6;
                                continue;
                            }
                        }
                        '\n' => {
                            // line continuation inside a string: only legal in Python / TS
                            if !(lang == Lang::Python || lang == Lang::TypeScript) {
                                return Err(LexError { msg: "newline in string literal".into(), line: l0 });
                            }
                            line += 1;
                            line_start = i + 2;
                        }
                        other => {
                            val.push('\\');
                            val.push(other);
                        }
                    }
                    i += 2;
                    continue;
                }
                if d == '\n' {
                    return Err(LexError { msg: "unterminated string literal (newline)".into(), line: l0 });
                }
                if d == q {
                    closed = true;
                    i += 1;
                    break;
                }
                val.push(d);
                i += 1;
            }
            if !closed {
                return Err(LexError { msg: "unterminated string literal".into(), line: l0 });
            }
            let raw: String = cs[st..i].iter().collect();
            out.push(Tok { k: K::Str, text: val, raw, line: l0, triple: false, col });
            continue;
        }
        if c == '`' {
            let st = i;
            let l0 = line;
            i += 1;
            let mut val = String::new();
            let mut closed = false;
            while i < cs.len() {
                if cs[i] == '`' {
                    closed = true;
                    i += 1;
                    break;
                }
                if cs[i] == '\n' {
                    if cfg.backtick_ident {
                        break;
                    }
                    line += 1;
                    line_start = i + 1;
                }
                val.push(cs[i]);
                i += 1;
            }
            if !closed {
                return Err(LexError { msg: "unterminated backtick literal".into(), line: l0 });
            }
            let raw: String = cs[st..i].iter().collect();
            let k = if cfg.backtick_ident { K::Ident } else { K::RawStr };
            if !(cfg.backtick_ident || cfg.backtick_raw_string) {
                return Err(LexError { msg: "backtick is not a token of this language".into(), line: l0 });
            }
            out.push(Tok { k, text: val, raw, line: l0, triple: false, col });
            continue;
        }
        if is_ident_start(c) {
            let st = i;
            while i < cs.len() && is_ident_cont(cs[i]) {
                i += 1;
            }
            let raw: String = cs[st..i].iter().collect();
            out.push(Tok { k: K::Ident, text: raw.clone(), raw, line, triple: false, col });
            continue;
        }
        if c.is_ascii_digit() {
            let st = i;
            while i < cs.len() && (cs[i].is_ascii_alphanumeric() || cs[i] == '.' || cs[i] == '_') {
                i += 1;
            }
            let raw: String = cs[st..i].iter().collect();
            out.push(Tok { k: K::Num, text: raw.clone(), raw, line, triple: false, col });
            continue;
        }
        if c == '\'' {
            // char literal / stray quote in a language without single-quoted strings
            return Err(LexError { msg: "stray single quote".into(), line });
        }
        // multi-char punctuation we care about
        let two: String = cs[i..(i + 2).min(cs.len())].iter().collect();
        if ["=>", "->", "==", "&&", "||", "<=", ">=", "!=", "?.", "::"].contains(&two.as_str()) {
            // "::" is not used by generated code but harmless
            if two == "=>" || two == "->" || two == "==" || two == "&&" || two == "||" || two == "<=" || two == ">=" || two == "!=" {
                out.push(Tok { k: K::Punct, text: two.clone(), raw: two, line, triple: false, col });
                i += 2;
                continue;
            }
        }
        if c.is_control() {
            return Err(LexError { msg: format!("control character U+{:04X} in code", c as u32), line });
        }
        out.push(Tok { k: K::Punct, text: c.to_string(), raw: c.to_string(), line, triple: false, col });
        i += 1;
    }
    Ok(out)
}

/// Token cursor with helpers used by the recursive-descent parsers.
pub struct Cur<'a> {
    pub toks: &'a [Tok],
    pub pos: usize,
    /// skip Newline tokens transparently
    pub skip_nl: bool,
    pub comments: Vec<(u32, String)>,
}

#[derive(Debug, Clone)]
pub struct SynErr {
    pub msg: String,
    pub line: u32,
}

pub type PResult<T> = Result<T, SynErr>;

impl<'a> Cur<'a> {
    pub fn new(toks: &'a [Tok], skip_nl: bool) -> Self {
        Cur { toks, pos: 0, skip_nl, comments: Vec::new() }
    }
    fn skip_trivia(&mut self) {
        while self.pos < self.toks.len() {
            match self.toks[self.pos].k {
                K::Comment => {
                    self.comments.push((self.toks[self.pos].line, self.toks[self.pos].raw.clone()));
                    self.pos += 1;
                }
                K::Newline if self.skip_nl => self.pos += 1,
                _ => break,
            }
        }
    }
    pub fn peek(&mut self) -> Option<&'a Tok> {
        self.skip_trivia();
        self.toks.get(self.pos)
    }
    pub fn peek_n(&mut self, n: usize) -> Option<&'a Tok> {
        self.skip_trivia();
        let mut p = self.pos;
        let mut k = 0;
        while p < self.toks.len() {
            let t = &self.toks[p];
            let trivia = t.k == K::Comment || (t.k == K::Newline && self.skip_nl);
            if !trivia {
                if k == n {
                    return Some(t);
                }
                k += 1;
            }
            p += 1;
        }
        None
    }
    pub fn line(&mut self) -> u32 {
        self.peek().map(|t| t.line).unwrap_or_else(|| self.toks.last().map(|t| t.line).unwrap_or(0))
    }
    pub fn next(&mut self) -> Option<&'a Tok> {
        self.skip_trivia();
        let t = self.toks.get(self.pos);
        if t.is_some() {
            self.pos += 1;
        }
        t
    }
    pub fn at_end(&mut self) -> bool {
        self.peek().is_none()
    }
    pub fn err<T>(&mut self, msg: impl Into<String>) -> PResult<T> {
        let line = self.line();
        let got = self.peek().map(|t| t.raw.clone()).unwrap_or_else(|| "<eof>".into());
        Err(SynErr { msg: format!("{} (at `{}`)", msg.into(), got.chars().take(30).collect::<String>()), line })
    }
    pub fn is_punct(&mut self, p: &str) -> bool {
        matches!(self.peek(), Some(t) if t.k == K::Punct && t.text == p)
    }
    pub fn is_word(&mut self, w: &str) -> bool {
        matches!(self.peek(), Some(t) if t.k == K::Ident && t.text == w && !t.raw.starts_with('`'))
    }
    pub fn accept_punct(&mut self, p: &str) -> bool {
        if self.is_punct(p) {
            self.pos += 1;
            true
        } else {
            false
        }
    }
    pub fn accept_word(&mut self, w: &str) -> bool {
        if self.is_word(w) {
            self.pos += 1;
            true
        } else {
            false
        }
    }
    pub fn expect_punct(&mut self, p: &str) -> PResult<()> {
        if self.accept_punct(p) {
            Ok(())
        } else {
            self.err(format!("expected `{p}`"))
        }
    }
    pub fn expect_word(&mut self, w: &str) -> PResult<()> {
        if self.accept_word(w) {
            Ok(())
        } else {
            self.err(format!("expected `{w}`"))
        }
    }
    /// identifier token; returns (text, was_backticked)
    pub fn ident(&mut self) -> PResult<(String, bool)> {
        match self.peek() {
            Some(t) if t.k == K::Ident => {
                self.pos += 1;
                Ok((t.text.clone(), t.raw.starts_with('`')))
            }
            _ => self.err("expected identifier"),
        }
    }
    pub fn string(&mut self) -> PResult<String> {
        match self.peek() {
            Some(t) if t.k == K::Str => {
                self.pos += 1;
                Ok(t.text.clone())
            }
            _ => self.err("expected string literal"),
        }
    }
    /// Skip a balanced block starting at an opening delimiter; returns the tokens inside.
    pub fn balanced(&mut self, open: &str, close: &str) -> PResult<Vec<&'a Tok>> {
        self.expect_punct(open)?;
        let mut depth = 1;
        let mut inner = Vec::new();
        loop {
            let save = self.skip_nl;
            self.skip_nl = true;
            let t = self.next();
            self.skip_nl = save;
            let Some(t) = t else { return self.err(format!("unbalanced `{open}`")) };
            if t.k == K::Punct {
                if t.text == open {
                    depth += 1;
                } else if t.text == close {
                    depth -= 1;
                    if depth == 0 {
                        return Ok(inner);
                    }
                }
            }
            inner.push(t);
        }
    }
}

/// All delimiters balanced and properly nested over the whole token stream.
pub fn check_balanced(toks: &[Tok]) -> Result<(), SynErr> {
    let mut stack: Vec<(char, u32)> = Vec::new();
    for t in toks {
        if t.k != K::Punct {
            continue;
        }
        let c = t.text.chars().next().unwrap();
        match c {
            '(' | '[' | '{' => stack.push((c, t.line)),
            ')' | ']' | '}' => {
                let want = match c {
                    ')' => '(',
                    ']' => '[',
                    _ => '{',
                };
                match stack.pop() {
                    Some((o, _)) if o == want => {}
                    Some((o, l)) => return Err(SynErr { msg: format!("`{c}` closes `{o}` opened on line {l}"), line: t.line }),
                    None => return Err(SynErr { msg: format!("unmatched `{c}`"), line: t.line }),
                }
            }
            _ => {}
        }
    }
    if let Some((o, l)) = stack.pop() {
        return Err(SynErr { msg: format!("`{o}` never closed"), line: l });
    }
    Ok(())
}
