//! Go: acceptor + extractor for the declaration subset typeshare emits.
use super::lex::{Cur, PResult, Tok, K};
use super::*;

const GO_KEYWORDS: &[&str] = &[
    "break", "case", "chan", "const", "continue", "default", "defer", "else", "fallthrough", "for", "func", "go", "goto", "if", "import",
    "interface", "map", "package", "range", "return", "select", "struct", "switch", "type", "var",
];

#[derive(Debug)]
enum Top {
    TypeStruct { name: String, generics: Vec<String>, fields: Vec<GoField> },
    TypeOther { name: String, ty: TT },
    ConstGroup(Vec<(String, String, String)>), // (ident, type, value)
    Const(CDef),
    Func { recv: Option<String>, name: String, tags: Vec<(String, String)>, cases: Vec<(String, Option<TT>)> },
}

#[derive(Debug, Clone)]
struct GoField {
    name: String,
    ty: TT,
    tag: Option<String>,
}

fn parse_tag(tag: &str) -> Option<(String, bool)> {
    // json:"key[,omitempty]"
    let rest = tag.strip_prefix("json:\"")?;
    let rest = rest.strip_suffix('"')?;
    // the key was written with Rust's {:?} escaping
    let mut key = String::new();
    let mut cs = rest.chars().peekable();
    while let Some(c) = cs.next() {
        if c == '\\' {
            match cs.next() {
                Some('"') => key.push('"'),
                Some('\\') => key.push('\\'),
                Some('n') => key.push('\n'),
                Some('t') => key.push('\t'),
                Some(o) => {
                    key.push('\\');
                    key.push(o)
                }
                None => key.push('\\'),
            }
        } else {
            key.push(c);
        }
    }
    if let Some(k) = key.strip_suffix(",omitempty") {
        Some((k.to_string(), true))
    } else {
        Some((key, false))
    }
}

pub fn parse(toks: &[Tok]) -> PResult<OutFile> {
    let mut c = Cur::new(toks, true);
    let mut of = OutFile::default();
    c.expect_word("package")?;
    let (pkg, _) = c.ident()?;
    if GO_KEYWORDS.contains(&pkg.as_str()) {
        return c.err("keyword used as package name");
    }
    of.package = Some(pkg);
    let mut tops: Vec<Top> = Vec::new();
    while !c.at_end() {
        if c.accept_word("import") {
            if c.accept_punct("(") {
                while !c.is_punct(")") {
                    let p = c.string()?;
                    of.imports.push((p, vec![]));
                }
                c.expect_punct(")")?;
            } else {
                let p = c.string()?;
                of.imports.push((p, vec![]));
            }
            continue;
        }
        if c.accept_word("type") {
            let (name, _) = c.ident()?;
            if GO_KEYWORDS.contains(&name.as_str()) {
                return c.err("keyword used as type name");
            }
            // generics: `[T any, U any]` — distinguish from array type `[3]T` / slice `[]T`
            let mut generics = Vec::new();
            if c.is_punct("[") && matches!(c.peek_n(1), Some(t) if t.k == K::Ident) && matches!(c.peek_n(2), Some(t) if t.k == K::Ident && t.text == "any") {
                c.next();
                loop {
                    let (g, _) = c.ident()?;
                    c.expect_word("any")?;
                    generics.push(g);
                    if !c.accept_punct(",") {
                        break;
                    }
                }
                c.expect_punct("]")?;
            }
            if c.is_word("struct") && matches!(c.peek_n(1), Some(t) if t.k == K::Punct && t.text == "{") {
                c.next();
                c.expect_punct("{")?;
                let mut fields = Vec::new();
                while !c.is_punct("}") {
                    let (fname, _) = c.ident()?;
                    let t = ty(&mut c)?;
                    let tag = match c.peek() {
                        Some(tk) if tk.k == K::RawStr => {
                            c.next();
                            Some(tk.text.clone())
                        }
                        _ => None,
                    };
                    fields.push(GoField { name: fname, ty: t, tag });
                }
                c.expect_punct("}")?;
                tops.push(Top::TypeStruct { name, generics, fields });
            } else {
                let t = ty(&mut c)?;
                tops.push(Top::TypeOther { name, ty: t });
            }
            continue;
        }
        if c.accept_word("const") {
            if c.accept_punct("(") {
                let mut group = Vec::new();
                while !c.is_punct(")") {
                    let (id, _) = c.ident()?;
                    let (t, _) = c.ident()?;
                    c.expect_punct("=")?;
                    let v = c.string()?;
                    group.push((id, t, v));
                }
                c.expect_punct(")")?;
                tops.push(Top::ConstGroup(group));
            } else {
                let (id, _) = c.ident()?;
                let t = ty(&mut c)?;
                c.expect_punct("=")?;
                let neg = c.accept_punct("-");
                let v = match c.next() {
                    Some(t) if t.k == K::Num => t.text.clone(),
                    _ => return c.err("expected integer literal"),
                };
                tops.push(Top::Const(CDef { name: id, ty: t, value: if neg { format!("-{v}") } else { v } }));
            }
            continue;
        }
        if c.accept_word("func") {
            let mut recv = None;
            if c.is_punct("(") {
                let inner = c.balanced("(", ")")?;
                recv = inner.iter().rev().find(|t| t.k == K::Ident).map(|t| t.text.clone());
            }
            let (name, _) = c.ident()?;
            c.balanced("(", ")")?;
            // return type: none, a parenthesised list, or one type
            if !c.is_punct("{") {
                if c.is_punct("(") {
                    c.balanced("(", ")")?;
                } else {
                    ty(&mut c)?;
                }
            }
            let body = c.balanced("{", "}")?;
            let mut tags = Vec::new();
            let mut cases = Vec::new();
            let mut i = 0;
            while i < body.len() {
                let t = body[i];
                if t.k == K::RawStr {
                    // preceding identifier sequence: field name is two idents (or ident + qualified type) back; we only need the first ident of the line
                    let mut j = i;
                    let mut first_ident = String::new();
                    while j > 0 {
                        j -= 1;
                        if body[j].line != t.line {
                            break;
                        }
                        if body[j].k == K::Ident {
                            first_ident = body[j].text.clone();
                        }
                    }
                    tags.push((first_ident, t.text.clone()));
                }
                if t.k == K::Ident && t.text == "case" && i + 2 < body.len() && body[i + 1].k == K::Ident && body[i + 2].text == ":" {
                    let label = body[i + 1].text.clone();
                    // `var res T` or `return nil`
                    let mut payload = None;
                    if i + 4 < body.len() && body[i + 3].text == "var" && body[i + 4].text == "res" {
                        let slice: Vec<Tok> = body[i + 5..].iter().take_while(|x| x.line == body[i + 4].line).map(|x| (*x).clone()).collect();
                        let mut sub = Cur::new(&slice, true);
                        payload = Some(ty(&mut sub)?);
                        if !sub.at_end() {
                            return Err(SynErr { msg: "trailing tokens after `var res <type>`".into(), line: body[i + 4].line });
                        }
                    }
                    cases.push((label, payload));
                }
                i += 1;
            }
            tops.push(Top::Func { recv, name, tags, cases });
            continue;
        }
        return c.err("expected top-level declaration");
    }
    assemble(tops, &mut of)?;
    Ok(of)
}

fn assemble(tops: Vec<Top>, of: &mut OutFile) -> PResult<()> {
    let mut i = 0;
    while i < tops.len() {
        match &tops[i] {
            Top::TypeOther { name, ty } if *ty == TT::name("string") && matches!(tops.get(i + 1), Some(Top::ConstGroup(g)) if g.iter().all(|x| &x.1 == name)) => {
                let Some(Top::ConstGroup(group)) = tops.get(i + 1) else { unreachable!() };
                // unit enum, or the key type of an algebraic enum (then a struct with a field of this type follows)
                if let Some(Top::TypeStruct { name: sname, fields, .. }) = tops.get(i + 2) {
                    if fields.len() == 2 && fields[0].ty == TT::Name(name.clone(), vec![]) && fields[1].tag.is_none() {
                        // algebraic enum
                        let mut e = EDef { name: sname.clone(), generics: vec![], algebraic: true, variants: vec![], tag_facets: vec![], content_facets: vec![], comments: vec![] };
                        if let Some((k, _)) = fields[0].tag.as_deref().and_then(parse_tag) {
                            e.tag_facets.push(("struct-field".into(), k));
                        } else {
                            return Err(SynErr { msg: "tag field without json tag".into(), line: 0 });
                        }
                        let mut cases: Vec<(String, Option<TT>)> = Vec::new();
                        let mut j = i + 3;
                        while let Some(Top::Func { recv, name: fname, tags, cases: cs }) = tops.get(j) {
                            if recv.as_deref() == Some(sname.as_str()) || (recv.is_none() && fname.starts_with("New")) {
                                if fname == "UnmarshalJSON" || fname == "MarshalJSON" {
                                    for (field, tag) in tags {
                                        if let Some((k, _)) = parse_tag(tag) {
                                            if field == "Tag" {
                                                e.tag_facets.push((format!("{fname}.Tag"), k));
                                            } else if field == "Content" {
                                                e.content_facets.push((format!("{fname}.Content"), k));
                                            }
                                        }
                                    }
                                    if fname == "UnmarshalJSON" {
                                        cases = cs.clone();
                                    }
                                }
                                of.aux_names.push(fname.clone());
                                j += 1;
                            } else {
                                break;
                            }
                        }
                        for (id, t, v) in group {
                            let payload = match cases.iter().find(|c| &c.0 == id) {
                                Some((_, Some(t))) => {
                                    if let TT::Name(n, _) = t {
                                        if n.ends_with("Inner") {
                                            Payload::Inner(t.clone())
                                        } else {
                                            Payload::Type(t.clone(), false)
                                        }
                                    } else {
                                        Payload::Type(t.clone(), false)
                                    }
                                }
                                Some((_, None)) => Payload::None,
                                None => return Err(SynErr { msg: format!("variant constant {id} has no decode case"), line: 0 }),
                            };
                            e.variants.push(VDef { case_name: id.clone(), wire: v.clone(), payload, parent: Some(TT::name(t)), content_keys: vec![], tag_keys: vec![], comments: vec![] });
                        }
                        if cases.len() != group.len() {
                            return Err(SynErr { msg: format!("{} decode cases for {} variant constants", cases.len(), group.len()), line: 0 });
                        }
                        of.aux_names.push(name.clone());
                        of.defs.push(Def::Enum(e));
                        i = j;
                        continue;
                    }
                }
                let variants = group
                    .iter()
                    .map(|(id, t, v)| VDef { case_name: id.clone(), wire: v.clone(), payload: Payload::None, parent: Some(TT::name(t)), content_keys: vec![], tag_keys: vec![], comments: vec![] })
                    .collect();
                of.defs.push(Def::Enum(EDef { name: name.clone(), generics: vec![], algebraic: false, variants, tag_facets: vec![], content_facets: vec![], comments: vec![] }));
                i += 2;
            }
            Top::TypeOther { name, ty } => {
                of.defs.push(Def::Alias(ADef { name: name.clone(), generics: vec![], ty: ty.clone(), opt: OptMark::default(), comments: vec![] }));
                i += 1;
            }
            Top::TypeStruct { name, generics, fields } => {
                let mut fs = Vec::new();
                for f in fields {
                    let Some((key, omit)) = f.tag.as_deref().and_then(parse_tag) else {
                        return Err(SynErr { msg: format!("struct field {} without a json tag", f.name), line: 0 });
                    };
                    let nullable = matches!(f.ty, TT::Opt(_));
                    fs.push(FDef { ident: f.name.clone(), wire: key, ty: f.ty.clone(), opt: OptMark { optional: omit, nullable, other_default: None }, comments: vec![], readonly: false });
                }
                of.defs.push(Def::Struct(SDef { name: name.clone(), generics: generics.clone(), fields: fs, comments: vec![] }));
                i += 1;
            }
            Top::ConstGroup(_) => {
                return Err(SynErr { msg: "const group without a preceding string type".into(), line: 0 });
            }
            Top::Const(cd) => {
                of.defs.push(Def::Const(cd.clone()));
                i += 1;
            }
            Top::Func { name, .. } => {
                of.aux_names.push(name.clone());
                i += 1;
            }
        }
    }
    Ok(())
}

pub fn ty(c: &mut Cur) -> PResult<TT> {
    if c.accept_punct("*") {
        return Ok(TT::Opt(Box::new(ty(c)?)));
    }
    if c.accept_punct("[") {
        if c.accept_punct("]") {
            return Ok(TT::Seq(Box::new(ty(c)?)));
        }
        let n = match c.next() {
            Some(t) if t.k == K::Num => t.text.parse::<usize>().map_err(|_| SynErr { msg: "bad array length".into(), line: t.line })?,
            _ => return c.err("expected array length"),
        };
        c.expect_punct("]")?;
        return Ok(TT::Fixed(Box::new(ty(c)?), n));
    }
    if c.accept_word("map") {
        c.expect_punct("[")?;
        let k = ty(c)?;
        c.expect_punct("]")?;
        let v = ty(c)?;
        return Ok(TT::Map(Box::new(k), Box::new(v)));
    }
    if c.is_word("struct") || c.is_word("interface") {
        let (w, _) = c.ident()?;
        c.expect_punct("{")?;
        c.expect_punct("}")?;
        return Ok(TT::name(&format!("{w}{{}}")));
    }
    let (mut n, _) = c.ident()?;
    if GO_KEYWORDS.contains(&n.as_str()) {
        return c.err(format!("keyword `{n}` in type position"));
    }
    while c.is_punct(".") {
        c.next();
        let (m, _) = c.ident()?;
        n = format!("{n}.{m}");
    }
    let mut args = Vec::new();
    // generic instantiation Name[T, U] — not an array (array brackets precede the element type)
    if c.is_punct("[") && !matches!(c.peek_n(1), Some(t) if t.k == K::Punct && t.text == "]") && !matches!(c.peek_n(1), Some(t) if t.k == K::Num) {
        c.next();
        loop {
            args.push(ty(c)?);
            if !c.accept_punct(",") {
                break;
            }
        }
        c.expect_punct("]")?;
    }
    Ok(TT::Name(n, args))
}
