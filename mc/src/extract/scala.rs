//! Scala: acceptor + extractor for the declaration subset typeshare emits.
use super::lex::{Cur, PResult, Tok, K};
use super::*;

pub fn ty(c: &mut Cur) -> PResult<TT> {
    let (mut n, _) = c.ident()?;
    while c.is_punct(".") {
        c.next();
        n = format!("{n}.{}", c.ident()?.0);
    }
    let mut args = Vec::new();
    if c.accept_punct("[") {
        loop {
            args.push(ty(c)?);
            if !c.accept_punct(",") {
                break;
            }
        }
        c.expect_punct("]")?;
    }
    Ok(if n == "Vector" && args.len() == 1 {
        TT::Seq(Box::new(args.pop().unwrap()))
    } else if n == "Option" && args.len() == 1 {
        TT::Opt(Box::new(args.pop().unwrap()))
    } else if n == "Map" && args.len() == 2 {
        let v = args.pop().unwrap();
        let k = args.pop().unwrap();
        TT::Map(Box::new(k), Box::new(v))
    } else {
        TT::Name(n, args)
    })
}

fn generics_decl(c: &mut Cur) -> PResult<Vec<String>> {
    let mut g = Vec::new();
    if c.accept_punct("[") {
        loop {
            g.push(c.ident()?.0);
            if !c.accept_punct(",") {
                break;
            }
        }
        c.expect_punct("]")?;
    }
    Ok(g)
}

fn serial_name_body(c: &mut Cur) -> PResult<String> {
    c.expect_punct("{")?;
    c.expect_word("val")?;
    c.expect_word("serialName")?;
    c.expect_punct(":")?;
    c.expect_word("String")?;
    c.expect_punct("=")?;
    let s = c.string()?;
    c.expect_punct("}")?;
    Ok(s)
}

fn decls(c: &mut Cur, of: &mut OutFile) -> PResult<()> {
    while !c.is_punct("}") && !c.at_end() {
        if c.accept_word("type") {
            let (name, _) = c.ident()?;
            let generics = generics_decl(c)?;
            c.expect_punct("=")?;
            let t = ty(c)?;
            if ["UByte", "UShort", "UInt", "ULong"].contains(&name.as_str()) {
                of.helper_defs.push(name);
                of.aux_names.push(format!("alias:{}={}", of.helper_defs.last().unwrap(), t.show()));
                continue;
            }
            let opt = OptMark { nullable: matches!(t, TT::Opt(_)), ..Default::default() };
            of.defs.push(Def::Alias(ADef { name, generics, ty: t, opt, comments: vec![] }));
        } else if c.accept_word("class") {
            let (name, _) = c.ident()?;
            c.expect_word("extends")?;
            c.expect_word("Serializable")?;
            of.defs.push(Def::Struct(SDef { name, generics: vec![], fields: vec![], comments: vec![] }));
        } else if c.is_word("case") {
            c.next();
            c.expect_word("class")?;
            let (name, _) = c.ident()?;
            let generics = generics_decl(c)?;
            c.expect_punct("(")?;
            let mut fields = Vec::new();
            loop {
                let n0 = c.comments.len();
                let (ident, _) = c.ident()?;
                c.expect_punct(":")?;
                let t = ty(c)?;
                let mut opt = OptMark { nullable: matches!(t, TT::Opt(_)), ..Default::default() };
                if c.accept_punct("=") {
                    if c.accept_word("None") {
                        opt.optional = true;
                    } else {
                        let v = c.next().map(|t| t.raw.clone()).unwrap_or_default();
                        opt.other_default = Some(v);
                    }
                }
                let comments = c.comments[n0..].iter().map(|x| x.1.clone()).collect();
                fields.push(FDef { ident: ident.clone(), wire: ident, ty: t, opt, comments, readonly: false });
                if !c.accept_punct(",") {
                    break;
                }
            }
            c.expect_punct(")")?;
            of.defs.push(Def::Struct(SDef { name, generics, fields, comments: vec![] }));
        } else if c.accept_word("sealed") {
            c.expect_word("trait")?;
            let (name, _) = c.ident()?;
            let generics = generics_decl(c)?;
            c.expect_punct("{")?;
            c.expect_word("def")?;
            c.expect_word("serialName")?;
            c.expect_punct(":")?;
            c.expect_word("String")?;
            c.expect_punct("}")?;
            c.expect_word("object")?;
            let (oname, _) = c.ident()?;
            if oname != name {
                return c.err(format!("companion object `{oname}` does not match trait `{name}`"));
            }
            c.expect_punct("{")?;
            let mut variants = Vec::new();
            let mut algebraic = false;
            while !c.is_punct("}") {
                let n0 = c.comments.len();
                c.expect_word("case")?;
                if c.accept_word("object") {
                    let (cn, _) = c.ident()?;
                    c.expect_word("extends")?;
                    let parent = ty(c)?;
                    let wire = serial_name_body(c)?;
                    let comments = c.comments[n0..].iter().map(|x| x.1.clone()).collect();
                    variants.push(VDef { case_name: cn, wire, payload: Payload::None, parent: Some(parent), content_keys: vec![], tag_keys: vec![], comments });
                } else {
                    algebraic = true;
                    c.expect_word("class")?;
                    let (cn, _) = c.ident()?;
                    let _g = generics_decl(c)?;
                    c.expect_punct("(")?;
                    let (key, _) = c.ident()?;
                    c.expect_punct(":")?;
                    let t = ty(c)?;
                    c.expect_punct(")")?;
                    c.expect_word("extends")?;
                    let parent = ty(c)?;
                    let wire = serial_name_body(c)?;
                    let comments = c.comments[n0..].iter().map(|x| x.1.clone()).collect();
                    let payload = if matches!(&t, TT::Name(n, _) if n.ends_with("Inner")) {
                        Payload::Inner(t)
                    } else {
                        let o = matches!(t, TT::Opt(_));
                        Payload::Type(t, o)
                    };
                    variants.push(VDef { case_name: cn, wire, payload, parent: Some(parent), content_keys: vec![key], tag_keys: vec![], comments });
                }
            }
            c.expect_punct("}")?;
            of.defs.push(Def::Enum(EDef { name, generics, algebraic, variants, tag_facets: vec![], content_facets: vec![], comments: vec![] }));
        } else {
            return c.err("expected type / class / case class / sealed trait");
        }
    }
    Ok(())
}

pub fn parse(toks: &[Tok]) -> PResult<OutFile> {
    let mut c = Cur::new(toks, true);
    let mut of = OutFile::default();
    let mut pkg = String::new();
    // `package a.b` (no braces)
    if c.is_word("package") && !matches!(c.peek_n(1), Some(t) if t.k == K::Ident && t.text == "object") && !matches!(c.peek_n(2), Some(t) if t.k == K::Punct && t.text == "{") {
        c.next();
        pkg = c.ident()?.0;
        while c.accept_punct(".") {
            pkg.push('.');
            pkg.push_str(&c.ident()?.0);
        }
    }
    let mut braced = 0;
    while !c.at_end() {
        c.expect_word("package")?;
        if c.accept_word("object") {
            let (n, _) = c.ident()?;
            c.expect_punct("{")?;
            decls(&mut c, &mut of)?;
            c.expect_punct("}")?;
            if braced == 0 {
                pkg = if pkg.is_empty() { n } else { format!("{pkg}.{n}") };
            }
        } else {
            let (n, _) = c.ident()?;
            c.expect_punct("{")?;
            decls(&mut c, &mut of)?;
            c.expect_punct("}")?;
            if braced == 0 {
                pkg = if pkg.is_empty() { n } else { format!("{pkg}.{n}") };
            }
        }
        braced += 1;
    }
    of.package = Some(pkg);
    Ok(of)
}
