//! Python: structural extractor (real syntax checking of Python output is done by CPython, see py/batch_check.py).
use super::lex::{Cur, PResult, Tok, K};
use super::*;

pub const PY_KEYWORDS: &[&str] = &[
    "False", "None", "True", "and", "as", "assert", "async", "await", "break", "class", "continue", "def", "del", "elif", "else", "except",
    "finally", "for", "from", "global", "if", "import", "in", "is", "lambda", "nonlocal", "not", "or", "pass", "raise", "return", "try",
    "while", "with", "yield",
];

struct Line {
    col: u32,
    toks: Vec<Tok>,
    line: u32,
}

fn logical_lines(toks: &[Tok]) -> Vec<Line> {
    let mut out = Vec::new();
    let mut cur: Vec<Tok> = Vec::new();
    let mut depth = 0i32;
    for t in toks {
        match t.k {
            K::Comment => {}
            K::Newline => {
                if depth == 0 {
                    if !cur.is_empty() {
                        out.push(Line { col: cur[0].col, line: cur[0].line, toks: std::mem::take(&mut cur) });
                    }
                }
            }
            _ => {
                if t.k == K::Punct {
                    if ["(", "[", "{"].contains(&t.text.as_str()) {
                        depth += 1;
                    }
                    if [")", "]", "}"].contains(&t.text.as_str()) {
                        depth -= 1;
                    }
                }
                cur.push(t.clone());
            }
        }
    }
    if !cur.is_empty() {
        out.push(Line { col: cur[0].col, line: cur[0].line, toks: cur });
    }
    out
}

pub fn ty(c: &mut Cur) -> PResult<TT> {
    if let Some(t) = c.peek() {
        if t.k == K::Str {
            // forward reference written as a string
            c.next();
            return Ok(TT::name(&t.text));
        }
    }
    let (mut n, _) = c.ident()?;
    while c.is_punct(".") {
        c.next();
        n = format!("{n}.{}", c.ident()?.0);
    }
    let mut args = Vec::new();
    if c.accept_punct("[") {
        loop {
            if n == "Annotated" && !args.is_empty() {
                // metadata arguments: arbitrary expressions
                let mut depth = 0;
                loop {
                    match c.peek() {
                        Some(t) if t.k == K::Punct && (t.text == "," || t.text == "]") && depth == 0 => break,
                        Some(t) => {
                            if t.k == K::Punct && ["(", "["].contains(&t.text.as_str()) {
                                depth += 1;
                            }
                            if t.k == K::Punct && [")", "]"].contains(&t.text.as_str()) {
                                depth -= 1;
                            }
                            c.next();
                        }
                        None => return c.err("unterminated Annotated[...]"),
                    }
                }
            } else {
                args.push(ty(c)?);
            }
            if !c.accept_punct(",") {
                break;
            }
        }
        c.expect_punct("]")?;
    }
    Ok(match (n.as_str(), args.len()) {
        ("List", 1) => TT::Seq(Box::new(args.pop().unwrap())),
        ("Optional", 1) => TT::Opt(Box::new(args.pop().unwrap())),
        ("Annotated", 1) => args.pop().unwrap(),
        ("Dict", 2) => {
            let v = args.pop().unwrap();
            let k = args.pop().unwrap();
            TT::Map(Box::new(k), Box::new(v))
        }
        _ => TT::Name(n, args),
    })
}

struct PyField {
    ident: String,
    ty: TT,
    alias: Option<String>,
    default_none: bool,
    other_default: Option<String>,
}

struct PyClass {
    name: String,
    bases: Vec<TT>,
    fields: Vec<PyField>,
    members: Vec<(String, String)>,
}

fn parse_field(toks: &[Tok]) -> PResult<PyField> {
    let mut c = Cur::new(toks, true);
    let (ident, _) = c.ident()?;
    c.expect_punct(":")?;
    let t = ty(&mut c)?;
    let mut f = PyField { ident, ty: t, alias: None, default_none: false, other_default: None };
    if c.accept_punct("=") {
        if c.accept_word("Field") {
            c.expect_punct("(")?;
            while !c.is_punct(")") {
                let (k, _) = c.ident()?;
                c.expect_punct("=")?;
                if k == "alias" {
                    f.alias = Some(c.string()?);
                } else if k == "default" {
                    if c.accept_word("None") {
                        f.default_none = true;
                    } else {
                        f.other_default = c.next().map(|t| t.raw.clone());
                    }
                } else {
                    c.next();
                }
                if !c.accept_punct(",") {
                    break;
                }
            }
            c.expect_punct(")")?;
        } else {
            let mut rest = String::new();
            while let Some(t) = c.next() {
                rest.push_str(&t.raw);
            }
            f.other_default = Some(rest);
        }
    }
    if !c.at_end() {
        return c.err("trailing tokens after field");
    }
    Ok(f)
}

pub fn parse(toks: &[Tok]) -> PResult<OutFile> {
    let lines = logical_lines(toks);
    let mut of = OutFile::default();
    let mut classes: Vec<PyClass> = Vec::new();
    let mut aliases: Vec<(String, Vec<String>, Vec<Tok>, u32)> = Vec::new();
    let mut order: Vec<(char, usize)> = Vec::new(); // ('c', idx) | ('a', idx) | ('k', def idx)
    let mut i = 0;
    while i < lines.len() {
        let l = &lines[i];
        if l.col != 0 {
            return Err(SynErr { msg: "unexpected indentation at top level".into(), line: l.line });
        }
        let first = &l.toks[0];
        if first.k == K::Str && l.toks.len() == 1 {
            if of.header.is_none() && classes.is_empty() {
                of.header = Some(first.text.clone());
            }
            i += 1;
            continue;
        }
        if first.k == K::Ident && first.text == "from" {
            let mut c = Cur::new(&l.toks, true);
            c.next();
            let mut m = c.ident()?.0;
            while c.accept_punct(".") {
                m.push('.');
                m.push_str(&c.ident()?.0);
            }
            c.expect_word("import")?;
            let mut names = Vec::new();
            loop {
                names.push(c.ident()?.0);
                if !c.accept_punct(",") {
                    break;
                }
            }
            if !c.at_end() {
                return c.err("trailing tokens after import");
            }
            of.imports.push((m, names));
            i += 1;
            continue;
        }
        if first.k == K::Ident && first.text == "def" {
            let name = l.toks.get(1).map(|t| t.text.clone()).unwrap_or_default();
            of.helper_defs.push(name);
            i += 1;
            while i < lines.len() && lines[i].col > 0 {
                i += 1;
            }
            continue;
        }
        if first.k == K::Ident && first.text == "class" {
            let mut c = Cur::new(&l.toks, true);
            c.next();
            let (name, _) = c.ident()?;
            if PY_KEYWORDS.contains(&name.as_str()) {
                return Err(SynErr { msg: format!("keyword `{name}` used as class name"), line: l.line });
            }
            let mut bases = Vec::new();
            c.expect_punct("(")?;
            loop {
                bases.push(ty(&mut c)?);
                if !c.accept_punct(",") {
                    break;
                }
            }
            c.expect_punct(")")?;
            c.expect_punct(":")?;
            if !c.at_end() {
                return c.err("trailing tokens after class header");
            }
            let mut cl = PyClass { name, bases, fields: vec![], members: vec![] };
            i += 1;
            let mut body_lines = 0;
            while i < lines.len() && lines[i].col > 0 {
                let b = &lines[i];
                body_lines += 1;
                let t0 = &b.toks[0];
                if t0.k == K::Str && b.toks.len() == 1 {
                    // docstring
                } else if t0.k == K::Ident && t0.text == "pass" && b.toks.len() == 1 {
                } else if t0.k == K::Ident && t0.text == "model_config" {
                } else if b.toks.len() >= 3 && b.toks[1].k == K::Punct && b.toks[1].text == "=" && b.toks[2].k == K::Str && b.toks.len() == 3 {
                    if PY_KEYWORDS.contains(&t0.text.as_str()) {
                        return Err(SynErr { msg: format!("keyword `{}` used as enum member name", t0.text), line: b.line });
                    }
                    cl.members.push((t0.text.clone(), b.toks[2].text.clone()));
                } else if b.toks.len() >= 3 && b.toks[0].k == K::Ident && b.toks[1].text == ":" {
                    if PY_KEYWORDS.contains(&t0.text.as_str()) {
                        return Err(SynErr { msg: format!("keyword `{}` used as attribute name", t0.text), line: b.line });
                    }
                    cl.fields.push(parse_field(&b.toks)?);
                } else {
                    return Err(SynErr { msg: "unrecognised statement in class body".into(), line: b.line });
                }
                i += 1;
            }
            if body_lines == 0 {
                return Err(SynErr { msg: format!("class {} has an empty body", cl.name), line: l.line });
            }
            order.push(('c', classes.len()));
            classes.push(cl);
            continue;
        }
        // assignment forms
        if first.k == K::Ident {
            // NAME: type = int
            if l.toks.len() >= 5 && l.toks[1].text == ":" {
                let eq = l.toks.iter().position(|t| t.k == K::Punct && t.text == "=");
                if let Some(eq) = eq {
                    let mut c = Cur::new(&l.toks[2..eq], true);
                    let t = ty(&mut c)?;
                    let v: String = l.toks[eq + 1..].iter().map(|t| t.raw.clone()).collect();
                    order.push(('k', of.defs.len()));
                    of.defs.push(Def::Const(CDef { name: first.text.clone(), ty: t, value: v }));
                    i += 1;
                    continue;
                }
            }
            // X = TypeVar("X")
            if l.toks.len() >= 3 && l.toks[1].text == "=" && l.toks[2].text == "TypeVar" {
                of.helper_defs.push(format!("TypeVar:{}", first.text));
                i += 1;
                continue;
            }
            // alias: Name [ '[' generics ']' ] '=' type
            let eq = l.toks.iter().position(|t| t.k == K::Punct && t.text == "=");
            if let Some(eq) = eq {
                let mut generics = Vec::new();
                if eq > 1 {
                    for t in &l.toks[1..eq] {
                        if t.k == K::Ident {
                            generics.push(t.text.clone());
                        }
                    }
                }
                order.push(('a', aliases.len()));
                aliases.push((first.text.clone(), generics, l.toks[eq + 1..].to_vec(), l.line));
                i += 1;
                continue;
            }
        }
        return Err(SynErr { msg: "unrecognised top-level statement".into(), line: l.line });
    }
    // assemble in source order
    let mut consumed_classes: Vec<bool> = vec![false; classes.len()];
    let mut pending: Vec<(usize, Def)> = Vec::new();
    let mut const_defs: Vec<Def> = std::mem::take(&mut of.defs);
    // aliases that are algebraic enums
    let mut alias_defs: Vec<Option<Def>> = Vec::new();
    for (name, generics, rhs, line) in &aliases {
        let mut c = Cur::new(rhs, true);
        let t = ty(&mut c)?;
        if !c.at_end() {
            return Err(SynErr { msg: "trailing tokens after alias".into(), line: *line });
        }
        let members: Vec<String> = match &t {
            TT::Name(n, args) if n == "Union" => args.iter().map(|a| a.show()).collect(),
            TT::Name(n, args) if args.is_empty() => vec![n.clone()],
            _ => vec![],
        };
        let member_classes: Vec<usize> = members.iter().filter_map(|m| classes.iter().position(|c| &c.name == m)).collect();
        let is_enum = !members.is_empty()
            && member_classes.len() == members.len()
            && member_classes.iter().all(|&ci| {
                classes[ci].fields.first().map(|f| matches!(&f.ty, TT::Name(n, a) if n == "Literal" && a.len() == 1)).unwrap_or(false)
            });
        if !is_enum {
            let opt = OptMark { nullable: matches!(t, TT::Opt(_)), ..Default::default() };
            alias_defs.push(Some(Def::Alias(ADef { name: name.clone(), generics: generics.clone(), ty: t, opt, comments: vec![] })));
            continue;
        }
        let mut e = EDef { name: name.clone(), generics: generics.clone(), algebraic: true, variants: vec![], tag_facets: vec![], content_facets: vec![], comments: vec![] };
        for &ci in &member_classes {
            consumed_classes[ci] = true;
            let cl = &classes[ci];
            let tagf = &cl.fields[0];
            let TT::Name(_, a) = &tagf.ty else { unreachable!() };
            let lit = a[0].show(); // XTypes.KEY
            let (types_enum, key) = lit.rsplit_once('.').unwrap_or(("", &lit));
            let Some(te) = classes.iter().position(|c| c.name == types_enum) else {
                return Err(SynErr { msg: format!("Literal refers to unknown enum {types_enum}"), line: *line });
            };
            consumed_classes[te] = true;
            let Some((_, wire)) = classes[te].members.iter().find(|(k, _)| k == key) else {
                return Err(SynErr { msg: format!("{types_enum} has no member {key}"), line: *line });
            };
            // the default must be the same member
            if tagf.other_default.as_deref() != Some(lit.as_str()) {
                return Err(SynErr { msg: format!("tag default `{:?}` differs from Literal `{lit}`", tagf.other_default), line: *line });
            }
            let (payload, content_keys) = match cl.fields.get(1) {
                None => (Payload::None, vec![]),
                Some(f) => {
                    let p = if matches!(&f.ty, TT::Name(n, _) if n.ends_with("Inner")) {
                        Payload::Inner(f.ty.clone())
                    } else {
                        Payload::Type(f.ty.clone(), matches!(f.ty, TT::Opt(_)))
                    };
                    (p, vec![f.ident.clone()])
                }
            };
            if cl.fields.len() > 2 {
                return Err(SynErr { msg: format!("variant class {} has more than tag and content", cl.name), line: *line });
            }
            e.variants.push(VDef { case_name: cl.name.clone(), wire: wire.clone(), payload, parent: Some(TT::name(types_enum)), content_keys, tag_keys: vec![tagf.ident.clone()], comments: vec![] });
            // number of members of the Types enum must match
            if classes[te].members.len() != member_classes.len() {
                return Err(SynErr { msg: format!("{types_enum} has {} members for {} variant classes", classes[te].members.len(), member_classes.len()), line: *line });
            }
        }
        alias_defs.push(Some(Def::Enum(e)));
    }
    let mut const_iter = const_defs.drain(..);
    for (kind, idx) in order {
        match kind {
            'c' => {
                if consumed_classes[idx] {
                    continue;
                }
                let cl = &classes[idx];
                let is_enum = cl.bases.iter().any(|b| b.show() == "Enum");
                if is_enum {
                    let variants = cl
                        .members
                        .iter()
                        .map(|(k, v)| VDef { case_name: k.clone(), wire: v.clone(), payload: Payload::None, parent: None, content_keys: vec![], tag_keys: vec![], comments: vec![] })
                        .collect();
                    pending.push((0, Def::Enum(EDef { name: cl.name.clone(), generics: vec![], algebraic: false, variants, tag_facets: vec![], content_facets: vec![], comments: vec![] })));
                } else {
                    let mut generics = Vec::new();
                    for b in &cl.bases {
                        if let TT::Name(n, args) = b {
                            if n == "Generic" {
                                generics = args.iter().map(|a| a.show()).collect();
                            }
                        }
                    }
                    let fields = cl
                        .fields
                        .iter()
                        .map(|f| FDef {
                            ident: f.ident.clone(),
                            wire: f.alias.clone().unwrap_or_else(|| f.ident.clone()),
                            ty: f.ty.clone(),
                            opt: OptMark { optional: f.default_none, nullable: matches!(f.ty, TT::Opt(_)), other_default: f.other_default.clone() },
                            comments: vec![],
                            readonly: false,
                        })
                        .collect();
                    pending.push((0, Def::Struct(SDef { name: cl.name.clone(), generics, fields, comments: vec![] })));
                }
            }
            'a' => {
                if let Some(d) = alias_defs[idx].take() {
                    pending.push((0, d));
                }
            }
            _ => {
                if let Some(d) = const_iter.next() {
                    pending.push((0, d));
                }
            }
        }
    }
    drop(const_iter);
    of.defs = pending.into_iter().map(|x| x.1).collect();
    Ok(of)
}
