//! Swift: acceptor + extractor for the declaration subset typeshare emits.
use super::lex::{Cur, PResult, Tok, K};
use super::*;

/// Hard keywords that cannot be declared as names without backticks (conservative list).
pub const SWIFT_HARD_KEYWORDS: &[&str] = &[
    "class", "deinit", "enum", "extension", "func", "import", "init", "inout", "let", "operator", "protocol", "rethrows", "static", "struct",
    "subscript", "typealias", "var", "break", "case", "continue", "default", "defer", "do", "else", "fallthrough", "for", "guard", "if", "in",
    "repeat", "return", "switch", "where", "while", "as", "catch", "false", "is", "nil", "super", "self", "Self", "throw", "throws", "true",
    "try", "fileprivate", "internal", "private", "public", "Any",
];

/// a declared name: keywords must be backticked
fn decl_name(c: &mut Cur) -> PResult<String> {
    let (n, bt) = c.ident()?;
    if !bt && SWIFT_HARD_KEYWORDS.contains(&n.as_str()) {
        c.pos -= 1;
        return c.err(format!("keyword `{n}` declared as a name without backticks"));
    }
    Ok(n)
}

pub fn ty(c: &mut Cur) -> PResult<TT> {
    let mut t = if c.accept_punct("[") {
        let a = ty(c)?;
        let r = if c.accept_punct(":") {
            let b = ty(c)?;
            TT::Map(Box::new(a), Box::new(b))
        } else {
            TT::Seq(Box::new(a))
        };
        c.expect_punct("]")?;
        r
    } else {
        let (mut n, bt) = c.ident()?;
        if !bt && SWIFT_HARD_KEYWORDS.contains(&n.as_str()) && n != "Any" && n != "Self" {
            c.pos -= 1;
            return c.err(format!("keyword `{n}` used as a type name without backticks"));
        }
        while c.is_punct(".") && matches!(c.peek_n(1), Some(t) if t.k == K::Ident && t.text != "self") {
            c.next();
            n = format!("{n}.{}", c.ident()?.0);
        }
        let mut args = Vec::new();
        if c.accept_punct("<") {
            loop {
                args.push(ty(c)?);
                if !c.accept_punct(",") {
                    break;
                }
            }
            c.expect_punct(">")?;
        }
        TT::Name(n, args)
    };
    while c.accept_punct("?") {
        t = TT::Opt(Box::new(t));
    }
    Ok(t)
}

/// `<T: A & B, U: C>` -> names
fn generics_decl(c: &mut Cur) -> PResult<Vec<String>> {
    let mut g = Vec::new();
    if c.accept_punct("<") {
        loop {
            g.push(c.ident()?.0);
            if c.accept_punct(":") {
                loop {
                    ty(c)?;
                    if !c.accept_punct("&") {
                        break;
                    }
                }
            }
            if !c.accept_punct(",") {
                break;
            }
        }
        c.expect_punct(">")?;
    }
    Ok(g)
}

fn protocols(c: &mut Cur) -> PResult<Vec<String>> {
    let mut v = Vec::new();
    c.expect_punct(":")?;
    loop {
        match ty(c)? {
            TT::Name(n, _) => v.push(n),
            other => v.push(other.show()),
        }
        if !c.accept_punct(",") {
            break;
        }
    }
    Ok(v)
}

/// `enum CodingKeys: String, CodingKey, Codable { case a, b = "x" }` -> (case name, raw value)
fn coding_keys(c: &mut Cur) -> PResult<Vec<(String, String)>> {
    c.expect_word("enum")?;
    c.expect_word("CodingKeys")?;
    protocols(c)?;
    c.expect_punct("{")?;
    c.expect_word("case")?;
    let mut out = Vec::new();
    loop {
        let n = decl_name(c)?;
        let raw = if c.accept_punct("=") { c.string()? } else { n.clone() };
        out.push((n, raw));
        if !c.accept_punct(",") {
            break;
        }
    }
    c.expect_punct("}")?;
    Ok(out)
}

pub fn parse(toks: &[Tok]) -> PResult<OutFile> {
    let mut c = Cur::new(toks, true);
    let mut of = OutFile::default();
    while c.accept_word("import") {
        let (m, _) = c.ident()?;
        of.imports.push((m, vec![]));
    }
    while !c.at_end() {
        c.expect_word("public")?;
        if c.accept_word("typealias") {
            let name = decl_name(&mut c)?;
            let generics = generics_decl(&mut c)?;
            c.expect_punct("=")?;
            let t = ty(&mut c)?;
            let opt = OptMark { nullable: matches!(t, TT::Opt(_)), ..Default::default() };
            of.defs.push(Def::Alias(ADef { name, generics, ty: t, opt, comments: vec![] }));
        } else if c.accept_word("struct") {
            let name = decl_name(&mut c)?;
            let generics = generics_decl(&mut c)?;
            let protos = protocols(&mut c)?;
            c.expect_punct("{")?;
            if name == "CodableVoid" {
                c.expect_punct("}")?;
                of.helper_defs.push(name);
                continue;
            }
            if !protos.iter().any(|p| p == "Codable") {
                return c.err("struct is not Codable");
            }
            let mut props: Vec<(String, TT, Vec<String>)> = Vec::new();
            let mut keys: Option<Vec<(String, String)>> = None;
            loop {
                let n0 = c.comments.len();
                if c.is_word("public") && matches!(c.peek_n(1), Some(t) if t.k == K::Ident && t.text == "let") {
                    c.next();
                    c.next();
                    let n = decl_name(&mut c)?;
                    c.expect_punct(":")?;
                    let t = ty(&mut c)?;
                    let comments = c.comments[n0..].iter().map(|x| x.1.clone()).collect();
                    props.push((n, t, comments));
                } else if c.is_word("enum") {
                    keys = Some(coding_keys(&mut c)?);
                } else {
                    break;
                }
            }
            c.expect_word("public")?;
            c.expect_word("init")?;
            c.expect_punct("(")?;
            let mut init_params = Vec::new();
            if !c.is_punct(")") {
                loop {
                    let (n, _) = c.ident()?;
                    c.expect_punct(":")?;
                    let t = ty(&mut c)?;
                    init_params.push((n, t));
                    if !c.accept_punct(",") {
                        break;
                    }
                }
            }
            c.expect_punct(")")?;
            c.expect_punct("{")?;
            let mut assigns = Vec::new();
            while !c.is_punct("}") {
                c.expect_word("self")?;
                c.expect_punct(".")?;
                let (l, _) = c.ident()?;
                c.expect_punct("=")?;
                let r = decl_name(&mut c)?;
                assigns.push((l, r));
            }
            c.expect_punct("}")?;
            c.expect_punct("}")?;
            if init_params.len() != props.len() || assigns.len() != props.len() {
                return c.err(format!("struct {name}: {} properties, {} init parameters, {} assignments", props.len(), init_params.len(), assigns.len()));
            }
            let mut fields = Vec::new();
            for (i, (n, t, comments)) in props.iter().enumerate() {
                if &init_params[i].0 != n || &init_params[i].1 != t || &assigns[i].0 != n || &assigns[i].1 != n {
                    return c.err(format!("struct {name}: initializer does not match property `{n}`"));
                }
                let wire = match &keys {
                    Some(k) => match k.iter().find(|(cn, _)| cn == n) {
                        Some((_, raw)) => raw.clone(),
                        None => return c.err(format!("struct {name}: property `{n}` has no CodingKeys case")),
                    },
                    None => n.clone(),
                };
                let nullable = matches!(t, TT::Opt(_));
                fields.push(FDef { ident: n.clone(), wire, ty: t.clone(), opt: OptMark { optional: nullable, nullable, other_default: None }, comments: comments.clone(), readonly: false });
            }
            if let Some(k) = &keys {
                if k.len() != props.len() {
                    return c.err(format!("struct {name}: {} CodingKeys for {} properties", k.len(), props.len()));
                }
            }
            of.defs.push(Def::Struct(SDef { name, generics, fields, comments: vec![] }));
        } else if c.is_word("indirect") || c.is_word("enum") {
            c.accept_word("indirect");
            c.expect_word("enum")?;
            let name = decl_name(&mut c)?;
            let generics = generics_decl(&mut c)?;
            let protos = protocols(&mut c)?;
            c.expect_punct("{")?;
            let unit = protos.first().map(|p| p == "String").unwrap_or(false);
            let mut cases: Vec<(String, Option<String>, Option<TT>, Vec<String>)> = Vec::new();
            while c.is_word("case") {
                let n0 = c.comments.len();
                c.next();
                let n = decl_name(&mut c)?;
                let mut raw = None;
                let mut payload = None;
                if c.accept_punct("=") {
                    raw = Some(c.string()?);
                } else if c.accept_punct("(") {
                    payload = Some(ty(&mut c)?);
                    c.expect_punct(")")?;
                }
                let comments = c.comments[n0..].iter().map(|x| x.1.clone()).collect();
                cases.push((n, raw, payload, comments));
            }
            let mut e = EDef { name: name.clone(), generics, algebraic: !unit, variants: vec![], tag_facets: vec![], content_facets: vec![], comments: vec![] };
            if unit {
                for (n, raw, payload, comments) in cases {
                    if payload.is_some() {
                        return c.err("String enum case with payload");
                    }
                    let wire = raw.unwrap_or_else(|| n.clone());
                    e.variants.push(VDef { case_name: n, wire, payload: Payload::None, parent: None, content_keys: vec![], tag_keys: vec![], comments });
                }
                c.expect_punct("}")?;
                of.defs.push(Def::Enum(e));
                continue;
            }
            let keys = if c.is_word("enum") { coding_keys(&mut c)? } else { Vec::new() };
            if keys.len() != cases.len() {
                return c.err(format!("enum {name}: {} CodingKeys for {} cases", keys.len(), cases.len()));
            }
            // ContainerCodingKeys + init(from:) + encode(to:)
            c.expect_word("private")?;
            c.expect_word("enum")?;
            c.expect_word("ContainerCodingKeys")?;
            protocols(&mut c)?;
            c.expect_punct("{")?;
            c.expect_word("case")?;
            let tag = decl_name(&mut c)?;
            c.expect_punct(",")?;
            let content = decl_name(&mut c)?;
            c.expect_punct("}")?;
            e.tag_facets.push(("ContainerCodingKeys".into(), tag));
            e.content_facets.push(("ContainerCodingKeys".into(), content));
            c.expect_word("public")?;
            c.expect_word("init")?;
            c.balanced("(", ")")?;
            c.expect_word("throws")?;
            let dec = c.balanced("{", "}")?;
            c.expect_word("public")?;
            c.expect_word("func")?;
            c.expect_word("encode")?;
            c.balanced("(", ")")?;
            c.expect_word("throws")?;
            let enc = c.balanced("{", "}")?;
            c.expect_punct("}")?;
            // scan bodies: `<callee>(<first arg…>, forKey: .<key>)`
            let mut dec_cases: Vec<String> = Vec::new();
            let mut enc_cases: Vec<String> = Vec::new();
            for (body, which) in [(&dec, "decode"), (&enc, "encode")] {
                let mut i = 0;
                while i < body.len() {
                    let t = body[i];
                    if t.k == K::Ident && t.text == "case" && i + 2 < body.len() && body[i + 1].text == "." && body[i + 2].k == K::Ident {
                        if which == "decode" {
                            dec_cases.push(body[i + 2].text.clone());
                        } else {
                            enc_cases.push(body[i + 2].text.clone());
                        }
                    }
                    if t.k == K::Ident && t.text == "forKey" && i + 3 < body.len() && body[i + 1].text == ":" && body[i + 2].text == "." && body[i + 3].k == K::Ident {
                        let key = body[i + 3].text.clone();
                        // find the opening paren of this call and its first argument
                        let mut depth = 0i32;
                        let mut j = i;
                        let mut first_arg_is_coding_keys = false;
                        let mut callee = String::new();
                        while j > 0 {
                            j -= 1;
                            let x = body[j];
                            if x.k == K::Punct && x.text == ")" {
                                depth += 1;
                            } else if x.k == K::Punct && x.text == "(" {
                                if depth == 0 {
                                    first_arg_is_coding_keys = body.get(j + 1).map(|y| y.text == "CodingKeys").unwrap_or(false);
                                    callee = if j > 0 { body[j - 1].text.clone() } else { String::new() };
                                    break;
                                }
                                depth -= 1;
                            }
                        }
                        let facet = format!("{which}:{callee}");
                        if first_arg_is_coding_keys {
                            e.tag_facets.push((facet, key));
                        } else {
                            e.content_facets.push((facet, key));
                        }
                    }
                    i += 1;
                }
            }
            for (n, _raw, payload, comments) in cases {
                let Some((_, wire)) = keys.iter().find(|(k, _)| *k == n) else {
                    return c.err(format!("enum {name}: case `{n}` has no CodingKeys entry"));
                };
                if !dec_cases.contains(&n) || !enc_cases.contains(&n) {
                    return c.err(format!("enum {name}: case `{n}` missing from decoder or encoder switch"));
                }
                let payload = match payload {
                    None => Payload::None,
                    Some(t) => {
                        if matches!(&t, TT::Name(x, _) if x.ends_with("Inner")) {
                            Payload::Inner(t)
                        } else {
                            let o = matches!(t, TT::Opt(_));
                            Payload::Type(t, o)
                        }
                    }
                };
                e.variants.push(VDef { case_name: n, wire: wire.clone(), payload, parent: None, content_keys: vec![], tag_keys: vec![], comments });
            }
            if dec_cases.len() != e.variants.len() || enc_cases.len() != e.variants.len() {
                return c.err(format!("enum {name}: {} cases, {} decode arms, {} encode arms", e.variants.len(), dec_cases.len(), enc_cases.len()));
            }
            of.defs.push(Def::Enum(e));
        } else {
            return c.err("expected typealias / struct / enum after public");
        }
    }
    Ok(of)
}
