//! Kotlin: acceptor + extractor for the declaration subset typeshare emits.
use super::lex::{Cur, PResult, Tok, K};
use super::*;

struct Ann {
    name: String,
    arg: Option<String>,
}

fn annotations(c: &mut Cur) -> PResult<Vec<Ann>> {
    let mut out = Vec::new();
    while c.accept_punct("@") {
        let (name, _) = c.ident()?;
        let mut arg = None;
        if c.is_punct("(") {
            c.next();
            arg = Some(c.string()?);
            c.expect_punct(")")?;
        }
        out.push(Ann { name, arg });
    }
    Ok(out)
}

fn path(c: &mut Cur) -> PResult<String> {
    let mut p = c.ident()?.0;
    while c.accept_punct(".") {
        p.push('.');
        p.push_str(&c.ident()?.0);
    }
    Ok(p)
}

fn generics_decl(c: &mut Cur) -> PResult<Vec<String>> {
    let mut g = Vec::new();
    if c.accept_punct("<") {
        loop {
            g.push(c.ident()?.0);
            if !c.accept_punct(",") {
                break;
            }
        }
        c.expect_punct(">")?;
    }
    Ok(g)
}

pub fn ty(c: &mut Cur) -> PResult<TT> {
    let (n, _) = c.ident()?;
    let mut n = n;
    while c.is_punct(".") {
        c.next();
        n = format!("{n}.{}", c.ident()?.0);
    }
    let mut args = Vec::new();
    if c.accept_punct("<") {
        loop {
            args.push(ty(c)?);
            if !c.accept_punct(",") {
                break;
            }
        }
        c.expect_punct(">")?;
    }
    let mut t = if n == "List" && args.len() == 1 {
        TT::Seq(Box::new(args.pop().unwrap()))
    } else if n == "HashMap" && args.len() == 2 {
        let v = args.pop().unwrap();
        let k = args.pop().unwrap();
        TT::Map(Box::new(k), Box::new(v))
    } else {
        TT::Name(n, args)
    };
    while c.accept_punct("?") {
        t = TT::Opt(Box::new(t));
    }
    Ok(t)
}

fn param(c: &mut Cur) -> PResult<FDef> {
    let n0 = c.comments.len();
    let anns = annotations(c)?;
    let _private = c.accept_word("private");
    c.expect_word("val")?;
    let (ident, _) = c.ident()?;
    c.expect_punct(":")?;
    let t = ty(c)?;
    let mut opt = OptMark { nullable: matches!(t, TT::Opt(_)), ..Default::default() };
    if c.accept_punct("=") {
        if c.accept_word("null") {
            opt.optional = true;
        } else {
            let v = c.next().map(|t| t.raw.clone()).unwrap_or_default();
            opt.other_default = Some(v);
        }
    }
    for a in &anns {
        if a.name != "SerialName" {
            return c.err(format!("unexpected annotation @{} on a constructor parameter", a.name));
        }
    }
    let wire = anns.iter().find(|a| a.name == "SerialName").and_then(|a| a.arg.clone()).unwrap_or_else(|| ident.clone());
    let comments = c.comments[n0..].iter().map(|x| x.1.clone()).collect();
    Ok(FDef { ident, wire, ty: t, opt, comments, readonly: false })
}

fn params(c: &mut Cur) -> PResult<Vec<FDef>> {
    c.expect_punct("(")?;
    let mut out = Vec::new();
    if !c.is_punct(")") {
        loop {
            out.push(param(c)?);
            if !c.accept_punct(",") {
                break;
            }
        }
    }
    c.expect_punct(")")?;
    Ok(out)
}

pub fn parse(toks: &[Tok]) -> PResult<OutFile> {
    let mut c = Cur::new(toks, true);
    let mut of = OutFile::default();
    if c.accept_word("package") {
        of.package = Some(path(&mut c)?);
    }
    while c.accept_word("import") {
        let p = path(&mut c)?;
        let (module, name) = match p.rsplit_once('.') {
            Some((m, n)) => (m.to_string(), n.to_string()),
            None => (String::new(), p.clone()),
        };
        of.imports.push((module, vec![name]));
    }
    while !c.at_end() {
        if c.accept_word("typealias") {
            let (name, _) = c.ident()?;
            let generics = generics_decl(&mut c)?;
            c.expect_punct("=")?;
            let t = ty(&mut c)?;
            let opt = OptMark { nullable: matches!(t, TT::Opt(_)), ..Default::default() };
            of.defs.push(Def::Alias(ADef { name, generics, ty: t, opt, comments: vec![] }));
            continue;
        }
        let anns = annotations(&mut c)?;
        if !anns.iter().any(|a| a.name == "Serializable") {
            return c.err("declaration without @Serializable");
        }
        if c.accept_word("object") {
            let (name, _) = c.ident()?;
            of.defs.push(Def::Struct(SDef { name, generics: vec![], fields: vec![], comments: vec![] }));
        } else if c.accept_word("data") {
            c.expect_word("class")?;
            let (name, _) = c.ident()?;
            let generics = generics_decl(&mut c)?;
            let fields = params(&mut c)?;
            if fields.is_empty() {
                return c.err("data class with an empty primary constructor");
            }
            if c.is_punct("{") {
                c.balanced("{", "}")?;
            }
            of.defs.push(Def::Struct(SDef { name, generics, fields, comments: vec![] }));
        } else if c.accept_word("value") {
            if !anns.iter().any(|a| a.name == "JvmInline") {
                return c.err("value class without @JvmInline");
            }
            c.expect_word("class")?;
            let (name, _) = c.ident()?;
            let fields = params(&mut c)?;
            if fields.len() != 1 {
                return c.err("value class needs exactly one parameter");
            }
            if c.is_punct("{") {
                c.balanced("{", "}")?;
            }
            let f = fields.into_iter().next().unwrap();
            of.defs.push(Def::Alias(ADef { name, generics: vec![], ty: f.ty, opt: f.opt, comments: vec![] }));
        } else if c.accept_word("enum") {
            c.expect_word("class")?;
            let (name, _) = c.ident()?;
            let generics = generics_decl(&mut c)?;
            c.expect_punct("(")?;
            c.expect_word("val")?;
            c.expect_word("string")?;
            c.expect_punct(":")?;
            c.expect_word("String")?;
            c.expect_punct(")")?;
            c.expect_punct("{")?;
            let mut variants = Vec::new();
            while !c.is_punct("}") {
                let a = annotations(&mut c)?;
                let (case_name, _) = c.ident()?;
                c.expect_punct("(")?;
                let ctor = c.string()?;
                c.expect_punct(")")?;
                c.expect_punct(",")?;
                let serial = a.iter().find(|x| x.name == "SerialName").and_then(|x| x.arg.clone());
                let Some(wire) = serial else { return c.err("enum entry without @SerialName") };
                variants.push(VDef { case_name, wire, payload: Payload::None, parent: None, content_keys: vec![], tag_keys: vec![ctor], comments: vec![] });
            }
            c.expect_punct("}")?;
            of.defs.push(Def::Enum(EDef { name, generics, algebraic: false, variants, tag_facets: vec![], content_facets: vec![], comments: vec![] }));
        } else if c.accept_word("sealed") {
            c.expect_word("class")?;
            let (name, _) = c.ident()?;
            let generics = generics_decl(&mut c)?;
            c.expect_punct("{")?;
            let mut variants = Vec::new();
            while !c.is_punct("}") {
                let a = annotations(&mut c)?;
                if !a.iter().any(|x| x.name == "Serializable") {
                    return c.err("variant without @Serializable");
                }
                let Some(wire) = a.iter().find(|x| x.name == "SerialName").and_then(|x| x.arg.clone()) else {
                    return c.err("variant without @SerialName");
                };
                let (case_name, payload, content_keys) = if c.accept_word("object") {
                    (c.ident()?.0, Payload::None, vec![])
                } else {
                    c.expect_word("data")?;
                    c.expect_word("class")?;
                    let (cn, _) = c.ident()?;
                    let _g = generics_decl(&mut c)?;
                    c.expect_punct("(")?;
                    c.expect_word("val")?;
                    let (key, _) = c.ident()?;
                    c.expect_punct(":")?;
                    let t = ty(&mut c)?;
                    c.expect_punct(")")?;
                    let is_inner = matches!(&t, TT::Name(n, _) if n.ends_with("Inner"));
                    let optional = matches!(t, TT::Opt(_));
                    (cn, if is_inner { Payload::Inner(t) } else { Payload::Type(t, optional) }, vec![key])
                };
                c.expect_punct(":")?;
                let parent = ty(&mut c)?;
                c.expect_punct("(")?;
                c.expect_punct(")")?;
                variants.push(VDef { case_name, wire, payload, parent: Some(parent), content_keys, tag_keys: vec![], comments: vec![] });
            }
            c.expect_punct("}")?;
            of.defs.push(Def::Enum(EDef { name, generics, algebraic: true, variants, tag_facets: vec![], content_facets: vec![], comments: vec![] }));
        } else {
            return c.err("expected object / data class / enum class / sealed class / value class");
        }
    }
    let _ = K::Ident;
    Ok(of)
}
