//! E1: stateless choice-sequence explorer.
//!
//! A *case* is whatever a closure builds by calling `Chooser::choose(label, n)`.
//! The explorer enumerates every choice sequence (product mode) or every
//! sequence with at most `k` non-zero choices (deviation-bounded mode) by
//! prefix replay + backtracking, exactly once each, in lexicographic order,
//! split over worker threads by sub-tree.
use std::sync::atomic::{AtomicBool, AtomicUsize, Ordering};
use std::sync::Mutex;

#[derive(Clone, Debug, PartialEq, Eq)]
pub struct Point {
    pub choice: u32,
    pub arity: u32,
    pub label: &'static str,
}

pub struct Chooser {
    prefix: Vec<u32>,
    /// expected (label, arity) for the prefix positions; a mismatch is generator nondeterminism
    expect: Vec<(&'static str, u32)>,
    pub trace: Vec<Point>,
    /// a replay that diverged (label / arity changed, or choice out of range)
    pub diverged: Option<String>,
}

impl Chooser {
    pub fn new(prefix: Vec<u32>, expect: Vec<(&'static str, u32)>) -> Self {
        Chooser { prefix, expect, trace: Vec::new(), diverged: None }
    }
    pub fn replay(choices: &[u32]) -> Self {
        Chooser::new(choices.to_vec(), Vec::new())
    }
    /// Pick one of `n` alternatives; alternative 0 is the default ("plain") one.
    pub fn choose(&mut self, label: &'static str, n: usize) -> usize {
        assert!(n >= 1, "choice point {label} with no alternatives");
        let pos = self.trace.len();
        let c = if pos < self.prefix.len() { self.prefix[pos] } else { 0 };
        if pos < self.expect.len() {
            let (l, a) = self.expect[pos];
            if l != label || a as usize != n {
                self.diverged = Some(format!(
                    "choice point {pos}: expected {l}/{a}, generator asked {label}/{n}"
                ));
            }
        }
        let c = if (c as usize) >= n {
            self.diverged = Some(format!("choice point {pos} ({label}): choice {c} out of range {n}"));
            0
        } else {
            c
        };
        self.trace.push(Point { choice: c, arity: n as u32, label });
        c as usize
    }
    pub fn flag(&mut self, label: &'static str) -> bool {
        self.choose(label, 2) == 1
    }
    pub fn pick<'a, T>(&mut self, label: &'static str, xs: &'a [T]) -> &'a T {
        &xs[self.choose(label, xs.len())]
    }
    pub fn choices(&self) -> Vec<u32> {
        self.trace.iter().map(|p| p.choice).collect()
    }
    pub fn deviations(&self) -> usize {
        self.trace.iter().filter(|p| p.choice != 0).count()
    }
}

#[derive(Clone, Copy, Debug)]
pub enum Mode {
    Product,
    /// at most this many non-zero choices
    Deviations(usize),
}

#[derive(Default, Debug, Clone)]
pub struct ExploreStats {
    pub executions: u64,
    pub choice_points: u64,
    pub max_depth: usize,
    pub divergences: Vec<String>,
    pub workers: usize,
    pub cap_hit: bool,
}

/// Next choice vector after `trace` in lexicographic order whose first `keep`
/// positions are fixed, honouring the deviation bound. None when exhausted.
fn next_prefix(trace: &[Point], keep: usize, mode: Mode) -> Option<Vec<u32>> {
    let mut i = trace.len();
    while i > keep {
        i -= 1;
        if trace[i].choice + 1 < trace[i].arity {
            let devs_before = trace[..i].iter().filter(|p| p.choice != 0).count();
            let ok = match mode {
                Mode::Product => true,
                // the incremented choice is non-zero => costs one deviation
                Mode::Deviations(k) => devs_before + 1 <= k,
            };
            if ok {
                let mut v: Vec<u32> = trace[..i].iter().map(|p| p.choice).collect();
                v.push(trace[i].choice + 1);
                return Some(v);
            }
        }
    }
    None
}

/// Enumerate all distinct prefixes of length `depth` (shorter when the
/// generator stops earlier) — the roots of the sub-trees handed to workers.
fn roots<F: Fn(&mut Chooser)>(gen: &F, depth: usize, mode: Mode) -> Vec<Vec<u32>> {
    let mut out = Vec::new();
    let mut prefix: Vec<u32> = Vec::new();
    loop {
        let mut ch = Chooser::new(prefix.clone(), Vec::new());
        gen(&mut ch);
        let cut = ch.trace.len().min(depth);
        let t = &ch.trace[..cut];
        out.push(t.iter().map(|p| p.choice).collect::<Vec<u32>>());
        match next_prefix(t, 0, mode) {
            Some(p) => prefix = p,
            None => break,
        }
    }
    out
}

/// Run `body` on every case. `gen_only` must make exactly the same `choose`
/// calls as `body` does for the first `split_depth` points (normally both call
/// the same generator function). `body` returns false to request a global stop
/// (cap reached); this is reported in the stats.
pub fn explore<G, B, A>(
    gen_only: G,
    body: B,
    mode: Mode,
    split_depth: usize,
    threads: usize,
    max_execs: u64,
) -> (Vec<A>, ExploreStats)
where
    G: Fn(&mut Chooser) + Sync,
    B: Fn(&mut Chooser, &mut A) + Sync,
    A: Default + Send,
{
    let roots = roots(&gen_only, split_depth, mode);
    let next = AtomicUsize::new(0);
    let stop = AtomicBool::new(false);
    let total = std::sync::atomic::AtomicU64::new(0);
    let results: Mutex<Vec<(usize, A, ExploreStats)>> = Mutex::new(Vec::new());
    let nthreads = threads.max(1).min(roots.len().max(1));
    std::thread::scope(|s| {
        for w in 0..nthreads {
            let roots = &roots;
            let next = &next;
            let stop = &stop;
            let total = &total;
            let results = &results;
            let body = &body;
            s.spawn(move || {
                let mut acc = A::default();
                let mut st = ExploreStats::default();
                loop {
                    let i = next.fetch_add(1, Ordering::SeqCst);
                    if i >= roots.len() || stop.load(Ordering::SeqCst) {
                        break;
                    }
                    let root = &roots[i];
                    let keep = root.len();
                    let mut prefix = root.clone();
                    let mut expect: Vec<(&'static str, u32)> = Vec::new();
                    loop {
                        let mut ch = Chooser::new(prefix.clone(), expect.clone());
                        body(&mut ch, &mut acc);
                        st.executions += 1;
                        st.choice_points += ch.trace.len() as u64;
                        st.max_depth = st.max_depth.max(ch.trace.len());
                        if let Some(d) = ch.diverged.take() {
                            if st.divergences.len() < 5 {
                                st.divergences.push(d);
                            }
                        }
                        if total.fetch_add(1, Ordering::Relaxed) + 1 >= max_execs {
                            stop.store(true, Ordering::SeqCst);
                            st.cap_hit = true;
                            break;
                        }
                        match next_prefix(&ch.trace, keep, mode) {
                            Some(p) => {
                                // positions before the incremented one must replay identically
                                expect = ch.trace[..p.len() - 1]
                                    .iter()
                                    .map(|q| (q.label, q.arity))
                                    .collect();
                                prefix = p;
                            }
                            None => break,
                        }
                    }
                }
                results.lock().unwrap().push((w, acc, st));
            });
        }
    });
    let mut rs = results.into_inner().unwrap();
    rs.sort_by_key(|r| r.0);
    let mut stats = ExploreStats { workers: nthreads, ..Default::default() };
    let mut accs = Vec::new();
    for (_, a, st) in rs {
        stats.executions += st.executions;
        stats.choice_points += st.choice_points;
        stats.max_depth = stats.max_depth.max(st.max_depth);
        stats.divergences.extend(st.divergences);
        stats.cap_hit |= st.cap_hit;
        accs.push(a);
    }
    (accs, stats)
}

#[cfg(test)]
mod tests {
    use super::*;
    #[derive(Default)]
    struct Acc(Vec<Vec<u32>>);
    fn gen(ch: &mut Chooser) {
        let a = ch.choose("a", 3);
        if a == 1 {
            ch.choose("b", 2);
        }
        ch.choose("c", 2);
    }
    #[test]
    fn product_counts() {
        let (accs, st) = explore(gen, |ch, a: &mut Acc| { gen(ch); a.0.push(ch.choices()); }, Mode::Product, 1, 4, u64::MAX);
        let mut all: Vec<_> = accs.into_iter().flat_map(|a| a.0).collect();
        all.sort();
        all.dedup();
        assert_eq!(st.executions, 2 + 4 + 2);
        assert_eq!(all.len(), 8);
    }
    #[test]
    fn deviation_counts() {
        let (accs, st) = explore(gen, |ch, a: &mut Acc| { gen(ch); a.0.push(ch.choices()); }, Mode::Deviations(1), 1, 4, u64::MAX);
        let all: Vec<_> = accs.into_iter().flat_map(|a| a.0).collect();
        // 0 devs: [0,0]; 1 dev: [0,1],[1,0,0],[2,0]
        assert_eq!(st.executions, 4, "{all:?}");
    }
}
