//! Real CPython front end for generated Python modules, one interpreter process per batch:
//! `ast.parse`, then `exec` with the stub pydantic of /verif/pystub on sys.path.
use crate::cli::Scratch;
use std::collections::BTreeMap;

#[derive(Debug, Clone)]
pub struct PyVerdict {
    pub ok: bool,
    /// "syntax" | "import"
    pub stage: String,
    pub error: String,
}

/// id -> verdict; Err when the interpreter could not be run or did not judge every module
pub fn check_modules(mods: &BTreeMap<String, String>) -> Result<BTreeMap<String, PyVerdict>, String> {
    if mods.is_empty() {
        return Ok(BTreeMap::new());
    }
    let sc = Scratch::new("pybatch");
    for (id, text) in mods {
        sc.write(&format!("{id}.py"), text.as_bytes());
    }
    let out = std::process::Command::new("python3").arg("/verif/py/batch_check.py").arg(&sc.root).output().map_err(|e| format!("cannot run python3: {e}"))?;
    let mut res = BTreeMap::new();
    for line in String::from_utf8_lossy(&out.stdout).lines() {
        let Ok(v) = serde_json::from_str::<serde_json::Value>(line) else { continue };
        let id = v["file"].as_str().unwrap_or("").trim_end_matches(".py").to_string();
        res.insert(id, PyVerdict { ok: v["ok"].as_bool() == Some(true), stage: v["stage"].as_str().unwrap_or("").to_string(), error: v["error"].as_str().unwrap_or("").to_string() });
    }
    if res.len() != mods.len() {
        return Err(format!("CPython batch judged {} of {} modules: {}", res.len(), mods.len(), String::from_utf8_lossy(&out.stderr).chars().take(300).collect::<String>()));
    }
    Ok(res)
}
