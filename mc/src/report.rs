//! Violations, known findings, replay files, evidence files, exit codes.
use serde_json::{json, Map, Value};
use std::collections::BTreeMap;
use std::path::{Path, PathBuf};
use std::time::Instant;

pub const VERIF: &str = "/verif";

pub fn fnv64(s: &str) -> u64 {
    let mut h: u64 = 0xcbf29ce484222325;
    for b in s.as_bytes() {
        h ^= *b as u64;
        h = h.wrapping_mul(0x100000001b3);
    }
    h
}

pub fn hash_hex(s: &str) -> String {
    format!("{:016x}", fnv64(s))
}

#[derive(Clone, Debug)]
pub struct Violation {
    /// semantic signature: what failed, where, expected/observed kind. No paths, lines, timings.
    pub sig: String,
    /// everything needed to re-run this one case (choice vector, sources, argv, expected/observed)
    pub detail: Value,
}

#[derive(Default)]
pub struct VioSet {
    /// sig -> (count, first detail in enumeration order)
    pub by_sig: BTreeMap<String, (u64, Value)>,
}

impl VioSet {
    pub fn add(&mut self, v: Violation) {
        let e = self.by_sig.entry(v.sig).or_insert((0, v.detail.clone()));
        e.0 += 1;
        // keep the smallest witness (by serialized length, then lexicographic) so output is schedule independent
        let a = e.1.to_string();
        let b = v.detail.to_string();
        if (b.len(), &b) < (a.len(), &a) {
            e.1 = v.detail;
        }
    }
    pub fn merge(&mut self, o: VioSet) {
        for (k, (n, d)) in o.by_sig {
            let e = self.by_sig.entry(k).or_insert((0, d.clone()));
            e.0 += n;
            let a = e.1.to_string();
            let b = d.to_string();
            if (b.len(), &b) < (a.len(), &a) {
                e.1 = d;
            }
        }
    }
    pub fn total(&self) -> u64 {
        self.by_sig.values().map(|v| v.0).sum()
    }
}

#[derive(Debug, Clone)]
pub struct KnownEntry {
    pub id: String,
    pub property: String,
    pub status: String,
    pub description: String,
    pub sigs: Vec<String>,
    pub globs: Vec<String>,
}

pub fn glob_match(pat: &str, s: &str) -> bool {
    // '*' matches any run of characters; everything else is literal
    let parts: Vec<&str> = pat.split('*').collect();
    if parts.len() == 1 {
        return pat == s;
    }
    let mut pos = 0usize;
    for (i, p) in parts.iter().enumerate() {
        if i == 0 {
            if !s.starts_with(p) {
                return false;
            }
            pos = p.len();
        } else if i == parts.len() - 1 {
            return s.len() >= pos + p.len() && s[pos..].ends_with(p);
        } else {
            match s[pos..].find(p) {
                Some(k) => pos += k + p.len(),
                None => return false,
            }
        }
    }
    true
}

pub fn load_known(property: &str) -> Vec<KnownEntry> {
    let path = Path::new(VERIF).join("known_findings.json");
    let Ok(text) = std::fs::read_to_string(&path) else { return Vec::new() };
    let v: Value = match serde_json::from_str(&text) {
        Ok(v) => v,
        Err(e) => {
            eprintln!("machinery: known_findings.json does not parse: {e}");
            std::process::exit(2);
        }
    };
    let mut out = Vec::new();
    for f in v["findings"].as_array().cloned().unwrap_or_default() {
        if f["property"].as_str() != Some(property) {
            continue;
        }
        let strs = |k: &str| -> Vec<String> {
            f[k].as_array().map(|a| a.iter().filter_map(|x| x.as_str().map(String::from)).collect()).unwrap_or_default()
        };
        let mut sigs = strs("sigs");
        if let Some(file) = f["sigs_file"].as_str() {
            if let Ok(t) = std::fs::read_to_string(Path::new(VERIF).join(file)) {
                sigs.extend(t.lines().filter(|l| !l.trim().is_empty()).map(String::from));
            }
        }
        out.push(KnownEntry {
            id: f["id"].as_str().unwrap_or("?").to_string(),
            property: property.to_string(),
            status: f["status"].as_str().unwrap_or("known").to_string(),
            description: f["description"].as_str().unwrap_or("").to_string(),
            sigs,
            globs: strs("sig_globs"),
        });
    }
    out
}

pub struct Report {
    pub property: String,
    pub tier: String,
    pub seed: i64,
    pub level: String,
    pub start: Instant,
    pub coverage: Map<String, Value>,
    pub assumptions: Vec<String>,
    pub vios: VioSet,
    pub machinery_errors: Vec<String>,
}

pub fn tier_from_env(args: &[String]) -> String {
    if let Some(i) = args.iter().position(|a| a == "--tier") {
        if let Some(t) = args.get(i + 1) {
            return t.clone();
        }
    }
    std::env::var("VERIF_TIER").unwrap_or_else(|_| "quick".into())
}

impl Report {
    pub fn new(property: &str, tier: &str) -> Report {
        let seed = std::env::var("VERIF_SEED").ok().and_then(|s| s.parse().ok()).unwrap_or(0);
        Report {
            property: property.to_string(),
            tier: tier.to_string(),
            seed,
            level: "model_checking".into(),
            start: Instant::now(),
            coverage: Map::new(),
            assumptions: Vec::new(),
            vios: VioSet::default(),
            machinery_errors: Vec::new(),
        }
    }
    pub fn thorough(&self) -> bool {
        self.tier == "thorough"
    }
    pub fn cov(&mut self, k: &str, v: Value) {
        self.coverage.insert(k.to_string(), v);
    }
    pub fn cov_add(&mut self, k: &str, n: u64) {
        let cur = self.coverage.get(k).and_then(|v| v.as_u64()).unwrap_or(0);
        self.coverage.insert(k.to_string(), json!(cur + n));
    }
    pub fn sample(&mut self, v: Value) {
        let e = self.coverage.entry("samples".to_string()).or_insert_with(|| json!([]));
        if let Some(a) = e.as_array_mut() {
            if a.len() < 12 {
                a.push(v);
            }
        }
    }
    pub fn assume(&mut self, s: &str) {
        self.assumptions.push(s.to_string());
    }
    pub fn machinery(&mut self, s: impl Into<String>) {
        let s = s.into();
        eprintln!("machinery: {s}");
        self.machinery_errors.push(s);
    }

    /// Writes evidence, prints KNOWN-FINDING / VIOLATION lines, returns the exit code.
    pub fn finish(mut self) -> i32 {
        // replay mode: re-execute the (deterministic, exhaustive) check and report on one signature only
        if let Ok(only) = std::env::var("TSMC_ONLY_SIG") {
            return match self.vios.by_sig.get(&only) {
                Some((n, detail)) => {
                    println!("VIOLATION property={} replay=(reproduced) signature: {only} ({n} cases)", self.property);
                    println!("{}", serde_json::to_string_pretty(detail).unwrap_or_default());
                    1
                }
                None => {
                    println!("signature not reproduced on the current tree: {only}");
                    0
                }
            };
        }
        let known = load_known(&self.property);
        let mut known_hits: BTreeMap<String, (u64, u64)> = BTreeMap::new(); // id -> (sigs, cases)
        let mut fresh: Vec<(String, u64, Value)> = Vec::new();
        for (sig, (n, detail)) in &self.vios.by_sig {
            let hit = known.iter().find(|k| {
                k.status == "known" && (k.sigs.iter().any(|s| s == sig) || k.globs.iter().any(|g| glob_match(g, sig)))
            });
            match hit {
                Some(k) => {
                    let e = known_hits.entry(k.id.clone()).or_insert((0, 0));
                    e.0 += 1;
                    e.1 += n;
                }
                None => fresh.push((sig.clone(), *n, detail.clone())),
            }
        }
        // dump all signatures when asked (development aid; never touches known_findings.json)
        if let Ok(p) = std::env::var("TSMC_DUMP_SIGS") {
            let mut s = String::new();
            for (sig, (n, _)) in &self.vios.by_sig {
                s.push_str(&format!("{n}\t{sig}\n"));
            }
            let _ = std::fs::write(p, s);
        }
        let mut known_report = Vec::new();
        for k in &known {
            if k.status != "known" {
                continue;
            }
            match known_hits.get(&k.id) {
                Some((sigs, cases)) => {
                    println!(
                        "KNOWN-FINDING: property={} {} [{}] ({} signatures, {} cases)",
                        self.property, k.description, k.id, sigs, cases
                    );
                    known_report.push(json!({"id": k.id, "signatures": sigs, "cases": cases}));
                }
                None => {
                    println!("note: known finding {} not reproduced in this tier/run", k.id);
                    known_report.push(json!({"id": k.id, "signatures": 0, "cases": 0}));
                }
            }
        }
        let replay_dir = PathBuf::from(VERIF).join("replays").join(&self.property);
        let mut shown = 0;
        let n_fresh = fresh.len();
        for (sig, n, detail) in &fresh {
            let _ = std::fs::create_dir_all(&replay_dir);
            let path = replay_dir.join(format!("{}.json", hash_hex(sig)));
            let body = json!({"property": self.property, "signature": sig, "cases_with_this_signature": n, "case": detail});
            let _ = std::fs::write(&path, serde_json::to_string_pretty(&body).unwrap());
            if shown < 40 {
                println!("VIOLATION property={} replay={}", self.property, path.display());
                println!("  signature: {sig}  ({n} cases)");
                shown += 1;
            }
        }
        if n_fresh > shown {
            println!("… and {} more violation signatures (replay files written)", n_fresh - shown);
        }
        let wall = self.start.elapsed().as_secs_f64();
        self.coverage.insert("known_findings".into(), json!(known_report));
        self.coverage.insert("violation_signatures_new".into(), json!(n_fresh));
        self.coverage.insert("violating_cases_total".into(), json!(self.vios.total()));
        if !self.machinery_errors.is_empty() {
            self.coverage.insert("machinery_errors".into(), json!(self.machinery_errors));
        }
        let ev = json!({
            "property_id": self.property,
            "tier": self.tier,
            "seed": self.seed,
            "level": self.level,
            "coverage": Value::Object(self.coverage.clone()),
            "assumptions": self.assumptions,
            "wall_s": (wall * 1000.0).round() / 1000.0,
            "violations": n_fresh,
        });
        let evdir = PathBuf::from(VERIF).join("evidence");
        let _ = std::fs::create_dir_all(&evdir);
        let evpath = evdir.join(format!("{}.json", self.property));
        if let Err(e) = std::fs::write(&evpath, serde_json::to_string_pretty(&ev).unwrap() + "\n") {
            eprintln!("machinery: cannot write evidence: {e}");
            return 2;
        }
        println!(
            "{} tier={} wall={:.1}s new_violation_signatures={} known_hit={} evidence={}",
            self.property,
            self.tier,
            wall,
            n_fresh,
            known_hits.len(),
            evpath.display()
        );
        // a violation found on the real code takes precedence over a machinery complaint
        if n_fresh > 0 {
            1
        } else if !self.machinery_errors.is_empty() {
            2
        } else {
            0
        }
    }
}

pub fn threads() -> usize {
    std::env::var("TSMC_THREADS").ok().and_then(|s| s.parse().ok()).unwrap_or_else(|| {
        std::thread::available_parallelism().map(|n| n.get()).unwrap_or(8).min(16)
    })
}
