//! Seam S-cli: the real `typeshare` binary (hooks-on build) as a subprocess on scratch trees.
#![allow(dead_code)]
use crate::pipeline::{Lang, ALL_LANGS};
use crate::prog::*;
use crate::report::{Report, Violation};
use serde_json::json;
use std::collections::BTreeMap;
use std::path::{Path, PathBuf};
use std::process::{Command, Stdio};
use std::sync::atomic::{AtomicUsize, Ordering};
use std::time::{Duration, Instant, SystemTime};

pub const BIN: &str = "/verif/target/cli-verif/debug/typeshare";

static SCRATCH_N: AtomicUsize = AtomicUsize::new(0);

pub struct Scratch {
    pub root: PathBuf,
}

impl Scratch {
    pub fn new(tag: &str) -> Scratch {
        let base = std::env::var("TMPDIR").unwrap_or_else(|_| "/tmp".into());
        let n = SCRATCH_N.fetch_add(1, Ordering::SeqCst);
        let root = PathBuf::from(base).join(format!("tsmc-{}-{tag}-{n}", std::process::id()));
        let _ = std::fs::remove_dir_all(&root);
        std::fs::create_dir_all(&root).expect("create scratch dir");
        Scratch { root }
    }
    pub fn path(&self, rel: &str) -> PathBuf {
        self.root.join(rel)
    }
    pub fn write(&self, rel: &str, content: &[u8]) -> PathBuf {
        let p = self.root.join(rel);
        if let Some(d) = p.parent() {
            std::fs::create_dir_all(d).expect("mkdir");
        }
        std::fs::write(&p, content).expect("write scratch file");
        p
    }
    pub fn mkdir(&self, rel: &str) -> PathBuf {
        let p = self.root.join(rel);
        std::fs::create_dir_all(&p).expect("mkdir");
        p
    }
}

impl Drop for Scratch {
    fn drop(&mut self) {
        let _ = std::fs::remove_dir_all(&self.root);
    }
}

/// fixed instant used to detect rewrites
pub fn old_time() -> SystemTime {
    SystemTime::UNIX_EPOCH + Duration::from_secs(1_000_000_000) + Duration::from_nanos(123_456_789)
}

pub fn set_mtime(p: &Path, t: SystemTime) {
    if let Ok(f) = std::fs::OpenOptions::new().write(true).open(p) {
        let _ = f.set_modified(t);
    }
}

pub fn mtime(p: &Path) -> Option<SystemTime> {
    std::fs::metadata(p).ok().and_then(|m| m.modified().ok())
}

#[derive(Debug, Clone)]
pub struct CliRun {
    pub code: Option<i32>,
    pub stdout: String,
    pub stderr: String,
    pub timed_out: bool,
    pub wall_ms: u128,
}

impl CliRun {
    /// semantic outcome class (no paths, no timings)
    pub fn class(&self) -> &'static str {
        if self.timed_out {
            "hang"
        } else if self.stderr.contains("panicked at") || self.code == Some(101) {
            "panic"
        } else if self.code == Some(97) {
            "schedule-infeasible"
        } else if self.code == Some(0) {
            "ok"
        } else if self.code.is_none() {
            "killed-by-signal"
        } else if self.code == Some(2) && self.stderr.contains("Usage:") {
            "usage-error"
        } else {
            "error"
        }
    }
}

pub fn run_cli(args: &[String], cwd: &Path, env: &[(&str, String)], timeout: Duration) -> CliRun {
    let n = SCRATCH_N.fetch_add(1, Ordering::SeqCst);
    let base = std::env::var("TMPDIR").unwrap_or_else(|_| "/tmp".into());
    let out_p = PathBuf::from(&base).join(format!("tsmc-{}-io-{n}.out", std::process::id()));
    let err_p = PathBuf::from(&base).join(format!("tsmc-{}-io-{n}.err", std::process::id()));
    let out_f = std::fs::File::create(&out_p).expect("stdout file");
    let err_f = std::fs::File::create(&err_p).expect("stderr file");
    let start = Instant::now();
    let mut cmd = Command::new(BIN);
    cmd.args(args).current_dir(cwd).env_clear().stdin(Stdio::null()).stdout(out_f).stderr(err_f);
    for (k, v) in env {
        cmd.env(k, v);
    }
    let mut child = match cmd.spawn() {
        Ok(c) => c,
        Err(e) => {
            let _ = std::fs::remove_file(&out_p);
            let _ = std::fs::remove_file(&err_p);
            return CliRun { code: Some(-1), stdout: String::new(), stderr: format!("spawn failed: {e}"), timed_out: false, wall_ms: 0 };
        }
    };
    let mut timed_out = false;
    let code;
    loop {
        match child.try_wait() {
            Ok(Some(st)) => {
                code = st.code();
                break;
            }
            Ok(None) => {
                if start.elapsed() > timeout {
                    let _ = child.kill();
                    let _ = child.wait();
                    timed_out = true;
                    code = None;
                    break;
                }
                std::thread::sleep(Duration::from_millis(1));
            }
            Err(_) => {
                code = None;
                break;
            }
        }
    }
    let stdout = std::fs::read_to_string(&out_p).unwrap_or_default();
    let stderr = String::from_utf8_lossy(&std::fs::read(&err_p).unwrap_or_default()).into_owned();
    let _ = std::fs::remove_file(&out_p);
    let _ = std::fs::remove_file(&err_p);
    CliRun { code, stdout, stderr, timed_out, wall_ms: start.elapsed().as_millis() }
}

pub fn s(x: &str) -> String {
    x.to_string()
}

/// language flag + the package options a backend needs to run at all
pub fn lang_args(lang: Lang) -> Vec<String> {
    let mut v = vec![s("--lang"), s(lang.name())];
    match lang {
        Lang::Kotlin => v.extend([s("--java-package"), s("com.pkg.types")]),
        Lang::Scala => v.extend([s("--scala-package"), s("com.pkg.types")]),
        Lang::Go => v.extend([s("--go-package"), s("types")]),
        _ => {}
    }
    v
}

pub fn bin_available() -> bool {
    Path::new(BIN).is_file()
}

/// all regular files below `dir`: relative path -> bytes
pub fn snapshot(dir: &Path) -> BTreeMap<String, Vec<u8>> {
    fn walk(base: &Path, d: &Path, out: &mut BTreeMap<String, Vec<u8>>) {
        let Ok(rd) = std::fs::read_dir(d) else { return };
        for e in rd.flatten() {
            let p = e.path();
            if p.is_dir() {
                walk(base, &p, out);
            } else if let Ok(b) = std::fs::read(&p) {
                out.insert(p.strip_prefix(base).unwrap().to_string_lossy().into_owned(), b);
            }
        }
    }
    let mut out = BTreeMap::new();
    walk(dir, dir, &mut out);
    out
}

pub const TIMEOUT: Duration = Duration::from_secs(20);

// ------------------------------------------------------------------------------------------
// C08, CLI clause: a rejected input makes the run fail and leaves the output location untouched
// ------------------------------------------------------------------------------------------

pub fn c08_sources() -> Vec<(&'static str, String, Option<String>)> {
    // (construct label, source with the construct, source with the construct under a skip marker)
    let mk = |field_ty: &str, skip: Option<&str>| -> String {
        let attr = match skip {
            Some("serde") => "    #[serde(skip)]\n",
            Some("typeshare") => "    #[typeshare(skip)]\n",
            _ => "",
        };
        format!("#[typeshare]\npub struct Good {{\n    pub a: u32,\n}}\n\n#[typeshare]\npub struct Outer {{\n    pub keep: u32,\n{attr}    pub bad: {field_ty},\n}}\n")
    };
    // the same behind a comment that makes the file large (found by a directory walk like any other file)
    let pad = |n: usize, src: String| format!("//{}\n{src}", "x".repeat(n));
    vec![
        ("u64-field-in-a-file-of-70-KiB", pad(70 * 1024, mk("u64", None)), Some(pad(70 * 1024, mk("u64", Some("serde"))))),
        ("u64-field-in-a-file-of-3-MiB", pad(3 * 1024 * 1024, mk("u64", None)), Some(pad(3 * 1024 * 1024, mk("u64", Some("typeshare"))))),
        ("u64-field", mk("u64", None), Some(mk("u64", Some("serde")))),
        ("usize-deep", mk("Vec<Option<HashMap<String, Box<usize>>>>", None), Some(mk("Vec<Option<HashMap<String, Box<usize>>>>", Some("typeshare")))),
        ("tuple-deep", mk("Option<Vec<(u32, String)>>", None), Some(mk("Option<Vec<(u32, String)>>", Some("serde")))),
        ("tuple-struct-2", s("#[typeshare]\npub struct Good {\n    pub a: u32,\n}\n\n#[typeshare]\npub struct Outer(pub u32, pub String);\n"), None),
        ("enum-no-tag", s("#[typeshare]\npub struct Good {\n    pub a: u32,\n}\n\n#[typeshare]\npub enum Outer {\n    A(u32),\n    B,\n}\n"), None),
        ("unit-enum-with-tag", s("#[typeshare]\npub struct Good {\n    pub a: u32,\n}\n\n#[typeshare]\n#[serde(tag = \"t\")]\npub enum Outer {\n    A,\n    B,\n}\n"), None),
        ("flatten", s("#[typeshare]\npub struct Good {\n    pub a: u32,\n}\n\n#[typeshare]\npub struct Outer {\n    #[serde(flatten)]\n    pub g: Good,\n}\n"), None),
        ("const-string", s("#[typeshare]\npub struct Good {\n    pub a: u32,\n}\n\n#[typeshare]\npub const NAME: &str = \"x\";\n"), None),
        // a tuple item keeps its arity on the wire when one of its unnamed fields is skipped (serde writes a one-element array)
        ("tuple-struct-2-one-field-serde-skipped", s("#[typeshare]\npub struct Good {\n    pub a: u32,\n}\n\n#[typeshare]\npub struct Outer(pub String, #[serde(skip)] pub u32);\n"), None),
        ("tuple-struct-3-two-fields-typeshare-skipped", s("#[typeshare]\npub struct Good {\n    pub a: u32,\n}\n\n#[typeshare]\npub struct Outer(#[typeshare(skip)] pub u32, pub String, #[typeshare(skip)] pub bool);\n"), None),
        ("tuple-variant-2-one-field-skipped", s("#[typeshare]\npub struct Good {\n    pub a: u32,\n}\n\n#[typeshare]\n#[serde(tag = \"t\", content = \"c\")]\npub enum Outer {\n    A(String, #[serde(skip)] u32),\n    B,\n}\n"), None),
        // two annotated items of one name in one file, the unsupported construct in the later one
        ("same-name-twice-later-one-bad", s("#[typeshare]\npub struct Good {\n    pub a: u32,\n}\n\npub mod v1 {\n    #[typeshare]\n    pub struct Outer {\n        pub a: u32,\n    }\n}\npub mod v2 {\n    #[typeshare]\n    pub struct Outer {\n        pub a: u64,\n    }\n}\n"), None),
        ("earlier-item-renamed-to-the-later-bad-one", s("#[typeshare]\n#[serde(rename = \"Outer\")]\npub struct Good {\n    pub a: u32,\n}\n\n#[typeshare]\npub struct Outer(pub u32, pub String);\n"), None),
        ("serialized-as-i64", s("#[typeshare]\npub struct Good {\n    pub a: u32,\n}\n\n#[typeshare]\npub struct Outer {\n    #[typeshare(serialized_as = \"i64\")]\n    pub t: u32,\n}\n"), None),
    ]
}

pub fn c08_cli_family(rep: &mut Report) {
    if !bin_available() {
        rep.machinery(format!("hooks-on CLI binary missing at {BIN}"));
        return;
    }
    let mut runs = 0u64;
    let mut judgements = 0u64;
    let mut rejected = 0u64;
    let mut accepted_skipped = 0u64;
    let langs: Vec<Lang> = if rep.thorough() { ALL_LANGS.to_vec() } else { vec![Lang::TypeScript, Lang::Swift, Lang::Go] };
    for (label, bad_src, skipped_src) in c08_sources() {
        for &lang in &langs {
            for multi in [false, true] {
                for preexisting in [false, true] {
                    for (variant, src) in [("rejecting", Some(&bad_src)), ("skipped", skipped_src.as_ref())] {
                        let Some(src) = src else { continue };
                        let sc = Scratch::new("c08");
                        let srcfile = sc.write("ws/mycrate/src/lib.rs", src.as_bytes());
                        let out_rel = if multi { s("out") } else { format!("out/types.{}", lang.ext()) };
                        let out_file = if multi { sc.path(&format!("out/{}", crate::pipeline::out_file_name(lang, "mycrate"))) } else { sc.path(&out_rel) };
                        sc.mkdir("out");
                        let sentinel = b"SENTINEL previous content\n".to_vec();
                        if preexisting {
                            std::fs::write(&out_file, &sentinel).unwrap();
                            set_mtime(&out_file, old_time());
                        }
                        let mut args = lang_args(lang);
                        if multi {
                            args.extend([s("-d"), sc.path(&out_rel).to_string_lossy().into_owned()]);
                        } else {
                            args.extend([s("-o"), sc.path(&out_rel).to_string_lossy().into_owned()]);
                        }
                        args.push(sc.path("ws").to_string_lossy().into_owned());
                        let r = run_cli(&args, &sc.root, &[], TIMEOUT);
                        runs += 1;
                        judgements += 1;
                        let shape = format!("construct={label}|mode={}|preexisting={}", if multi { "multi" } else { "single" }, preexisting as u8);
                        let detail = |what: &str| json!({"argv": args, "source": src, "exit_code": r.code, "stderr": r.stderr.chars().take(1500).collect::<String>(), "observation": what, "lang": lang.name()});
                        if variant == "rejecting" {
                            let class = r.class();
                            if class != "error" {
                                rep.vios.add(Violation { sig: format!("C08|cli|{}|expected-error-got-{class}|{shape}", lang.name()), detail: detail("the run must fail with a diagnostic") });
                                continue;
                            }
                            rejected += 1;
                            if !r.stderr.contains(&*srcfile.to_string_lossy()) {
                                rep.vios.add(Violation { sig: format!("C08|cli|{}|diagnostic-does-not-name-file|{shape}", lang.name()), detail: detail("stderr does not contain the offending file's path") });
                            }
                            if preexisting {
                                let same = std::fs::read(&out_file).map(|b| b == sentinel).unwrap_or(false) && mtime(&out_file) == Some(old_time());
                                if !same {
                                    rep.vios.add(Violation { sig: format!("C08|cli|{}|output-modified-on-error|{shape}", lang.name()), detail: detail("pre-existing output changed (bytes or mtime)") });
                                }
                            } else if out_file.exists() || snapshot(&sc.path("out")).len() > 0 {
                                rep.vios.add(Violation { sig: format!("C08|cli|{}|output-written-on-error|{shape}", lang.name()), detail: detail("an output file was created although the run failed") });
                            }
                        } else {
                            if r.class() != "ok" {
                                rep.vios.add(Violation { sig: format!("C08|cli|{}|skipped-construct-still-fails:{}|{shape}", lang.name(), r.class()), detail: detail("with the construct under a skip marker the run must succeed") });
                                continue;
                            }
                            accepted_skipped += 1;
                            let text = std::fs::read_to_string(&out_file).unwrap_or_default();
                            if text.contains("bad") || !text.contains("keep") || text.contains("SENTINEL") {
                                rep.vios.add(Violation { sig: format!("C08|cli|{}|skipped-member-in-output|{shape}", lang.name()), detail: detail(&text) });
                            }
                        }
                    }
                }
            }
        }
    }
    rep.cov(
        "cli_rejection",
        json!({"runs": runs, "judgements": judgements, "rejected_with_error": rejected, "accepted_when_skipped": accepted_skipped, "constructs": c08_sources().iter().map(|c| c.0).collect::<Vec<_>>(),
               "modes": ["single-file -o", "multi-file -d"], "output_states": ["absent", "pre-existing with sentinel bytes and old mtime"], "languages": langs.iter().map(|l| l.name()).collect::<Vec<_>>()}),
    );
    rep.cov_add("evaluations", judgements);
    rep.cov_add("traces_validated_against_impl", runs);
    let _ = File::default();
}

/// the c08 sources start with a well-formed `Good` item; this removes it so that the offending item stands alone
pub fn strip_good_item(src: &str) -> String {
    match src.split_once("\n\n") {
        Some((first, rest)) if first.contains("Good") && rest.contains("#[typeshare") => rest.to_string(),
        _ => src.to_string(),
    }
}

/// C08, arrival orders: one or two files with an unsupported construct among good files of the same fold bucket,
/// every order in which the results can reach the collector (forced through the hooks). The run must fail, name the
/// offending file(s) and leave the pre-existing output untouched whichever file is folded last.
pub fn c08_arrival_family(rep: &mut Report) {
    use crate::e3;
    if !bin_available() {
        return;
    }
    #[derive(Clone)]
    struct Job {
        label: String,
        files: Vec<(String, String)>,
        bad: Vec<String>,
        schedule: Vec<String>,
        lang: Lang,
        multi: bool,
        same_crate: bool,
    }
    let srcs = c08_sources();
    let thorough = rep.thorough();
    let constructs: Vec<&(&'static str, String, Option<String>)> = if thorough { srcs.iter().collect() } else { srcs.iter().filter(|c| ["u64-field", "tuple-struct-2", "enum-no-tag", "flatten", "const-string"].contains(&c.0)).collect() };
    let langs: Vec<Lang> = if thorough { ALL_LANGS.to_vec() } else { vec![Lang::TypeScript, Lang::Kotlin] };
    let mut jobs = Vec::new();
    let perms3: Vec<Vec<usize>> = vec![vec![0, 1, 2], vec![0, 2, 1], vec![1, 0, 2], vec![1, 2, 0], vec![2, 0, 1], vec![2, 1, 0]];
    for (ci, c) in constructs.iter().enumerate() {
        // the item names of the bad file are made unique so that the good files' items cannot shadow them
        let bad_src = c.1.replace("Good", "BadGood").replace("Outer", "BadOuter");
        let second = &constructs[(ci + 1) % constructs.len()];
        let bad2_src = second.1.replace("Good", "SecondGood").replace("Outer", "SecondOuter").replace("NAME", "SECOND_NAME");
        for (two_bad, bad_alone) in [(false, false), (false, true), (true, false)] {
            if two_bad && !thorough && ci > 1 {
                continue;
            }
            // `bad_alone`: the offending item is the only annotated item of its file (one type per file)
            let bad_src = if bad_alone { strip_good_item(&bad_src) } else { bad_src.clone() };
            // layouts: single-file; multi-file with all files in one crate; multi-file with a crate per file, the offending
            // crate sorting before the clean ones (stem fbad) or after them (stem zbad)
            for (multi, same_crate, bad_stem, mode) in [(false, true, "fbad", "single"), (true, true, "fbad", "multi-same-crate"), (true, false, "fbad", "multi-crate-per-file-bad-first"), (true, false, "zbad", "multi-crate-per-file-bad-last")] {
                let files: Vec<(String, String)> = vec![
                    (bad_stem.to_string(), bad_src.clone()),
                    if two_bad { ("fbad2".to_string(), bad2_src.clone()) } else { ("fgood1".to_string(), e3::good_source("fgood1")) },
                    ("fgood2".to_string(), e3::good_source("fgood2")),
                ];
                let bad: Vec<String> = if two_bad { vec![s(bad_stem), s("fbad2")] } else { vec![s(bad_stem)] };
                let stems: Vec<&str> = files.iter().map(|f| f.0.as_str()).collect();
                for perm in &perms3 {
                    // the crate-per-file layouts: identity and reversal of the arrival order (the order of the crates decides there)
                    if !same_crate && perm != &perms3[0] && perm != &perms3[5] {
                        continue;
                    }
                    for &lang in &langs {
                        let mut schedule = e3::start_barrier(&stems);
                        schedule.extend(perm.iter().map(|i| format!("send:{}", stems[*i])));
                        jobs.push(Job {
                            label: format!("construct={}|bad_files={}|alone={}|order={}|mode={mode}", c.0, bad.len(), bad_alone as u8, perm.iter().map(|i| stems[*i]).collect::<Vec<_>>().join(">").replace("zbad", "fbad")),
                            files: files.clone(),
                            bad: bad.clone(),
                            schedule,
                            lang,
                            multi,
                            same_crate,
                        });
                    }
                }
            }
        }
    }
    let results = par_map(&jobs, crate::report::threads(), |j| e3::replay_layout(&j.files, &j.schedule, j.lang, j.multi, j.same_crate, 3, &[]));
    let mut rejected = 0u64;
    for (j, r) in jobs.iter().zip(results.iter()) {
        let detail = |what: &str| json!({"argv": r.argv, "schedule": r.schedule, "files": j.files.iter().map(|(p, b)| json!({"stem": p, "content": b})).collect::<Vec<_>>(), "exit_code": r.code, "stderr": r.stderr.chars().take(1500).collect::<String>(), "observation": what, "lang": j.lang.name()});
        if r.stderr.contains("schedule infeasible") || r.stderr.contains("verif: timeout") {
            rep.machinery(format!("C08 arrival order: forced schedule not followed ({}): {}", j.label, r.stderr.chars().take(200).collect::<String>()));
            continue;
        }
        if r.class != "error" {
            rep.vios.add(Violation { sig: format!("C08|cli-arrival|{}|expected-error-got-{}|{}", j.lang.name(), r.class, j.label), detail: detail("a file with an unsupported construct was folded before other files of its bucket; the run must still fail") });
            continue;
        }
        rejected += 1;
        for b in &j.bad {
            if !r.stderr.contains(&format!("{b}.rs")) {
                rep.vios.add(Violation { sig: format!("C08|cli-arrival|{}|diagnostic-does-not-name-file:{b}|{}", j.lang.name(), j.label), detail: detail("stderr does not name this offending file") });
            }
        }
        if !r.outputs.is_empty() {
            rep.vios.add(Violation { sig: format!("C08|cli-arrival|{}|output-written-on-error|{}", j.lang.name(), j.label), detail: detail("an output file was created although the run failed") });
        }
    }
    rep.cov(
        "cli_rejection_arrival_orders",
        json!({"runs": jobs.len(), "rejected_with_error": rejected, "files_per_run": 3, "orders": 6, "bad_files": [1, 2], "offending_item_alone_in_its_file": [false, true], "modes": ["single-file", "multi-file, one crate", "multi-file, a crate per file: offending crate sorts first / last"],
               "constructs": constructs.iter().map(|c| c.0).collect::<Vec<_>>(), "languages": langs.iter().map(|l| l.name()).collect::<Vec<_>>(), "how": "each file is its own walk root; the hooks release the sends in the given order, so the collector folds the files in exactly that order"}),
    );
    rep.cov_add("evaluations", jobs.len() as u64);
    rep.cov_add("traces_validated_against_impl", jobs.len() as u64);
}

// ------------------------------------------------------------------------------------------
// C07, process level
// ------------------------------------------------------------------------------------------

pub fn par_map<T: Send + Sync, R: Send, F: Fn(&T) -> R + Sync>(items: &[T], threads: usize, f: F) -> Vec<R> {
    let next = AtomicUsize::new(0);
    let out: std::sync::Mutex<Vec<(usize, R)>> = std::sync::Mutex::new(Vec::new());
    std::thread::scope(|s| {
        for _ in 0..threads.max(1).min(items.len().max(1)) {
            s.spawn(|| loop {
                let i = next.fetch_add(1, Ordering::SeqCst);
                if i >= items.len() {
                    break;
                }
                let r = f(&items[i]);
                out.lock().unwrap().push((i, r));
            });
        }
    });
    let mut v = out.into_inner().unwrap();
    v.sort_by_key(|x| x.0);
    v.into_iter().map(|x| x.1).collect()
}

#[derive(Clone, Debug)]
struct ProcCase {
    label: String,
    /// files to create: (relative path, bytes)
    files: Vec<(String, Vec<u8>)>,
    /// extra setup: "symlink:<rel>" dangling symlink, "dir:<rel>" directory
    setup: Vec<String>,
    lang: Lang,
    multi: bool,
    /// the file a parse-stage diagnostic must name (None: no single offending file)
    offending: Option<String>,
    extra_args: Vec<String>,
    /// input directory argument relative to the scratch root
    input: String,
    /// working directory of the process, relative to the scratch root ("" = the root)
    cwd: String,
    /// inputs passed to the binary literally (relative to `cwd`), instead of `input` made absolute
    raw_inputs: Vec<String>,
}

fn proc_cases(thorough: bool) -> Vec<ProcCase> {
    use crate::props::c07::{render_symbol, Sym, BASELINE, SYMBOLS};
    let langs: Vec<Lang> = if thorough { ALL_LANGS.to_vec() } else { vec![Lang::TypeScript, Lang::Kotlin, Lang::Go] };
    let mut v = Vec::new();
    for &lang in &langs {
        for multi in [false, true] {
            // every edge symbol alone, at its first position (positions are covered in-process)
            for (name, sym) in SYMBOLS {
                if !thorough && !multi && !matches!(lang, Lang::TypeScript) && !matches!(sym, Sym::Item(_)) {
                    continue;
                }
                let (s, _) = render_symbol(sym, 0, 0);
                let src = if matches!(sym, Sym::Use(_)) { format!("{s}{BASELINE}") } else { format!("{BASELINE}{s}") };
                v.push(ProcCase {
                    label: format!("symbol:{name}"),
                    files: vec![("ws/edge-crate/src/lib.rs".into(), src.into_bytes()), ("ws/edge-crate/src/other.rs".into(), b"#[typeshare]\npub struct Other { pub o: u32 }\n".to_vec())],
                    setup: vec![],
                    lang,
                    multi,
                    offending: Some("ws/edge-crate/src/lib.rs".into()),
                    // the symbols about members compiled out for the target need a target list
                    extra_args: if name.contains("cfg-out") { vec!["--target-os".to_string(), "ios".to_string()] } else { vec![] },
                    input: "ws".into(),
                    cwd: String::new(),
                    raw_inputs: vec![],
                });
            }
            let good = b"#[typeshare]\npub struct Good { pub a: u32 }\n".to_vec();
            let mut fault = |label: &str, files: Vec<(&str, Vec<u8>)>, setup: Vec<&str>, offending: Option<&str>, extra: Vec<&str>, input: &str| {
                v.push(ProcCase {
                    label: format!("fault:{label}"),
                    files: files.into_iter().map(|(p, b)| (p.to_string(), b)).collect(),
                    setup: setup.into_iter().map(String::from).collect(),
                    lang,
                    multi,
                    offending: offending.map(String::from),
                    extra_args: extra.into_iter().map(String::from).collect(),
                    input: input.to_string(),
                    cwd: String::new(),
                    raw_inputs: vec![],
                });
            };
            // runs that find an earlier output in place: one that has more at its end, one that has less, the same one
            {
                let two = b"#[typeshare]\npub struct Alpha { pub a: u32 }\n#[typeshare]\npub struct Beta { pub b: u32 }\n".to_vec();
                let three = b"#[typeshare]\npub struct Alpha { pub a: u32 }\n#[typeshare]\npub struct Beta { pub b: u32 }\n#[typeshare]\npub struct Zulu { pub z: u32 }\n".to_vec();
                fault("rerun-after-the-last-type-was-removed", vec![("ws/c/src/lib.rs", two.clone()), ("before/c/src/lib.rs", three.clone())], vec!["first-run:before"], None, vec![], "ws");
                fault("rerun-after-a-type-was-added-at-the-end", vec![("ws/c/src/lib.rs", three.clone()), ("before/c/src/lib.rs", two.clone())], vec!["first-run:before"], None, vec![], "ws");
                fault("rerun-unchanged", vec![("ws/c/src/lib.rs", two.clone()), ("before/c/src/lib.rs", two.clone())], vec!["first-run:before"], None, vec![], "ws");
                fault("rerun-onto-the-same-output-with-bytes-appended", vec![("ws/c/src/lib.rs", two.clone()), ("before/c/src/lib.rs", two.clone())], vec!["first-run:before", "append-to-output:\n// appended by hand\n"], None, vec![], "ws");
            }
            fault("invalid-utf8", vec![("ws/c/src/good.rs", good.clone()), ("ws/c/src/bad.rs", b"#[typeshare]\npub struct B { pub a: u32 } // \xff\xfe\n".to_vec())], vec![], Some("ws/c/src/bad.rs"), vec![], "ws");
            fault("not-rust", vec![("ws/c/src/good.rs", good.clone()), ("ws/c/src/bad.rs", b"#[typeshare] this is not ( rust {{{\n".to_vec())], vec![], Some("ws/c/src/bad.rs"), vec![], "ws");
            fault("unclosed-attribute", vec![("ws/c/src/bad.rs", b"#[typeshare\npub struct B { pub a: u32 }\n".to_vec())], vec![], Some("ws/c/src/bad.rs"), vec![], "ws");
            fault("dangling-symlink", vec![("ws/c/src/good.rs", good.clone())], vec!["symlink:ws/c/src/dangling.rs"], None, vec![], "ws");
            fault("dangling-symlink-followed", vec![("ws/c/src/good.rs", good.clone())], vec!["symlink:ws/c/src/dangling.rs"], None, vec!["-L"], "ws");
            fault("directory-named-rs", vec![("ws/c/src/good.rs", good.clone()), ("ws/c/src/dir.rs/inner.rs", good.clone())], vec![], None, vec![], "ws");
            fault("empty-directory", vec![], vec!["dir:ws/c/src"], None, vec![], "ws");
            fault("no-annotated-item", vec![("ws/c/src/plain.rs", b"pub struct Plain { pub a: u32 }\n".to_vec())], vec![], None, vec![], "ws");
            fault("empty-file", vec![("ws/c/src/empty.rs", Vec::new()), ("ws/c/src/good.rs", good.clone())], vec![], None, vec![], "ws");
            fault("missing-input-directory", vec![("ws/c/src/good.rs", good.clone())], vec![], None, vec![], "does-not-exist");
            fault("input-is-a-file", vec![("ws/c/src/good.rs", good.clone())], vec![], None, vec![], "ws/c/src/good.rs");
            fault("missing-config-file", vec![("ws/c/src/good.rs", good.clone())], vec![], None, vec!["-c", "no-such.toml"], "ws");
            fault("invalid-config-file", vec![("ws/c/src/good.rs", good.clone()), ("bad.toml", b"[swift\nprefix = = 3".to_vec())], vec![], None, vec!["-c", "bad.toml"], "ws");
            fault("config-wrong-types", vec![("ws/c/src/good.rs", good.clone()), ("bad.toml", b"[swift]\nprefix = 3\n[go]\nuppercase_acronyms = \"x\"\n".to_vec())], vec![], None, vec!["-c", "bad.toml"], "ws");
            fault("only-commented-annotation", vec![("ws/c/src/c.rs", b"// #[typeshare]\npub struct C { pub a: u32 }\n".to_vec())], vec![], None, vec![], "ws");
            fault("bom-prefixed", vec![("ws/c/src/bom.rs", [b"\xef\xbb\xbf".to_vec(), good.clone()].concat())], vec![], None, vec![], "ws");
            fault("crlf-line-endings", vec![("ws/c/src/crlf.rs", b"#[typeshare]\r\npub struct Good { pub a: u32 }\r\n".to_vec())], vec![], None, vec![], "ws");
            // more annotated files than the result channel holds (capacity 100), free running
            for n in [100usize, 101, 130, 260] {
                if !thorough && n == 260 {
                    continue;
                }
                v.push(ProcCase {
                    label: format!("many-files:{n}"),
                    files: (0..n).map(|i| (format!("ws/big/src/m{i:03}.rs"), format!("#[typeshare]\npub struct M{i:03} {{ pub a: u32 }}\n").into_bytes())).collect(),
                    setup: vec![],
                    lang,
                    multi,
                    offending: None,
                    extra_args: vec![],
                    input: "ws".into(),
                    cwd: String::new(),
                    raw_inputs: vec![],
                });
            }
            // how the input directory is spelled on the command line, relative to where the process runs
            for (cwd, inputs) in [
                ("ws/mycrate", vec!["src"]),
                ("ws/mycrate", vec!["src/"]),
                ("ws/mycrate", vec!["."]),
                ("ws/mycrate", vec!["./"]),
                ("ws/mycrate", vec!["./src"]),
                ("ws/mycrate", vec!["../mycrate/src"]),
                ("ws/mycrate", vec!["src/sub"]),
                ("ws/mycrate", vec!["src/lib.rs"]),
                ("ws/mycrate", vec!["src", "src"]),
                ("ws/mycrate", vec!["src", "src/sub"]),
                ("ws", vec!["mycrate"]),
                ("ws", vec!["mycrate/"]),
                ("ws", vec!["mycrate/src"]),
                ("ws", vec!["."]),
                ("ws", vec!["mycrate", "other-crate"]),
                ("ws/mycrate/src", vec!["."]),
                ("ws/mycrate/src", vec![".."]),
                ("ws/mycrate/src", vec!["sub"]),
                ("ws/mycrate/src", vec!["../.."]),
                ("", vec!["ws"]),
                ("", vec!["src"]),
                ("", vec!["."]),
                ("src", vec!["."]),
                ("src", vec!["../src"]),
            ] {
                v.push(ProcCase {
                    label: format!("argshape:cwd={}:inputs={}", if cwd.is_empty() { "root" } else { cwd }, inputs.join("+")),
                    files: vec![
                        ("ws/mycrate/src/lib.rs".into(), good.clone()),
                        ("ws/mycrate/src/sub/more.rs".into(), b"#[typeshare]\npub struct More { pub m: u32 }\n".to_vec()),
                        ("ws/other-crate/src/lib.rs".into(), b"#[typeshare]\npub struct Other { pub o: u32 }\n".to_vec()),
                        // a `src` directory with nothing above it
                        ("src/lib.rs".into(), b"#[typeshare]\npub struct Rootless { pub r: u32 }\n".to_vec()),
                        ("src/deep/x.rs".into(), b"#[typeshare]\npub struct Deep { pub d: u32 }\n".to_vec()),
                    ],
                    setup: vec![],
                    lang,
                    multi,
                    offending: None,
                    extra_args: vec![],
                    input: String::new(),
                    cwd: cwd.to_string(),
                    raw_inputs: inputs.iter().map(|s| s.to_string()).collect(),
                });
            }
        }
    }
    v
}

#[derive(Debug)]
struct ProcObs {
    class: &'static str,
    code: Option<i32>,
    stderr: String,
    output_present: bool,
    names_offending: bool,
    argv: Vec<String>,
}

fn run_proc_case(c: &ProcCase, timeout: Duration) -> ProcObs {
    let sc = Scratch::new("c07");
    for (p, b) in &c.files {
        sc.write(p, b);
    }
    for s in &c.setup {
        if let Some(rel) = s.strip_prefix("symlink:") {
            let p = sc.path(rel);
            if let Some(d) = p.parent() {
                let _ = std::fs::create_dir_all(d);
            }
            let _ = std::os::unix::fs::symlink(sc.path("nowhere/target.rs"), &p);
        } else if let Some(rel) = s.strip_prefix("dir:") {
            sc.mkdir(rel);
        }
    }
    sc.mkdir("out");
    let mut args = lang_args(c.lang);
    // an empty Scala package is its own symbol elsewhere; keep packages valid here
    let out_path = if c.multi { sc.path("out") } else { sc.path(&format!("out/types.{}", c.lang.ext())) };
    args.extend([s(if c.multi { "-d" } else { "-o" }), out_path.to_string_lossy().into_owned()]);
    let mut i = 0;
    while i < c.extra_args.len() {
        if c.extra_args[i] == "-c" {
            args.push(s("-c"));
            args.push(sc.path(&c.extra_args[i + 1]).to_string_lossy().into_owned());
            i += 2;
        } else {
            args.push(c.extra_args[i].clone());
            i += 1;
        }
    }
    if c.raw_inputs.is_empty() {
        args.push(sc.path(&c.input).to_string_lossy().into_owned());
    } else {
        args.extend(c.raw_inputs.iter().cloned());
    }
    let cwd = if c.cwd.is_empty() { sc.root.clone() } else { sc.path(&c.cwd) };
    // "first-run:<rel>": the same command on another input tree first, so that the measured run finds that output in place
    for st in &c.setup {
        if let Some(rel) = st.strip_prefix("first-run:") {
            let mut a1 = args.clone();
            a1.pop();
            a1.push(sc.path(rel).to_string_lossy().into_owned());
            let _ = run_cli(&a1, &cwd, &[], Duration::from_secs(20));
        } else if let Some(extra) = st.strip_prefix("append-to-output:") {
            // bytes appended to every file of the output location (an output that is longer than, and starts with, the new one)
            for (name, bytes) in snapshot(&sc.path("out")) {
                let mut b = bytes;
                b.extend_from_slice(extra.as_bytes());
                let _ = std::fs::write(sc.path(&format!("out/{name}")), b);
            }
        }
    }
    let r = run_cli(&args, &cwd, &[], timeout);
    let output_present = if c.multi { !snapshot(&sc.path("out")).is_empty() } else { out_path.is_file() };
    let names_offending = c.offending.as_ref().map(|o| r.stderr.contains(&*sc.path(o).to_string_lossy())).unwrap_or(true);
    ProcObs { class: r.class(), code: r.code, stderr: r.stderr.chars().take(1200).collect(), output_present, names_offending, argv: args }
}

pub fn c07_cli_family(rep: &mut Report) {
    if !bin_available() {
        rep.machinery(format!("hooks-on CLI binary missing at {BIN}"));
        return;
    }
    let cases = proc_cases(rep.thorough());
    let watchdog = Duration::from_secs(4);
    let mut obs = par_map(&cases, crate::report::threads(), |c| run_proc_case(c, watchdog));
    // a watchdog hit is confirmed under lighter load with a longer watchdog before it is believed
    let hung: Vec<usize> = obs.iter().enumerate().filter(|(_, o)| o.class == "hang").map(|(i, _)| i).collect();
    let rerun = hung.len();
    let again = par_map(&hung, 4, |i| run_proc_case(&cases[*i], Duration::from_secs(12)));
    for (i, o) in hung.iter().zip(again) {
        obs[*i] = o;
    }
    let mut classes: BTreeMap<String, u64> = BTreeMap::new();
    for (c, o) in cases.iter().zip(obs.iter()) {
        *classes.entry(o.class.to_string()).or_insert(0) += 1;
        let mode = if c.multi { "multi" } else { "single" };
        let detail = |what: &str, o: &ProcObs| json!({"case": c.label, "lang": c.lang.name(), "mode": mode, "argv": o.argv, "files": c.files.iter().map(|(p, b)| json!({"path": p, "content": String::from_utf8_lossy(b)})).collect::<Vec<_>>(), "setup": c.setup, "exit_code": o.code, "stderr": o.stderr, "observation": what});
        match o.class {
            "ok" => {
                // exit 0 must come with the requested output, unless there is nothing to write
                let nothing_expected = c.label.contains("empty") || c.label.contains("no-annotated") || c.label.contains("commented");
                if !o.output_present && !nothing_expected && c.label.starts_with("fault:") {
                    rep.vios.add(Violation { sig: format!("C07|cli|exit-0-without-output|{}|mode={mode}", c.label), detail: detail("exit status 0 but no output file", o) });
                }
            }
            "error" => {
                if o.stderr.trim().is_empty() {
                    rep.vios.add(Violation { sig: format!("C07|cli|error-without-diagnostic|{}|mode={mode}", c.label), detail: detail("non-zero exit and empty stderr", o) });
                } else if !o.names_offending && o.stderr.contains("Parsing") {
                    rep.vios.add(Violation { sig: format!("C07|cli|diagnostic-does-not-name-file|{}|mode={mode}", c.label), detail: detail("parse-stage failure without the offending file's path", o) });
                }
            }
            "usage-error" => {}
            bad => {
                // hang / panic / killed: the process did not terminate cleanly
                let site = if bad == "panic" {
                    o.stderr.lines().find(|l| l.contains("panicked at")).map(|l| {
                        let l = l.rsplit('/').next().unwrap_or(l);
                        l.chars().map(|ch| if ch.is_ascii_digit() { 'N' } else { ch }).collect::<String>()
                    }).unwrap_or_default()
                } else {
                    String::new()
                };
                rep.vios.add(Violation { sig: format!("C07|cli|{bad}|{}|lang={}|mode={mode}|{site}", c.label, c.lang.name()), detail: detail("process did not terminate with output or a diagnostic", o) });
            }
        }
    }
    rep.cov("cli_totality", json!({"process_runs": cases.len(), "outcome_classes": classes, "hangs_rerun_with_longer_watchdog": rerun, "watchdog_s": [4, 12], "cases": "every edge symbol alone + 17 file-level / argument faults + 24 spellings of the input argument (relative paths, working directories) × languages × single/multi"}));
    rep.cov_add("evaluations", cases.len() as u64);
    rep.cov_add("traces_validated_against_impl", cases.len() as u64);
}
