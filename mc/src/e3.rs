//! E3: protocol model (TLA+/TLC) bound to the code by replaying every maximal path of the
//! model's state graph as a forced schedule on the real binary.
#![allow(dead_code)]
use crate::cli::{self, run_cli, s, Scratch};
use crate::pipeline::Lang;
use std::collections::{BTreeMap, BTreeSet};
use std::path::{Path, PathBuf};
use std::process::Command;
use std::time::Duration;

pub const MODEL: &str = "/verif/models/WalkCollect.tla";

#[derive(Debug, Clone)]
pub struct Graph {
    pub init: u64,
    /// node -> (label of the event that produced it is on the edge) successors
    pub edges: BTreeMap<u64, Vec<(String, u64)>>,
    pub node_text: BTreeMap<u64, String>,
    pub states: usize,
    pub transitions: usize,
    pub tlc_summary: String,
}

#[derive(Debug, Clone)]
pub struct ModelPath {
    pub events: Vec<String>,
    /// predicted observables at the end of the path
    pub first_err: Option<String>,
    pub folded: Vec<String>,
    pub lost: Vec<String>,
}

fn cache_dir() -> PathBuf {
    PathBuf::from("/verif/target/e3")
}

/// Run TLC on the model with the given constants (cached by content of model + constants).
pub fn tlc_graph(files: &[&str], err_files: &[&str]) -> Result<Graph, String> {
    let model = std::fs::read_to_string(MODEL).map_err(|e| format!("cannot read {MODEL}: {e}"))?;
    let key = format!("{:016x}", crate::report::fnv64(&format!("{model}|{files:?}|{err_files:?}")));
    let dir = cache_dir().join(&key);
    let dot = dir.join("graph.dot");
    let log = dir.join("tlc.log");
    if !dot.is_file() || !log.is_file() {
        let _ = std::fs::remove_dir_all(&dir);
        std::fs::create_dir_all(&dir).map_err(|e| e.to_string())?;
        std::fs::write(dir.join("WalkCollect.tla"), &model).map_err(|e| e.to_string())?;
        let cfg = format!(
            "SPECIFICATION Spec\nCONSTANTS\n  Files = {{{}}}\n  ErrFiles = {{{}}}\nINVARIANTS TypeOK SuccessComplete ErrorIsReal NoErrNoFailure LostOnlyAfterError ErrMeansFailure\nPROPERTY Termination\n",
            files.join(", "),
            err_files.join(", ")
        );
        std::fs::write(dir.join("MC.cfg"), cfg).map_err(|e| e.to_string())?;
        let out = Command::new("tlc")
            .args(["-config", "MC.cfg", "-dump", "dot,actionlabels", "graph.dot", "-workers", "1", "WalkCollect.tla"])
            .current_dir(&dir)
            .output()
            .map_err(|e| format!("cannot run tlc: {e}"))?;
        let text = format!("{}{}", String::from_utf8_lossy(&out.stdout), String::from_utf8_lossy(&out.stderr));
        std::fs::write(&log, &text).map_err(|e| e.to_string())?;
        if !text.contains("Model checking completed. No error has been found.") {
            let _ = std::fs::remove_file(&dot);
            return Err(format!("TLC reported a problem with the model itself:\n{}", text.lines().rev().take(30).collect::<Vec<_>>().into_iter().rev().collect::<Vec<_>>().join("\n")));
        }
    }
    let text = std::fs::read_to_string(&dot).map_err(|e| e.to_string())?;
    let tlc_log = std::fs::read_to_string(&log).unwrap_or_default();
    let summary = tlc_log.lines().find(|l| l.contains("distinct states found") && l.contains("states generated") && !l.starts_with("Progress")).unwrap_or("").to_string();
    parse_dot(&text, summary)
}

fn parse_dot(text: &str, tlc_summary: String) -> Result<Graph, String> {
    let mut edges: BTreeMap<u64, Vec<(String, u64)>> = BTreeMap::new();
    let mut node_text = BTreeMap::new();
    let mut init = None;
    let mut transitions = 0;
    for line in text.lines() {
        let line = line.trim();
        let Some(first) = line.split_whitespace().next() else { continue };
        let Ok(id) = first.parse::<i64>().map(|v| v as u64).or_else(|_| first.parse::<u64>()) else { continue };
        let rest = &line[first.len()..].trim_start();
        if let Some(r) = rest.strip_prefix("->") {
            let r = r.trim_start();
            let tgt_s = r.split_whitespace().next().unwrap_or("");
            let tgt = tgt_s.parse::<i64>().map(|v| v as u64).or_else(|_| tgt_s.parse::<u64>()).map_err(|_| format!("bad edge line: {line}"))?;
            let label = r.split("label=\"").nth(1).and_then(|x| x.split('"').next()).unwrap_or("").to_string();
            if tgt != id {
                edges.entry(id).or_default().push((label, tgt));
                transitions += 1;
            }
        } else if let Some(l) = rest.strip_prefix("[label=\"") {
            // end of the quoted label: the first quote that is not escaped
            let mut end = l.len();
            let mut esc = false;
            for (i, ch) in l.char_indices() {
                if esc {
                    esc = false;
                } else if ch == '\\' {
                    esc = true;
                } else if ch == '"' {
                    end = i;
                    break;
                }
            }
            let t = l[..end].replace("\\n", "\n").replace("\\\"", "\"").replace("\\\\", "\\");
            if line.contains("style = filled") && init.is_none() {
                init = Some(id);
            }
            node_text.entry(id).or_insert(t);
        }
    }
    let init = init.ok_or("no initial state in TLC dump")?;
    let states = node_text.len();
    Ok(Graph { init, edges, node_text, states, transitions, tlc_summary })
}

fn field(text: &str, name: &str) -> String {
    for l in text.lines() {
        let l = l.trim().trim_start_matches("/\\").trim();
        if let Some(v) = l.strip_prefix(&format!("{name} = ")) {
            return v.trim().to_string();
        }
    }
    String::new()
}

fn seq_items(v: &str) -> Vec<String> {
    v.trim_matches(|c| c == '<' || c == '>' || c == '{' || c == '}').split(',').map(|x| x.trim().trim_matches('"').to_string()).filter(|x| !x.is_empty()).collect()
}

/// action label of the TLC dump -> label of the hook point
fn event_label(action: &str, target_text: &str) -> String {
    if let Some(f) = action.strip_prefix("Send(").and_then(|x| x.strip_suffix(')')) {
        return format!("send:{f}");
    }
    match action {
        "Recv" => format!("recv:{}", field(target_text, "nrecv")),
        "CollectorExit" => "collector_exit".into(),
        "DropTx" => "drop_tx".into(),
        other => other.to_string(),
    }
}

/// Every maximal path from the initial state (the graph is acyclic apart from the stuttering step at the end).
pub fn all_paths(g: &Graph, cap: usize) -> (Vec<ModelPath>, bool) {
    let mut out = Vec::new();
    let mut capped = false;
    let mut stack: Vec<(u64, Vec<String>)> = vec![(g.init, Vec::new())];
    while let Some((node, evs)) = stack.pop() {
        let succ = g.edges.get(&node).cloned().unwrap_or_default();
        if succ.is_empty() {
            let t = g.node_text.get(&node).cloned().unwrap_or_default();
            let fe = field(&t, "firstErr").trim_matches('"').to_string();
            out.push(ModelPath { events: evs, first_err: if fe == "none" || fe.is_empty() { None } else { Some(fe) }, folded: seq_items(&field(&t, "folded")), lost: seq_items(&field(&t, "lost")) });
            if out.len() >= cap {
                capped = true;
                break;
            }
            continue;
        }
        for (a, tgt) in succ.into_iter().rev() {
            let tt = g.node_text.get(&tgt).cloned().unwrap_or_default();
            let mut e = evs.clone();
            e.push(event_label(&a, &tt));
            stack.push((tgt, e));
        }
    }
    out.sort_by(|a, b| a.events.cmp(&b.events));
    (out, capped)
}

#[derive(Debug, Clone)]
pub struct Replay {
    pub class: &'static str,
    pub code: Option<i32>,
    pub stderr: String,
    /// labels in the order the hook let them pass
    pub passed: Vec<String>,
    pub outputs: BTreeMap<String, Vec<u8>>,
    pub argv: Vec<String>,
    pub schedule: String,
}

/// Run the real binary on `files` (stem -> source), each passed as its own root, under a forced schedule.
pub fn replay(files: &[(String, String)], schedule: &[String], lang: Lang, multi: bool, threads: usize, extra_env: &[(&str, String)]) -> Replay {
    replay_layout(files, schedule, lang, multi, false, threads, extra_env)
}

/// As `replay` in multi-file mode, with an explicit crate per file: `files` = (stem, crate, source).
pub fn replay_crates(files: &[(String, String, String)], schedule: &[String], lang: Lang, threads: usize) -> Replay {
    let sc = Scratch::new("e3");
    let mut args = cli::lang_args(lang);
    let out = sc.path("out");
    sc.mkdir("out");
    args.extend([s("-d"), out.to_string_lossy().into_owned()]);
    for (stem, krate, src) in files {
        // a source of the form `-><crate>/<stem>` makes this file a symbolic link to that (earlier) file
        let p = if let Some(target) = src.strip_prefix("->") {
            sc.mkdir(&format!("ws/{krate}/src"));
            let p = sc.path(&format!("ws/{krate}/src/{stem}.rs"));
            let (tc, ts) = target.split_once('/').unwrap_or(("", target));
            let _ = std::os::unix::fs::symlink(sc.path(&format!("ws/{tc}/src/{ts}.rs")), &p);
            p
        } else {
            sc.write(&format!("ws/{krate}/src/{stem}.rs"), src.as_bytes())
        };
        args.push(p.to_string_lossy().into_owned());
    }
    let expanded: Vec<String> = schedule.iter().flat_map(|l| match l.strip_prefix("send:") {
        Some(f) => vec![l.clone(), format!("sent:{f}")],
        None => vec![l.clone()],
    }).collect();
    let sched = expanded.join(",");
    let env: Vec<(&str, String)> = vec![("TYPESHARE_VERIF_SCHEDULE", sched.clone()), ("TYPESHARE_VERIF_THREADS", threads.to_string()), ("TYPESHARE_VERIF_TRACE", "1".into())];
    let r = run_cli(&args, &sc.root, &env, Duration::from_secs(30));
    let passed = r.stderr.lines().filter_map(|l| l.strip_prefix("verif: passed ").map(String::from)).filter(|l| !l.starts_with("sent:")).collect();
    let outputs = cli::snapshot(&sc.path("out"));
    Replay { class: r.class(), code: r.code, stderr: r.stderr.chars().take(2000).collect(), passed, outputs, argv: args, schedule: sched }
}

/// As `replay`; with `same_crate` all files of a multi-file run belong to one crate (one output file, one fold bucket).
pub fn replay_layout(files: &[(String, String)], schedule: &[String], lang: Lang, multi: bool, same_crate: bool, threads: usize, extra_env: &[(&str, String)]) -> Replay {
    replay_layout_roots(files, schedule, lang, multi, same_crate, threads, extra_env, false)
}

/// As `replay` without a forced schedule, the files found by walking the one directory they lie in (what the walker is
/// configured to leave out applies to them, unlike to files named as roots).
pub fn replay_below_a_directory(files: &[(String, String)], lang: Lang, multi: bool, threads: usize) -> Replay {
    replay_layout_roots(files, &[], lang, multi, false, threads, &[], true)
}

#[allow(clippy::too_many_arguments)]
fn replay_layout_roots(files: &[(String, String)], schedule: &[String], lang: Lang, multi: bool, same_crate: bool, threads: usize, extra_env: &[(&str, String)], directory_root: bool) -> Replay {
    let sc = Scratch::new("e3");
    let mut args = cli::lang_args(lang);
    let out = if multi { sc.path("out") } else { sc.path(&format!("out/types.{}", lang.ext())) };
    sc.mkdir("out");
    args.extend([s(if multi { "-d" } else { "-o" }), out.to_string_lossy().into_owned()]);
    for (stem, src) in files {
        // multi-file mode derives the crate from the directory above `src`
        let rel = match (multi, same_crate) {
            (true, true) => format!("ws/crate_one/src/{stem}.rs"),
            (true, false) => format!("ws/crate_{stem}/src/{stem}.rs"),
            _ => format!("ws/{stem}.rs"),
        };
        let p = sc.write(&rel, src.as_bytes());
        if !directory_root {
            args.push(p.to_string_lossy().into_owned());
        }
    }
    if directory_root {
        args.push(sc.path("ws").to_string_lossy().into_owned());
    }
    // the order of the actual enqueue operations is fixed by waiting for `sent:<f>` before the next event
    // `send-unconfirmed:<f>` releases the walker without waiting for its send to return (it may block on a full channel)
    let expanded: Vec<String> = schedule.iter().flat_map(|l| match (l.strip_prefix("send:"), l.strip_prefix("send-unconfirmed:")) {
        (Some(f), _) => vec![l.clone(), format!("sent:{f}")],
        (_, Some(f)) => vec![format!("send:{f}")],
        _ => vec![l.clone()],
    }).collect();
    let sched = expanded.join(",");
    let mut env: Vec<(&str, String)> = vec![("TYPESHARE_VERIF_SCHEDULE", sched.clone()), ("TYPESHARE_VERIF_THREADS", threads.to_string()), ("TYPESHARE_VERIF_TRACE", "1".into())];
    env.extend(extra_env.iter().cloned());
    let r = run_cli(&args, &sc.root, &env, Duration::from_secs(30));
    let passed = r.stderr.lines().filter_map(|l| l.strip_prefix("verif: passed ").map(String::from)).filter(|l| !l.starts_with("sent:")).collect();
    let outputs = cli::snapshot(&sc.path("out"));
    Replay { class: r.class(), code: r.code, stderr: r.stderr.chars().take(2000).collect(), passed, outputs, argv: args, schedule: sched }
}

pub fn start_barrier(stems: &[&str]) -> Vec<String> {
    stems.iter().map(|f| format!("start:{f}")).collect()
}

pub fn good_source(stem: &str) -> String {
    format!(
        "#[typeshare]\npub struct S{stem} {{ pub a: u32, pub other: Option<E{stem}> }}\n\n#[typeshare]\npub enum E{stem} {{ One, Two }}\n\n#[typeshare]\npub type A{stem} = Vec<S{stem}>;\n\n#[typeshare]\npub const C_{}: u32 = 7;\n",
        stem.to_uppercase()
    )
}

pub fn bad_source(stem: &str) -> String {
    format!("#[typeshare]\npub struct S{stem} {{ this is not rust (((\n")
}

pub fn distinct<T: Ord + Clone>(v: &[T]) -> usize {
    v.iter().cloned().collect::<BTreeSet<_>>().len()
}

pub fn exists(p: &Path) -> bool {
    p.exists()
}
