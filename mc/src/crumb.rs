//! Crash breadcrumbs. The code under test runs in-process; an abort (stack overflow, allocation
//! failure, `abort()`) cannot be caught by `catch_unwind`. Each worker thread notes the case it is
//! about to execute in a fixed slot; a SIGABRT/SIGSEGV/SIGBUS handler writes that case to a
//! replay file that was opened at start-up, prints the `VIOLATION` line and exits with status 1.
//! A crash of the subject is thereby reported as what it is, with the crashing input attached.
use std::cell::Cell;
use std::sync::atomic::{AtomicI32, AtomicUsize, Ordering};

const SLOTS: usize = 96;
const SLOT_BYTES: usize = 24 * 1024;

struct Slot {
    len: AtomicUsize,
    buf: std::cell::UnsafeCell<[u8; SLOT_BYTES]>,
}
unsafe impl Sync for Slot {}

static SLOT_TABLE: [Slot; SLOTS] = [const { Slot { len: AtomicUsize::new(0), buf: std::cell::UnsafeCell::new([0u8; SLOT_BYTES]) } }; SLOTS];
static NEXT_SLOT: AtomicUsize = AtomicUsize::new(0);
static CRASH_FD: AtomicI32 = AtomicI32::new(-1);
static mut HEADER: [u8; 256] = [0u8; 256];
static HEADER_LEN: AtomicUsize = AtomicUsize::new(0);

thread_local! {
    static MY_SLOT: Cell<usize> = const { Cell::new(usize::MAX) };
}

fn my_slot() -> usize {
    MY_SLOT.with(|c| {
        if c.get() == usize::MAX {
            c.set(NEXT_SLOT.fetch_add(1, Ordering::Relaxed) % SLOTS);
        }
        c.get()
    })
}

/// Note the case this thread is about to run (truncated to the slot size).
pub fn note(lang: &str, cfg: &str, sources: &[(&str, &str)]) {
    let i = my_slot();
    let slot = &SLOT_TABLE[i];
    // SAFETY: only this thread writes its slot; the signal handler reads it on the same thread
    let buf = unsafe { &mut *slot.buf.get() };
    let mut n = 0usize;
    let mut push = |s: &[u8]| {
        let k = s.len().min(SLOT_BYTES - n);
        buf[n..n + k].copy_from_slice(&s[..k]);
        n += k;
    };
    push(b"language: ");
    push(lang.as_bytes());
    push(b"\nconfig: ");
    push(cfg.as_bytes());
    for (path, src) in sources {
        push(b"\n---- file ");
        push(path.as_bytes());
        push(b"\n");
        push(src.as_bytes());
    }
    slot.len.store(n, Ordering::Release);
}

pub fn clear() {
    let i = my_slot();
    SLOT_TABLE[i].len.store(0, Ordering::Release);
}

extern "C" fn on_crash(sig: libc::c_int) {
    // async-signal-safe calls only: write, _exit
    let fd = CRASH_FD.load(Ordering::Relaxed);
    let i = MY_SLOT.with(|c| c.get());
    unsafe {
        if fd >= 0 {
            let msg = b"{\"note\": \"the process died while running the real typeshare code in-process on the case below (text follows this line)\"}\n";
            libc::write(fd, msg.as_ptr() as *const libc::c_void, msg.len());
            if i < SLOTS {
                let slot = &SLOT_TABLE[i];
                let n = slot.len.load(Ordering::Acquire);
                let buf = &*slot.buf.get();
                libc::write(fd, buf.as_ptr() as *const libc::c_void, n);
            }
            libc::fsync(fd);
        }
        let h = HEADER_LEN.load(Ordering::Relaxed);
        #[allow(static_mut_refs)]
        libc::write(1, HEADER.as_ptr() as *const libc::c_void, h);
        let tail: &[u8] = match sig {
            libc::SIGABRT => b"  crash: SIGABRT (abort / stack overflow) in the code under test\n",
            libc::SIGSEGV => b"  crash: SIGSEGV in the code under test\n",
            _ => b"  crash: fatal signal in the code under test\n",
        };
        libc::write(1, tail.as_ptr() as *const libc::c_void, tail.len());
        libc::_exit(1);
    }
}

/// Install the handlers for a check of `property`; the replay file is created now (and removed again by `disarm`).
pub fn arm(property: &str) {
    let dir = format!("/verif/replays/{property}");
    let _ = std::fs::create_dir_all(&dir);
    let path = format!("{dir}/crash-{}.txt", std::process::id());
    let cpath = std::ffi::CString::new(path.clone()).unwrap();
    let fd = unsafe { libc::open(cpath.as_ptr(), libc::O_CREAT | libc::O_WRONLY | libc::O_TRUNC, 0o644) };
    CRASH_FD.store(fd, Ordering::Relaxed);
    let line = format!("VIOLATION property={property} replay={path}\n");
    let b = line.as_bytes();
    let n = b.len().min(256);
    #[allow(static_mut_refs)]
    unsafe {
        HEADER[..n].copy_from_slice(&b[..n]);
    }
    HEADER_LEN.store(n, Ordering::Relaxed);
    unsafe {
        let mut sa: libc::sigaction = std::mem::zeroed();
        sa.sa_sigaction = on_crash as usize;
        sa.sa_flags = libc::SA_ONSTACK;
        libc::sigemptyset(&mut sa.sa_mask);
        libc::sigaction(libc::SIGABRT, &sa, std::ptr::null_mut());
        libc::sigaction(libc::SIGBUS, &sa, std::ptr::null_mut());
        // SIGSEGV is left to the Rust runtime: it recognises stack overflow, reports it and calls abort()
    }
}

/// Normal end of a check: remove the (empty) crash file.
pub fn disarm(property: &str) {
    let path = format!("/verif/replays/{property}/crash-{}.txt", std::process::id());
    let _ = std::fs::remove_file(path);
}
