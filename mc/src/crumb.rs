//! Crash breadcrumbs. The code under test runs in-process; an abort (stack overflow, allocation
//! failure, `abort()`) cannot be caught by `catch_unwind`. Each worker thread notes the case it is
//! about to execute in a fixed slot; a SIGABRT/SIGSEGV/SIGBUS handler writes that case to a
//! replay file that was opened at start-up, prints the `VIOLATION` line and exits with status 1.
//! A crash of the subject is thereby reported as what it is, with the crashing input attached.
use std::cell::Cell;
use std::sync::atomic::{AtomicI32, AtomicUsize, Ordering};

const SLOTS: usize = 96;
const SLOT_BYTES: usize = 24 * 1024;

struct Slot {
    /// milliseconds since `arm` at which the noted case started (0 = the subject is not running on this thread)
    started_ms: std::sync::atomic::AtomicU64,
    len: AtomicUsize,
    buf: std::cell::UnsafeCell<[u8; SLOT_BYTES]>,
}
unsafe impl Sync for Slot {}

static SLOT_TABLE: [Slot; SLOTS] = [const { Slot { started_ms: std::sync::atomic::AtomicU64::new(0), len: AtomicUsize::new(0), buf: std::cell::UnsafeCell::new([0u8; SLOT_BYTES]) } }; SLOTS];
static NEXT_SLOT: AtomicUsize = AtomicUsize::new(0);
static CRASH_FD: AtomicI32 = AtomicI32::new(-1);
static mut HEADER: [u8; 256] = [0u8; 256];
static HEADER_LEN: AtomicUsize = AtomicUsize::new(0);

thread_local! {
    static MY_SLOT: Cell<usize> = const { Cell::new(usize::MAX) };
}

fn my_slot() -> usize {
    MY_SLOT.with(|c| {
        if c.get() == usize::MAX {
            c.set(NEXT_SLOT.fetch_add(1, Ordering::Relaxed) % SLOTS);
        }
        c.get()
    })
}

/// Note the case this thread is about to run (truncated to the slot size).
pub fn note(lang: &str, cfg: &str, sources: &[(&str, &str)]) {
    let i = my_slot();
    let slot = &SLOT_TABLE[i];
    // SAFETY: only this thread writes its slot; the signal handler reads it on the same thread
    let buf = unsafe { &mut *slot.buf.get() };
    let mut n = 0usize;
    let mut push = |s: &[u8]| {
        let k = s.len().min(SLOT_BYTES - n);
        buf[n..n + k].copy_from_slice(&s[..k]);
        n += k;
    };
    push(b"language: ");
    push(lang.as_bytes());
    push(b"\nconfig: ");
    push(cfg.as_bytes());
    for (path, src) in sources {
        push(b"\n---- file ");
        push(path.as_bytes());
        push(b"\n");
        push(src.as_bytes());
    }
    slot.len.store(n, Ordering::Release);
    slot.started_ms.store(now_ms().max(1), Ordering::Release);
}

/// The subject returned (or unwound) on this thread.
pub fn done() {
    let i = my_slot();
    SLOT_TABLE[i].started_ms.store(0, Ordering::Release);
}

static EPOCH: std::sync::OnceLock<std::time::Instant> = std::sync::OnceLock::new();
fn now_ms() -> u64 {
    EPOCH.get_or_init(std::time::Instant::now).elapsed().as_millis() as u64
}

/// In-process watchdog: a case that has been inside the subject for longer than `limit_s` is reported as a hang
/// (the subject's per-case work is milliseconds; the limit is generous so that machine load cannot trip it).
fn spawn_watchdog(property: String, limit_s: u64) {
    std::thread::spawn(move || loop {
        std::thread::sleep(std::time::Duration::from_millis(500));
        let now = now_ms();
        for slot in SLOT_TABLE.iter() {
            let st = slot.started_ms.load(Ordering::Acquire);
            if st != 0 && now.saturating_sub(st) > limit_s * 1000 {
                let path = format!("/verif/replays/{property}/hang-{}.txt", std::process::id());
                let n = slot.len.load(Ordering::Acquire);
                // SAFETY: the owning thread is stuck inside the subject and does not write the slot
                let buf = unsafe { &*slot.buf.get() };
                let mut text = format!("{{\"note\": \"the real typeshare code did not return within {limit_s} s on the case below (in-process run)\"}}\n").into_bytes();
                text.extend_from_slice(&buf[..n]);
                let _ = std::fs::write(&path, text);
                println!("VIOLATION property={property} replay={path}\n  hang: the code under test did not return within {limit_s} s");
                let _ = std::fs::remove_file(format!("/verif/replays/{property}/crash-{}.txt", std::process::id()));
                unsafe { libc::_exit(1) };
            }
        }
    });
}

extern "C" fn on_crash(sig: libc::c_int) {
    // async-signal-safe calls only: write, _exit
    let fd = CRASH_FD.load(Ordering::Relaxed);
    let i = MY_SLOT.with(|c| c.get());
    unsafe {
        if fd >= 0 {
            let msg = b"{\"note\": \"the process died while running the real typeshare code in-process on the case below (text follows this line)\"}\n";
            libc::write(fd, msg.as_ptr() as *const libc::c_void, msg.len());
            if i < SLOTS {
                let slot = &SLOT_TABLE[i];
                let n = slot.len.load(Ordering::Acquire);
                let buf = &*slot.buf.get();
                libc::write(fd, buf.as_ptr() as *const libc::c_void, n);
            }
            libc::fsync(fd);
        }
        let h = HEADER_LEN.load(Ordering::Relaxed);
        #[allow(static_mut_refs)]
        libc::write(1, HEADER.as_ptr() as *const libc::c_void, h);
        let tail: &[u8] = match sig {
            libc::SIGABRT => b"  crash: SIGABRT (abort / stack overflow) in the code under test\n",
            libc::SIGSEGV => b"  crash: SIGSEGV in the code under test\n",
            _ => b"  crash: fatal signal in the code under test\n",
        };
        libc::write(1, tail.as_ptr() as *const libc::c_void, tail.len());
        libc::_exit(1);
    }
}

/// Install the handlers for a check of `property`; the replay file is created now (and removed again by `disarm`).
pub fn arm(property: &str) {
    let dir = format!("/verif/replays/{property}");
    let _ = std::fs::create_dir_all(&dir);
    let path = format!("{dir}/crash-{}.txt", std::process::id());
    let cpath = std::ffi::CString::new(path.clone()).unwrap();
    let fd = unsafe { libc::open(cpath.as_ptr(), libc::O_CREAT | libc::O_WRONLY | libc::O_TRUNC, 0o644) };
    CRASH_FD.store(fd, Ordering::Relaxed);
    let line = format!("VIOLATION property={property} replay={path}\n");
    let b = line.as_bytes();
    let n = b.len().min(256);
    #[allow(static_mut_refs)]
    unsafe {
        HEADER[..n].copy_from_slice(&b[..n]);
    }
    HEADER_LEN.store(n, Ordering::Relaxed);
    let _ = now_ms();
    spawn_watchdog(property.to_string(), std::env::var("TSMC_HANG_LIMIT_S").ok().and_then(|v| v.parse().ok()).unwrap_or(60));
    unsafe {
        let mut sa: libc::sigaction = std::mem::zeroed();
        sa.sa_sigaction = on_crash as usize;
        sa.sa_flags = libc::SA_ONSTACK;
        libc::sigemptyset(&mut sa.sa_mask);
        libc::sigaction(libc::SIGABRT, &sa, std::ptr::null_mut());
        libc::sigaction(libc::SIGBUS, &sa, std::ptr::null_mut());
        // SIGSEGV is left to the Rust runtime: it recognises stack overflow, reports it and calls abort()
    }
}

/// Normal end of a check: remove the (empty) crash file.
pub fn disarm(property: &str) {
    let path = format!("/verif/replays/{property}/crash-{}.txt", std::process::id());
    let _ = std::fs::remove_file(path);
}
