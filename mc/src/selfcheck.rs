//! Extractor self-check: every snapshot expectation of the repository must be accepted.
use crate::extract;
use crate::pipeline::ALL_LANGS;

pub fn run(verbose: bool) -> (usize, Vec<String>) {
    let mut n = 0;
    let mut fails = Vec::new();
    let root = "/repo/core/data/tests";
    let mut dirs: Vec<_> = std::fs::read_dir(root).map(|d| d.filter_map(|e| e.ok()).map(|e| e.path()).collect()).unwrap_or_else(|_| Vec::new());
    dirs.sort();
    for d in dirs {
        for lang in ALL_LANGS {
            let p = d.join(format!("output.{}", lang.ext()));
            let Ok(text) = std::fs::read_to_string(&p) else { continue };
            n += 1;
            match extract::extract(lang, &text) {
                Ok(of) => {
                    if verbose {
                        println!("{}: {} defs", p.display(), of.defs.len());
                    }
                }
                Err(e) => fails.push(format!("{}:{}: {}", p.display(), e.line(), e.msg())),
            }
        }
    }
    (n, fails)
}
