//! C06, hash-order family: every iteration order of the order-sensitive hash collections.
//!
//! `HashMap`/`HashSet` iteration order depends on per-instance SipHash keys. The harness re-creates
//! the relevant collections (fresh keys each time), records the iteration order of the *very
//! instance* it hands to the code under test, and keeps going until every permutation of the
//! relevant entries has been witnessed. Randomness is only the means to reach each element of a
//! finite set whose coverage is counted; failing to cover the set is a machinery failure.
use crate::pipeline::{make_language, out_file_name, Cfg, Lang};
use crate::report::{Report, Violation};
use serde_json::json;
use std::collections::{BTreeMap, BTreeSet, HashMap, HashSet};
use std::path::PathBuf;
use typeshare_core::{
    context::{ParseContext, ParseFileContext},
    language::{CrateName, CrateTypes},
    parser::{self, ParsedData},
    reconcile::reconcile_aliases,
};

struct Scenario {
    name: &'static str,
    /// (crate, source)
    files: Vec<(&'static str, String)>,
    /// entries whose relative order matters: crate names (for the CrateTypes map) / import crates (for import sets)
    relevant: Vec<&'static str>,
    /// the crate whose output is compared
    subject: &'static str,
}

fn scenarios() -> Vec<Scenario> {
    let def = |name: &str, rename: Option<&str>| -> String {
        let r = rename.map(|r| format!("#[serde(rename = \"{r}\")]\n")).unwrap_or_default();
        format!("#[typeshare]\n{r}pub struct {name} {{ pub v: u32 }}\n")
    };
    vec![
        Scenario {
            name: "import-fallback-two-candidates",
            files: vec![
                ("app", "use missing_crate::Shared;\n#[typeshare]\npub struct UsesShared { pub s: Shared }\n".to_string()),
                ("bcrate", def("Shared", None)),
                ("ccrate", def("Shared", None)),
            ],
            relevant: vec!["bcrate", "ccrate"],
            subject: "app",
        },
        Scenario {
            name: "import-fallback-three-candidates",
            files: vec![
                ("app", "use missing_crate::Shared;\n#[typeshare]\npub struct UsesShared { pub s: Shared }\n".to_string()),
                ("bcrate", def("Shared", None)),
                ("ccrate", def("Shared", None)),
                ("dcrate", def("Shared", None)),
            ],
            relevant: vec!["bcrate", "ccrate", "dcrate"],
            subject: "app",
        },
        Scenario {
            name: "same-name-imported-from-two-crates-renamed",
            files: vec![
                ("app", "use bcrate::Shared;\n#[typeshare]\npub struct UsesShared { pub s: Shared, pub other: ccrate::Shared }\n".to_string()),
                ("bcrate", def("Shared", Some("SharedFromB"))),
                ("ccrate", def("Shared", Some("SharedFromC"))),
            ],
            relevant: vec!["bcrate", "ccrate"],
            subject: "app",
        },
        Scenario {
            name: "single-candidate-control",
            files: vec![("app", "use bcrate::Shared;\n#[typeshare]\npub struct UsesShared { pub s: Shared }\n".to_string()), ("bcrate", def("Shared", None)), ("ccrate", def("Unrelated", None))],
            relevant: vec!["bcrate", "ccrate"],
            subject: "app",
        },
    ]
}

fn order_of<'a, I: Iterator<Item = &'a str>>(it: I, relevant: &[&str]) -> String {
    it.filter(|x| relevant.contains(x)).collect::<Vec<_>>().join(">")
}

/// One attempt: parse with fresh hash states, record the orders handed to the code under test, generate.
fn attempt(sc: &Scenario, lang: Lang) -> Result<(String, String), String> {
    let cfg = Cfg { multi_file: true, ..Cfg::plain() };
    let mut language = make_language(lang, &cfg);
    let ctx = ParseContext { ignored_types: vec![], multi_file: true, target_os: vec![] };
    let mut map: BTreeMap<CrateName, ParsedData> = BTreeMap::new();
    for (krate, src) in &sc.files {
        let pfc = ParseFileContext { source_code: src.clone(), crate_name: CrateName::from(*krate), file_name: out_file_name(lang, krate), file_path: PathBuf::from(format!("ws/{krate}/src/lib.rs")) };
        match parser::parse(&ctx, pfc) {
            Ok(Some(mut pd)) => {
                // re-create the import set: a fresh instance has fresh keys, hence possibly another iteration order
                let fresh: HashSet<_> = pd.import_types.drain().collect();
                pd.import_types = fresh;
                *map.entry(pd.crate_name.clone()).or_default() += pd;
            }
            Ok(None) => {}
            Err(e) => return Err(format!("parse failed: {e}")),
        }
    }
    // order of the subject's imports of the contested name (this instance is moved into reconcile_aliases as is)
    let subj = CrateName::from(sc.subject);
    let import_order = map.get(&subj).map(|pd| order_of(pd.import_types.iter().filter(|i| i.type_name == "Shared").map(|i| i.base_crate.as_str()), &sc.relevant)).unwrap_or_default();
    let retained: BTreeSet<String> = map.get(&subj).map(|pd| pd.import_types.iter().map(|i| format!("{}::{}", i.base_crate, i.type_name)).collect()).unwrap_or_default();
    reconcile_aliases(&mut map);
    let mut all: CrateTypes = HashMap::new();
    for (k, pd) in map.iter_mut() {
        all.entry(k.clone()).or_default().extend(std::mem::take(&mut pd.type_names));
    }
    let crate_order = order_of(all.keys().map(|k| k.as_str()), &sc.relevant);
    let pd = map.remove(&subj).ok_or("subject crate produced no data")?;
    let mut buf = Vec::new();
    language.generate_types(&mut buf, &all, pd).map_err(|e| e.to_string())?;
    let sig = format!("crates[{crate_order}] imports[{import_order}] retained{retained:?}");
    Ok((sig, String::from_utf8_lossy(&buf).into_owned()))
}

pub fn c06_family(rep: &mut Report) {
    let langs = [Lang::TypeScript, Lang::Kotlin, Lang::Swift];
    let mut total_attempts = 0u64;
    let mut coverage = Vec::new();
    for sc in scenarios() {
        for &lang in &langs {
            // orders witnessed -> output
            let mut seen: BTreeMap<String, String> = BTreeMap::new();
            let want_crate_orders: usize = (1..=sc.relevant.len()).product();
            let mut crate_orders: BTreeSet<String> = BTreeSet::new();
            let mut attempts = 0;
            let mut failure = None;
            while attempts < 600 {
                attempts += 1;
                // a fresh thread has fresh per-thread hash keys
                let r = std::thread::scope(|s| s.spawn(|| attempt(&sc, lang)).join());
                match r {
                    Ok(Ok((sig, out))) => {
                        crate_orders.insert(sig.split(' ').next().unwrap_or("").to_string());
                        seen.entry(sig).or_insert(out);
                    }
                    Ok(Err(e)) => {
                        failure = Some(e);
                        break;
                    }
                    Err(_) => {
                        failure = Some("panic".into());
                        break;
                    }
                }
                if crate_orders.len() >= want_crate_orders && attempts >= 60 {
                    break;
                }
            }
            total_attempts += attempts as u64;
            if let Some(f) = failure {
                rep.vios.add(Violation { sig: format!("C06|hash-order|run-failed|{}|{}", sc.name, lang.name()), detail: json!({"scenario": sc.name, "failure": f}) });
                continue;
            }
            if crate_orders.len() < want_crate_orders {
                rep.machinery(format!("hash-order coverage: only {}/{} crate orders witnessed for {} after {attempts} attempts", crate_orders.len(), want_crate_orders, sc.name));
            }
            let outputs: BTreeSet<&String> = seen.values().collect();
            coverage.push(json!({"scenario": sc.name, "lang": lang.name(), "attempts": attempts, "iteration_orders_witnessed": seen.len(), "crate_map_orders": crate_orders.len(), "crate_map_orders_possible": want_crate_orders, "distinct_outputs": outputs.len()}));
            if outputs.len() > 1 {
                let mut it = seen.iter();
                let (s1, o1) = it.next().unwrap();
                let (s2, o2) = it.find(|(_, o)| *o != o1).unwrap();
                rep.vios.add(Violation {
                    sig: format!("C06|nondeterministic-output|hash-order|{}|{}", sc.name, lang.name()),
                    detail: json!({"scenario": sc.name, "lang": lang.name(), "files": sc.files.iter().map(|(k, s)| json!({"crate": k, "source": s})).collect::<Vec<_>>(),
                        "order_a": s1, "output_a": o1, "order_b": s2, "output_b": o2}),
                });
            }
        }
    }
    rep.cov("hash_orders", json!({"attempts": total_attempts, "per_scenario": coverage}));
    rep.cov_add("evaluations", total_attempts);
}


/// Sets and maps that live *inside* a backend (Python's TypeVar / import sets, Go's import set, TypeScript's
/// translation table …) cannot be handed a chosen iteration order from outside. What the harness owns is the hash
/// seed: every attempt runs on a fresh thread (fresh SipHash keys) with a fresh backend instance, on programs chosen to
/// put several entries into each such collection. All outputs of one (program, language) must be byte-identical.
/// Coverage is therefore *observed* (number of seeds), not forced; with n entries in a set a seed-dependent order
/// goes unnoticed with probability (1/n!)^(attempts-1).
pub fn c06_internal_sets_family(rep: &mut Report) {
    use crate::pipeline::{self, Cfg, Outcome, SrcFile, ALL_LANGS};
    let programs: [(&str, &str, bool); 5] = [
        (
            "alias-chains-and-variants-carrying-them",
            "#[typeshare]\npub struct Point { pub x: u32 }\n#[typeshare]\npub type Position = Point;\n#[typeshare]\npub type Anchor = Position;\n#[typeshare]\npub type Pin = Anchor;\n#[typeshare]\npub type Label = String;\n#[typeshare]\npub type Title = Label;\n#[typeshare]\n#[serde(tag = \"t\", content = \"c\")]\npub enum Shape { Pinned(Anchor), Placed(Pin), Named(Title), At(Position), Raw(Point), Free }\n",
            false,
        ),
        (
            "several-generic-parameter-names",
            "#[typeshare]\npub struct Pair<K, V> { pub k: K, pub v: V }\n#[typeshare]\npub struct Wrap<T> { pub t: Vec<T> }\n#[typeshare]\npub struct Tri<A, B, C> { pub a: A, pub b: Option<B>, pub c: Vec<C> }\n#[typeshare]\n#[serde(tag = \"t\", content = \"c\")]\npub enum Res<T, E> { Good(T), Bad(E), Both { t: T, e: E } }\n",
            false,
        ),
        (
            "every-helper-at-once",
            "#[typeshare]\npub struct Helpers { pub u: (), pub a: u8, pub b: u16, pub c: u32, pub d: U53, pub when: DateTime, pub raw: Vec<u8>, pub link: Url, pub o: Option<String>, pub m: HashMap<String, Vec<u32>>, #[serde(default)] pub late: DateTime }\n#[typeshare]\n#[serde(tag = \"t\", content = \"c\")]\npub enum E { A(DateTime), B { raw: Vec<u8>, n: Option<()> }, C }\n#[typeshare]\npub type Stamp = DateTime;\n",
            true,
        ),
        (
            // run under list-valued settings with several entries each (see below)
            "unit-type-and-generics-under-list-valued-settings",
            "#[typeshare]\npub struct Ping { pub nothing: (), pub user_id: u32, pub api_url: String }\n#[typeshare]\npub struct Holder<T, U> { pub t: T, pub u: Vec<U>, pub n: Option<()> }\n#[typeshare(swift = \"Codable, CaseIterable, Comparable\")]\npub enum Level { Low, High }\n",
            false,
        ),
        (
            "many-renamed-references",
            "#[typeshare]\n#[serde(rename = \"AlphaR\")]\npub struct Alpha { pub b: Beta, pub g: Vec<Gamma> }\n#[typeshare]\n#[serde(rename = \"BetaR\")]\npub struct Beta { pub g: Option<Gamma> }\n#[typeshare]\n#[serde(rename = \"GammaR\")]\npub struct Gamma { pub x: u32 }\n#[typeshare]\n#[serde(rename = \"DeltaR\")]\npub type Delta = HashMap<String, Alpha>;\n",
            false,
        ),
    ];
    let attempts = if rep.thorough() { 96 } else { 32 };
    let mut rows = Vec::new();
    let mut total = 0u64;
    for (name, src, mapped) in programs {
        for &lang in &ALL_LANGS {
            let mut cfg = Cfg::plain();
            if name.ends_with("list-valued-settings") {
                let v = |a: &[&str]| a.iter().map(|s| s.to_string()).collect::<Vec<_>>();
                cfg.swift_default_decorators = v(&["Sendable", "Identifiable"]);
                cfg.swift_default_generic_constraints = v(&["Sendable", "Hashable", "Equatable"]);
                cfg.swift_codablevoid_constraints = v(&["Equatable", "Hashable", "Comparable", "Sendable"]);
                cfg.go_uppercase_acronyms = v(&["ID", "URL", "API"]);
            }
            if mapped {
                let (date, bytes, url) = match lang {
                    Lang::TypeScript => ("Date", Some("Uint8Array"), "string"),
                    Lang::Python => ("datetime", Some("bytes"), "AnyUrl"),
                    Lang::Go => ("time.Time", Some("[]byte"), "string"),
                    _ => ("String", None, "String"),
                };
                cfg.type_mappings.push(("DateTime".into(), date.into()));
                cfg.type_mappings.push(("Url".into(), url.into()));
                if let Some(b) = bytes {
                    cfg.type_mappings.push(("Vec<u8>".into(), b.into()));
                }
            }
            let mut outs: BTreeMap<String, usize> = BTreeMap::new();
            let mut class = String::new();
            for _ in 0..attempts {
                let o = std::thread::scope(|s| s.spawn(|| pipeline::run(&[SrcFile::single(src)], lang, &cfg)).join());
                total += 1;
                match o {
                    Ok(Outcome::Ok(m)) => {
                        *outs.entry(m.values().next().cloned().unwrap_or_default()).or_insert(0) += 1;
                        class = "ok".into();
                    }
                    Ok(other) => {
                        // a clean refusal (e.g. constants in a backend without them) is the same refusal every time
                        *outs.entry(format!("<{}>", other.kind())).or_insert(0) += 1;
                        class = other.kind().into();
                    }
                    Err(_) => {
                        *outs.entry("<thread panicked>".into()).or_insert(0) += 1;
                    }
                }
            }
            rows.push(json!({"program": name, "lang": lang.name(), "fresh_seeds": attempts, "outcome": class, "distinct_outputs": outs.len()}));
            if outs.len() > 1 {
                let mut it = outs.iter();
                let a = it.next().unwrap();
                let b = it.next().unwrap();
                rep.vios.add(Violation {
                    sig: format!("C06|nondeterministic-output|internal-collection-order|{name}|{}", lang.name()),
                    detail: json!({"program": name, "lang": lang.name(), "source": src, "type_mappings": cfg.type_mappings, "distinct_outputs": outs.len(), "runs": attempts, "output_a": a.0, "times_a": a.1, "output_b": b.0, "times_b": b.1}),
                });
            }
        }
    }
    // multi-file mode with several type mappings: the mapped names travel through the backend's own map into the
    // parser's ignore list and the import bookkeeping
    {
        let a = "#[typeshare]\npub struct AccountId { pub v: String }\n#[typeshare]\npub struct Money { pub cents: u32 }\n#[typeshare]\npub struct Timestamp { pub secs: u32 }\n#[typeshare]\npub struct Label { pub text: String }\n#[typeshare]\npub struct Extra { pub e: u32 }\n";
        let b = "use types::{AccountId, Money, Timestamp, Label, Extra};\n#[typeshare]\npub struct Transfer { pub from: AccountId, pub to: Option<AccountId>, pub amount: Money, pub at: Vec<Timestamp>, pub note: Label, pub extra: types::Extra }\n";
        for &lang in &ALL_LANGS {
            let mut cfg = Cfg::plain();
            cfg.multi_file = true;
            for (k, v) in [("AccountId", "String"), ("Money", "Double"), ("Timestamp", "Long"), ("Uuid", "String"), ("Url", "String")] {
                let v = match (lang, v) {
                    (Lang::TypeScript, "String") => "string",
                    (Lang::TypeScript, _) => "number",
                    (Lang::Go, "String") => "string",
                    (Lang::Go, _) => "float64",
                    (Lang::Python, "String") => "str",
                    (Lang::Python, _) => "float",
                    (_, v) => v,
                };
                cfg.type_mappings.push((k.into(), v.into()));
            }
            let files = [
                SrcFile { crate_name: "types".into(), path: "types/src/lib.rs".into(), source: a.into() },
                SrcFile { crate_name: "app".into(), path: "app/src/lib.rs".into(), source: b.into() },
            ];
            let mut outs: BTreeMap<String, usize> = BTreeMap::new();
            for _ in 0..attempts {
                let o = std::thread::scope(|s| s.spawn(|| pipeline::run(&files, lang, &cfg)).join());
                total += 1;
                let key = match o {
                    Ok(Outcome::Ok(m)) => m.iter().map(|(k, v)| format!("== {k}\n{v}")).collect::<Vec<_>>().join("\n"),
                    Ok(other) => format!("<{}>", other.kind()),
                    Err(_) => "<thread panicked>".into(),
                };
                *outs.entry(key).or_insert(0) += 1;
            }
            rows.push(json!({"program": "multi-file-with-five-type-mappings", "lang": lang.name(), "fresh_seeds": attempts, "distinct_outputs": outs.len()}));
            if outs.len() > 1 {
                let mut it = outs.iter();
                let x = it.next().unwrap();
                let y = it.next().unwrap();
                rep.vios.add(Violation {
                    sig: format!("C06|nondeterministic-output|internal-collection-order|multi-file-with-type-mappings|{}", lang.name()),
                    detail: json!({"lang": lang.name(), "crates": {"types": a, "app": b}, "type_mappings": cfg.type_mappings, "distinct_outputs": outs.len(), "runs": attempts, "output_a": x.0, "times_a": x.1, "output_b": y.0, "times_b": y.1}),
                });
            }
        }
    }
    // one crate whose two files each import a same-named type from a different crate; and the same with a third file
    // that imports the name through a re-exporting crate typeshare knows nothing about (the import falls back to a
    // crate that defines the name)
    for with_facade in [false, true] {
        let mut files = vec![
            SrcFile { crate_name: "alpha".into(), path: "alpha/src/lib.rs".into(), source: "#[typeshare]\npub struct Item { pub a: u32 }\n#[typeshare]\npub struct OnlyAlpha { pub x: u32 }\n".into() },
            SrcFile { crate_name: "beta".into(), path: "beta/src/lib.rs".into(), source: "#[typeshare]\npub struct Item { pub b: u32 }\n#[typeshare]\npub struct OnlyBeta { pub y: u32 }\n".into() },
            SrcFile { crate_name: "gamma".into(), path: "gamma/src/one.rs".into(), source: "use alpha::{Item, OnlyAlpha};\n#[typeshare]\npub struct FromAlpha { pub i: Item, pub o: OnlyAlpha }\n".into() },
            SrcFile { crate_name: "gamma".into(), path: "gamma/src/two.rs".into(), source: "use beta::{Item, OnlyBeta};\n#[typeshare]\npub struct FromBeta { pub i: Vec<Item>, pub o: OnlyBeta }\n".into() },
        ];
        if with_facade {
            files.remove(2);
            files.push(SrcFile { crate_name: "gamma".into(), path: "gamma/src/three.rs".into(), source: "use facade::{Item, OnlyAlpha, OnlyBeta};\n#[typeshare]\npub struct ViaFacade { pub i: Option<Item>, pub a: OnlyAlpha, pub b: OnlyBeta }\n".into() });
        }
        let program = if with_facade { "same-named-type-imported-directly-and-through-an-unknown-re-export" } else { "same-named-type-imported-from-two-crates-in-two-files" };
        for &lang in &ALL_LANGS {
            let mut cfg = Cfg::plain();
            cfg.multi_file = true;
            let mut outs: BTreeMap<String, usize> = BTreeMap::new();
            for _ in 0..attempts {
                let o = std::thread::scope(|s| s.spawn(|| pipeline::run(&files, lang, &cfg)).join());
                total += 1;
                let key = match o {
                    Ok(Outcome::Ok(m)) => m.iter().map(|(k, v)| format!("== {k}\n{v}")).collect::<Vec<_>>().join("\n"),
                    Ok(other) => format!("<{}>", other.kind()),
                    Err(_) => "<thread panicked>".into(),
                };
                *outs.entry(key).or_insert(0) += 1;
            }
            rows.push(json!({"program": program, "lang": lang.name(), "fresh_seeds": attempts, "distinct_outputs": outs.len()}));
            if outs.len() > 1 {
                let mut it = outs.iter();
                let x = it.next().unwrap();
                let y = it.next().unwrap();
                rep.vios.add(Violation {
                    sig: format!("C06|nondeterministic-output|internal-collection-order|{}|{}", if with_facade { "same-name-direct-and-re-exported" } else { "same-name-from-two-crates" }, lang.name()),
                    detail: json!({"lang": lang.name(), "files": files.iter().map(|f| json!({"crate": f.crate_name, "path": f.path, "source": f.source})).collect::<Vec<_>>(), "distinct_outputs": outs.len(), "runs": attempts, "output_a": x.0, "times_a": x.1, "output_b": y.0, "times_b": y.1}),
                });
            }
        }
    }
    rep.cov("internal_collection_orders", json!({"runs": total, "per_program_and_language": rows, "how": "fresh thread (fresh SipHash keys) + fresh backend instance per run; orders are observed, not forced"}));
    rep.cov_add("evaluations", total);
}
