mod cli;
mod crumb;
mod e3;
mod explore;
mod hashorder;
mod extract;
mod selfcheck;
mod pipeline;
mod pybatch;
mod prog;
mod refmodel;
mod typemodel;
mod report;
#[allow(dead_code, clippy::all)]
#[path = "../vendor/serde_case.rs"]
mod serde_case;
mod props;

fn main() {
    pipeline::install_panic_hook();
    let args: Vec<String> = std::env::args().skip(1).collect();
    let Some(cmd) = args.first() else {
        eprintln!("usage: tsmc <C01..C20|replay> [--tier quick|thorough]");
        std::process::exit(2);
    };
    let rest = &args[1..];
    let is_check = cmd.len() == 3 && cmd.starts_with('C');
    if is_check {
        crumb::arm(cmd);
    }
    let code = match cmd.as_str() {
        "selfcheck" => {
            let (n, fails) = selfcheck::run(rest.iter().any(|a| a == "-v"));
            for f in &fails {
                println!("FAIL {f}");
            }
            println!("extractor self-check: {n} snapshot outputs, {} rejected", fails.len());
            if fails.is_empty() { 0 } else { 2 }
        }
        "gen" => {
            // tsmc gen <lang> <file.rs> [prefixed]: run the pipeline on a file and print output + extracted model
            let lang = pipeline::Lang::from_name(&rest[0]).expect("language");
            let src = std::fs::read_to_string(&rest[1]).expect("read source");
            let cfg = if rest.get(2).map(|s| s == "prefixed").unwrap_or(false) { pipeline::Cfg::prefixed() } else { pipeline::Cfg::plain() };
            match refmodel::run_source(&src, lang, &cfg) {
                Ok(ok) => {
                    println!("{}", ok.text);
                    println!("---- extracted ----\n{:#?}", ok.out.defs);
                    println!("helpers: {:?} imports: {:?} aux: {:?}", ok.out.helper_defs, ok.out.imports, ok.out.aux_names);
                    0
                }
                Err((f, _)) => {
                    println!("FAIL {}: {}", f.class(), f.describe());
                    if let refmodel::RunFail::Extract { text, .. } = &f {
                        println!("{text}");
                    }
                    1
                }
            }
        }
        "replay" => {
            // tsmc replay <replay file>: re-run the check that produced it and report on that signature only
            let text = std::fs::read_to_string(&rest[0]).expect("read replay file");
            let v: serde_json::Value = serde_json::from_str(&text).expect("replay file is JSON");
            let prop = v["property"].as_str().expect("property").to_string();
            let sig = v["signature"].as_str().expect("signature").to_string();
            println!("replaying {prop}: {sig}");
            println!("recorded case: {}", serde_json::to_string_pretty(&v["case"]).unwrap_or_default().chars().take(3000).collect::<String>());
            let exe = std::env::current_exe().expect("exe");
            let mut code = 0;
            for tier in ["quick", "thorough"] {
                let st = std::process::Command::new(&exe).args([prop.as_str(), "--tier", tier]).env("TSMC_ONLY_SIG", &sig).status().expect("re-run");
                code = st.code().unwrap_or(2);
                if code == 1 {
                    break;
                }
            }
            code
        }
        "warm" => {
            for (files, errs) in [(vec!["fa", "fb"], vec![]), (vec!["fa", "fb", "fc"], vec![]), (vec!["fa", "fb"], vec!["fb"]), (vec!["fa", "fb", "fc"], vec!["fb"]), (vec!["fa", "fb", "fc"], vec!["fa", "fc"]), (vec!["fa", "fb"], vec!["fa", "fb"])] {
                match e3::tlc_graph(&files, &errs) {
                    Ok(g) => println!("tlc {} files / {} erroneous: {} states", files.len(), errs.len(), g.states),
                    Err(e) => println!("tlc failed: {e}"),
                }
            }
            props::c19::warm();
            0
        }
        "C01" => props::c01::run(rest),
        "C02" => props::c02::run(rest),
        "C03" => props::c03::run(rest),
        "C04" => props::c04::run(rest),
        "C05" => props::c05::run(rest),
        "C06" => props::c06::run(rest),
        "C07" => props::c07::run(rest),
        "C08" => props::c08::run(rest),
        "C09" => props::c09::run(rest),
        "C10" => props::c10::run(rest),
        "C11" => props::c11::run(rest),
        "C12" => props::c12::run(rest),
        "C13" => props::c13::run(rest),
        "C14" => props::c14::run(rest),
        "C15" => props::c15::run(rest),
        "C16" => props::c16::run(rest),
        "C17" => props::c17::run(rest),
        "C18" => props::c18::run(rest),
        "C19" => props::c19::run(rest),
        "C20" => props::c20::run(rest),
        other => {
            eprintln!("unknown command {other}");
            2
        }
    };
    if is_check {
        crumb::disarm(cmd);
    }
    std::process::exit(code);
}
