mod explore;
mod extract;
mod selfcheck;
mod pipeline;
mod report;
#[allow(dead_code, clippy::all)]
#[path = "../vendor/serde_case.rs"]
mod serde_case;
mod props;

fn main() {
    pipeline::install_panic_hook();
    let args: Vec<String> = std::env::args().skip(1).collect();
    let Some(cmd) = args.first() else {
        eprintln!("usage: tsmc <C01..C20|replay> [--tier quick|thorough]");
        std::process::exit(2);
    };
    let rest = &args[1..];
    let code = match cmd.as_str() {
        "selfcheck" => {
            let (n, fails) = selfcheck::run(rest.iter().any(|a| a == "-v"));
            for f in &fails {
                println!("FAIL {f}");
            }
            println!("extractor self-check: {n} snapshot outputs, {} rejected", fails.len());
            if fails.is_empty() { 0 } else { 2 }
        }
        "C13" => props::c13::run(rest),
        "C16" => props::c16::run(rest),
        "C18" => props::c18::run(rest),
        other => {
            eprintln!("unknown command {other}");
            2
        }
    };
    std::process::exit(code);
}
