---------------------------- MODULE WalkCollect ----------------------------
(***************************************************************************)
(* Protocol of cli/src/parse.rs::parallel_parse at the granularity of its  *)
(* synchronisation-relevant events (the labelled points of the hook in     *)
(* cli/src/verif.rs):                                                      *)
(*   send:<f>        a walker thread hands its file's result to the channel*)
(*   recv:<k>        the collector takes the k-th message                  *)
(*   collector_exit  the collector closure has returned (receiver dropped) *)
(*   drop_tx         main drops its sender after the walk has finished     *)
(* One walker per file (each file is passed as its own root and the thread *)
(* count equals the number of files), all walkers have started their file  *)
(* before the first event (start:<f> barrier of the replay harness).       *)
(***************************************************************************)
EXTENDS Naturals, Sequences, FiniteSets

CONSTANTS Files,      \* files that contain #[typeshare] items
          ErrFiles    \* subset of Files whose parse result is Err

VARIABLES wstate,     \* per file: "ready" (result computed, before send) | "done"
          chan,       \* FIFO content of the crossbeam channel (file ids)
          cstate,     \* "run" | "exiting" (Err received, receiver not yet dropped) | "exited"
          folded,     \* sequence of files folded into the per-crate map, in arrival order
          firstErr,   \* the file whose error the collector returns, or "none"
          txDropped,  \* main has dropped its sender
          nrecv,      \* number of messages received so far
          lost,       \* files whose send found the receiver gone (result discarded)
          last        \* label of the event that led to this state (history variable)

vars == <<wstate, chan, cstate, folded, firstErr, txDropped, nrecv, lost, last>>

Init == /\ wstate = [f \in Files |-> "ready"]
        /\ chan = <<>>
        /\ cstate = "run"
        /\ folded = <<>>
        /\ firstErr = "none"
        /\ txDropped = FALSE
        /\ nrecv = 0
        /\ lost = {}
        /\ last = <<"init", "-">>

Send(f) == /\ wstate[f] = "ready"
           /\ wstate' = [wstate EXCEPT ![f] = "done"]
           /\ IF cstate = "exited"
                 THEN /\ lost' = lost \cup {f}      \* SendError: the worker returns WalkState::Quit
                      /\ UNCHANGED chan
                 ELSE /\ chan' = Append(chan, f)     \* capacity 100 is never reached with <= 6 files
                      /\ UNCHANGED lost
           /\ last' = <<"send", f>>
           /\ UNCHANGED <<cstate, folded, firstErr, txDropped, nrecv>>

Recv == /\ cstate = "run"
        /\ Len(chan) > 0
        /\ nrecv' = nrecv + 1
        /\ chan' = Tail(chan)
        /\ IF Head(chan) \in ErrFiles
              THEN /\ cstate' = "exiting"
                   /\ firstErr' = Head(chan)
                   /\ UNCHANGED folded
              ELSE /\ folded' = Append(folded, Head(chan))
                   /\ UNCHANGED <<cstate, firstErr>>
        /\ last' = <<"recv", nrecv + 1>>
        /\ UNCHANGED <<wstate, txDropped, lost>>

CollectorExit == /\ \/ cstate = "exiting"
                    \/ (cstate = "run" /\ txDropped /\ Len(chan) = 0)
                 /\ cstate' = "exited"
                 /\ last' = <<"collector_exit", "-">>
                 /\ UNCHANGED <<wstate, chan, folded, firstErr, txDropped, nrecv, lost>>

DropTx == /\ ~txDropped
          /\ \A f \in Files : wstate[f] = "done"
          /\ txDropped' = TRUE
          /\ last' = <<"drop_tx", "-">>
          /\ UNCHANGED <<wstate, chan, cstate, folded, firstErr, nrecv, lost>>

Done == cstate = "exited" /\ txDropped

Next == \/ \E f \in Files : Send(f)
        \/ Recv
        \/ CollectorExit
        \/ DropTx
        \/ (Done /\ UNCHANGED vars)

Spec == Init /\ [][Next]_vars /\ WF_vars(Next)

(* ---- properties of the model itself ---- *)
TypeOK == /\ cstate \in {"run", "exiting", "exited"}
          /\ \A f \in Files : wstate[f] \in {"ready", "done"}
          /\ nrecv \in 0..Cardinality(Files)

\* Success: every file's result is folded exactly once, none lost.
SuccessComplete == (Done /\ firstErr = "none") =>
                      /\ Len(folded) = Cardinality(Files)
                      /\ lost = {}
                      /\ \A f \in Files : \E i \in 1..Len(folded) : folded[i] = f

\* With no erroneous file the run cannot fail; with one the reported file is erroneous.
ErrorIsReal == firstErr # "none" => firstErr \in ErrFiles
NoErrNoFailure == ErrFiles = {} => firstErr = "none"
\* A result is only ever lost after the collector has stopped on an error.
LostOnlyAfterError == lost # {} => firstErr # "none"
\* Without erroneous files nothing can be lost and every error run reports an error.
ErrMeansFailure == (Done /\ ErrFiles # {} /\ firstErr = "none") => FALSE

Termination == <>Done
=============================================================================
