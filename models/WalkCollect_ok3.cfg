SPECIFICATION Spec
CONSTANTS
  Files = {fa, fb, fc}
  ErrFiles = {}
INVARIANTS TypeOK SuccessComplete ErrorIsReal NoErrNoFailure LostOnlyAfterError
PROPERTY Termination
