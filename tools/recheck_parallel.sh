#!/bin/bash
# usage: [SEEDS=<regex over seed names>] tools/recheck_parallel.sh [workers]   (with SEEDS the log goes to docs/recheck_subset.txt)
# The regression of tools/recheck_all.sh, run by several workers at once. Each worker gets a private copy of /repo and of
# /verif/target (and private evidence / replays directories) under /tmp/rw/<k>, bind-mounted over the real paths inside a
# mount namespace of its own (unshare -m), so that the checks run unmodified. The copies are removed at the end.
# One line per seed: ok (every check listed under detected_by reports it), PART, LOST; exit 1 unless every line is ok.
N=${1:-4}
cd /verif
git -C /repo status --short | grep -q . && { echo "/repo is not clean"; exit 2; }
rm -rf /tmp/rw; mkdir -p /tmp/rw
ls seeded | grep -E "${SEEDS:-.}" > /tmp/rw/all.txt
LOG=docs/recheck_last.txt; [ -n "$SEEDS" ] && LOG=docs/recheck_subset.txt
for k in $(seq 1 $N); do
  mkdir -p /tmp/rw/$k/evidence /tmp/rw/$k/replays
  cp -a /repo /tmp/rw/$k/repo
  cp -a /verif/target /tmp/rw/$k/target
  awk -v n=$N -v k=$k 'NR % n == k % n' /tmp/rw/all.txt > /tmp/rw/$k/seeds.txt
done
worker() {
  k=$1
  unshare -m bash -c "
    mount --bind /tmp/rw/$k/repo /repo && mount --bind /tmp/rw/$k/target /verif/target && mount --bind /tmp/rw/$k/evidence /verif/evidence && mount --bind /tmp/rw/$k/replays /verif/replays || exit 3
    cd /verif
    while read n; do
      out=\$(timeout 2400 tools/recheck_seed.sh \$n 2>&1)
      total=\$(echo \"\$out\" | grep -c 'check C')
      hit=\$(echo \"\$out\" | grep -c 'exit=1 violations=[1-9]')
      line=\$(echo \"\$out\" | tr '\n' ' ' | cut -c1-200)
      if [ \"\$total\" -gt 0 ] && [ \"\$hit\" -eq \"\$total\" ]; then echo \"ok   \$n  \$line\"
      elif [ \"\$hit\" -gt 0 ]; then echo \"PART \$n  \$line\"
      else echo \"LOST \$n  \$line\"; fi
      git -C /repo checkout -q -- . 2>/dev/null
    done < /tmp/rw/$k/seeds.txt
  " > /tmp/rw/$k/out.txt 2>&1
}
for k in $(seq 1 $N); do worker $k & done
wait
cat /tmp/rw/*/out.txt | sort -k2 > $LOG
bad=$(grep -vc '^ok ' $LOG)
echo "seeds=$(wc -l < /tmp/rw/all.txt) lines=$(wc -l < $LOG) not_ok=$bad" | tee -a $LOG
rm -rf /tmp/rw
[ "$bad" -eq 0 ]
