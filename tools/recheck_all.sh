#!/bin/bash
# Applies every stored seeded change in turn and runs the checks its meta.json lists under detected_by (quick tier);
# prints one line per seed; exit 1 if any is no longer detected.  /repo is restored after each.
cd /verif
bad=0
for d in seeded/*/; do
  n=$(basename $d)
  out=$(tools/recheck_seed.sh $n 2>&1)
  if echo "$out" | grep -q "exit=1 violations=[1-9]"; then echo "ok   $n  $(echo "$out" | tr '\n' ' ' | cut -c1-150)"; else echo "LOST $n  $(echo "$out" | tr '\n' ' ' | cut -c1-200)"; bad=1; fi
done
git -C /repo status --short | head -3
exit $bad
