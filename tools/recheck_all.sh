#!/bin/bash
# Applies every stored seeded change in turn and runs the checks its meta.json lists under detected_by (quick tier);
# prints one line per seed: ok (every listed check reports it), PART (some do), LOST (none does);
# exit 1 unless every line is ok.  /repo is restored after each.
cd /verif
bad=0
for d in seeded/*/; do
  n=$(basename $d)
  out=$(timeout 1500 tools/recheck_seed.sh $n 2>&1)
  total=$(echo "$out" | grep -c "check C")
  hit=$(echo "$out" | grep -c "exit=1 violations=[1-9]")
  line=$(echo "$out" | tr '\n' ' ' | cut -c1-200)
  if [ "$total" -gt 0 ] && [ "$hit" -eq "$total" ]; then echo "ok   $n  $line"
  elif [ "$hit" -gt 0 ]; then echo "PART $n  $line"; bad=1
  else echo "LOST $n  $line"; bad=1; fi
  git -C /repo checkout -q -- . 2>/dev/null
done
git -C /repo status --short | head -3
exit $bad
