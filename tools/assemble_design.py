#!/usr/bin/env python3
"""Splices the generated sections (§9 timing table, §10 findings, §11 seeded changes) into DESIGN.md between
`<!-- GEN:n -->` markers (inserted before Appendix A on first use)."""
import json, os, re, subprocess
D='/verif/DESIGN.md'
s=open(D).read()
if '<!-- GEN:09 -->' not in s:
    s=s.replace('## Appendix A.', '<!-- GEN:09 -->\n<!-- /GEN:09 -->\n\n<!-- GEN:10 -->\n<!-- /GEN:10 -->\n\n<!-- GEN:11 -->\n<!-- /GEN:11 -->\n\n## Appendix A.',1)
def timing():
    out=["### 9.4 Measured bounds and cost (16 cores; from `tools/run_all.sh`, summaries in `docs/timing_*.json`)\n",
         "| id | quick: wall, oracle evaluations, runs of the real code | thorough: wall, oracle evaluations, runs of the real code |","|---|---|---|"]
    q=json.load(open('/verif/docs/timing_quick.json')) if os.path.exists('/verif/docs/timing_quick.json') else {}
    t=json.load(open('/verif/docs/timing_thorough.json')) if os.path.exists('/verif/docs/timing_thorough.json') else {}
    def cell(r):
        if not r: return "—"
        e=r["evidence"]; n=lambda x: "—" if x is None else f"{x:,}".replace(","," ")
        return f"{r['wall_s']:.0f} s, {n(e.get('evaluations'))}, {n(e.get('traces') or e.get('transitions'))}"
    for i in range(1,21):
        k=f"C{i:02d}"; out.append(f"| {k} | {cell(q.get(k))} | {cell(t.get(k))} |")
    out.append("\nThe per-family bounds behind these numbers are in each `evidence/<id>.json` (`coverage.*.bounds`).\n")
    return "\n".join(out)
nine=open('/verif/docs/design_09.md').read()
i=nine.index('### 9.4')
nine=nine[:i]+timing()
ten=subprocess.run(['python3','/verif/tools/mkfindings_md.py'],capture_output=True,text=True).stdout
eleven=open('/verif/docs/design_11_intro.md').read()+subprocess.run(['python3','/verif/tools/mkseeds_md.py'],capture_output=True,text=True).stdout
for tag,body in (('09',nine),('10',ten),('11',eleven)):
    s=re.sub(rf'<!-- GEN:{tag} -->.*?<!-- /GEN:{tag} -->', lambda m: f'<!-- GEN:{tag} -->\n{body.rstrip()}\n<!-- /GEN:{tag} -->', s, flags=re.S)
open(D,'w').write(s)
print("DESIGN.md assembled:", len(s.splitlines()), "lines")
