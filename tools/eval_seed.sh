#!/bin/bash
# usage: tools/eval_seed.sh Cxx "<checks to run, e.g. C01 C16>"
# (1) confirms the seeded change in its scratch worktree: suite green with it, demo fails with it and passes without
# (2) applies it to /repo, runs the named checks (quick), undoes it
id=$1; shift; checks=${*:-$id}
S=/tmp/seed/$id; W=$S/wt; export CARGO_TARGET_DIR=$S/target CARGO_NET_OFFLINE=true
cd $W || exit 2
git checkout -q -- . && git clean -fdq
git apply $S/patch.diff || { echo "PATCH DOES NOT APPLY"; exit 2; }
suite=$(cargo nextest run --workspace --no-fail-fast --test-threads 8 --offline 2>&1 | grep -E "Summary" | tail -1)
echo "suite with change: $suite"
rundemo() {
  if [ -f $S/demo/seeded_demo.rs ] && [ ! -f $S/demo/run_demo.sh ]; then
    cp $S/demo/seeded_demo.rs $W/core/tests/seeded_demo.rs
    cargo test -p typeshare-core --test seeded_demo --offline 2>&1 | grep -E "^test result" | tail -1
    rm -f $W/core/tests/seeded_demo.rs
  else
    (cd $S/demo && bash ./run_demo.sh >/tmp/demo_$id.log 2>&1; echo "run_demo.sh exit=$?")
  fi
}
echo "demo with change:    $(rundemo)"
git checkout -q -- . && git clean -fdq
echo "demo without change: $(rundemo)"
git checkout -q -- . && git clean -fdq
# (2)
unset CARGO_TARGET_DIR
cd /repo && git apply $S/patch.diff || { echo "PATCH DOES NOT APPLY TO /repo"; exit 2; }
cd /verif
for c in $checks; do
  out=$(./check $c --tier quick 2>&1); rc=$?
  echo "check $c: exit=$rc  $(echo "$out" | grep -c '^VIOLATION') violation lines"
  echo "$out" | grep "signature:" | head -4 | cut -c1-220
done
cd /repo && git checkout -q -- . && git status --short | head -3
