#!/usr/bin/env python3
"""Renders the DESIGN.md table of seeded changes from /verif/seeded/*/meta.json."""
import json, glob, os
rows=[]
for d in sorted(glob.glob("/verif/seeded/*/")):
    m=json.load(open(d+"meta.json")); name=os.path.basename(d.rstrip("/"))
    det=", ".join(m["detected_by"]) or "— (missed)"
    others=[c for c,r in m["checks_run_with_change_applied_to_repo"].items() if c not in m["detected_by"]]
    rows.append(f"| `{name}` | {m['property']} | {m['summary']} | {m['needs_to_manifest']} | {m.get('first_evaluation','')} | **{det}**{(' (also run, silent: '+', '.join(others)+')') if others else ''} |")
print("| seed | property | change | needs, to manifest | first evaluation | caught by (quick tier) |\n|---|---|---|---|---|---|")
print("\n".join(rows))
print()
for d in sorted(glob.glob("/verif/seeded/*/")):
    m=json.load(open(d+"meta.json")); name=os.path.basename(d.rstrip("/"))
    if m.get("strengthening"): print(f"* `{name}`: {m['strengthening']}.")
