#!/usr/bin/env python3
"""Renders DESIGN.md §10 from known_findings.json (stdout)."""
import json
kf=json.load(open('/verif/known_findings.json'))['findings']
known=[f for f in kf if f['status']=='known']
fixed=[f for f in kf if f['status']=='fixed']
out=[]
out.append("## 10. Defects found in 1Password/typeshare and how each was handled\n")
out.append("Every entry below was first reported by the named check on the then-current tree (the replay\nfile being the proof), then either repaired by one minimal `fix:` commit in /repo — the unedited\n370-test suite passes after every one of them — or, when the repair would change output that a\nsnapshot expectation pins (expectation files may not be edited) or needs a redesign, recorded as a\nknown finding. `known_findings.json` is the authoritative list; a `fixed` entry suppresses\nnothing, a `known` entry suppresses exactly the listed signatures.\n")
out.append("### 10.1 Repaired (`fix:` commits)\n")
out.append("| property | commit | what failed |\n|---|---|---|")
for f in sorted(fixed,key=lambda f:(f['property'],f['id'])):
    out.append("| %s | `%s` | %s |" % (f['property'], f['commit'], f['description'].replace('|','\\|')))
out.append("\nTwo candidate repairs were tried and **withdrawn** because the unedited suite no longer passed:\nkeying `topsort`'s lookup table by the serde-renamed name (changes the definition order pinned by\nfour `serde_rename_references` snapshots → KF-C11), and porting serde's `apply_to_field` for\n`rename_all` on fields (snapshot `anonymous_struct_with_rename` pins `anotherList` → `another-list`\n→ KF-C16). A Go repair for renamed *unit enums* is pinned by `serde_rename_references/output.go`\n(→ KF-C09); aliases and algebraic enums were repaired.\n")
out.append("### 10.2 Known findings (reported as `KNOWN-FINDING:` lines, exit 0)\n")
out.append("| id | property | what fails | witness | signatures |\n|---|---|---|---|---|")
for f in sorted(known,key=lambda f:(f['property'],f['id'])):
    n=len(f.get('sigs',[])) or (sum(1 for _ in open('/verif/'+f['sigs_file'])) if f.get('sigs_file') else 0)
    out.append("| %s | %s | %s | %s | %d |" % (f['id'], f['property'], f['description'].replace('|','\\|'), f.get('witness','').replace('|','\\|'), n))
out.append("")
print('\n'.join(out))
