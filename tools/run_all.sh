#!/bin/bash
# usage: tools/run_all.sh quick|thorough   -> one line per check; summary kept in docs/timing_<tier>.json
tier=${1:-quick}
cd /verif
tmp=$(mktemp)
echo "{" > $tmp
first=1
for i in ${ORDER:-01 02 03 04 05 06 07 08 09 10 11 12 13 14 15 16 17 18 19 20}; do
  s=$(date +%s.%N)
  out=$(./check C$i --tier $tier 2>&1); rc=$?
  e=$(date +%s.%N)
  wall=$(echo "$e - $s" | bc)
  printf "C%s exit=%d wall=%.1fs  %s\n" $i $rc $wall "$(echo "$out" | grep -c '^KNOWN-FINDING') known, $(echo "$out" | grep -c '^VIOLATION') violations, $(echo "$out" | grep -c '^machinery') machinery"
  [ $first = 1 ] || echo "," >> $tmp; first=0
  printf '"C%s": {"exit": %d, "wall_s": %.1f, "known": %d, "evidence": ' $i $rc $wall "$(echo "$out" | grep -c '^KNOWN-FINDING')" >> $tmp
  jq -c '{evaluations: .coverage.evaluations, states: .coverage.states, transitions: .coverage.transitions, traces: .coverage.traces_validated_against_impl, distinct_nontrivial: .coverage.distinct_nontrivial, exhaustive: .coverage.exhaustive}' evidence/C$i.json >> $tmp
  echo "}" >> $tmp
done
echo "}" >> $tmp
jq -S . $tmp > docs/timing_$tier.json && rm -f $tmp
