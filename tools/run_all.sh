#!/bin/bash
# usage: tools/run_all.sh quick|thorough   -> one line per check: id exit wall
tier=${1:-quick}
cd /verif
for i in 01 02 03 04 05 06 07 08 09 10 11 12 13 14 15 16 17 18 19 20; do
  s=$(date +%s.%N)
  out=$(./check C$i --tier $tier 2>&1); rc=$?
  e=$(date +%s.%N)
  printf "C%s exit=%d wall=%.1fs  %s\n" $i $rc $(echo "$e - $s" | bc) "$(echo "$out" | grep -c '^KNOWN-FINDING') known, $(echo "$out" | grep -c '^VIOLATION') violations, $(echo "$out" | grep -c '^machinery') machinery"
done
