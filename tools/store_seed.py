#!/usr/bin/env python3
"""usage: tools/store_seed.py Cxx --checks "C07 C11" --summary "..." --needs "..."
Confirms a seeded change in its scratch worktree (/tmp/seed/Cxx/wt): the pinned suite passes with it, its
demonstration fails with it and passes without it.  Then applies it to /repo, runs the named checks (quick tier),
undoes it (git checkout), and stores patch.diff, the demonstration, the author's notes and meta.json in
/verif/seeded/Cxx/.  Nothing is committed to /repo."""
import argparse, json, os, re, shutil, subprocess, sys, time

ap = argparse.ArgumentParser()
ap.add_argument("id"); ap.add_argument("--checks", default=""); ap.add_argument("--summary", required=True); ap.add_argument("--needs", required=True)
ap.add_argument("--tier", default="quick")
ap.add_argument("--strengthening", default=None, help="what was added to the checks because this change was missed at first")
ap.add_argument("--dir", default="/tmp/seed", help="where the seed directories live")
ap.add_argument("--name", default=None, help="directory name under /verif/seeded (default: the id)")
ap.add_argument("--demo-crate", default="core:typeshare-core", help="<dir>:<package> a seeded_demo.rs test file belongs to")
a = ap.parse_args()
S = f"{a.dir}/{a.id}"; W = f"{S}/wt"; D = f"/verif/seeded/{a.name or a.id}"
env = dict(os.environ, CARGO_TARGET_DIR=f"{S}/target", CARGO_NET_OFFLINE="true")
def sh(cmd, cwd=None, env=env, timeout=3600):
    p = subprocess.run(cmd, shell=True, cwd=cwd, env=env, capture_output=True, text=True, timeout=timeout)
    return p.returncode, p.stdout + p.stderr
def clean():
    sh("git checkout -q -- . && git clean -fdq", W)
SUITE = "cargo nextest run --workspace --no-fail-fast --test-threads 8 --offline"
def demo():
    for script in ("run_demo.sh", "demo.sh", "run.sh"):
        if os.path.exists(f"{S}/demo/{script}"):
            rc, out = sh(f"bash ./{script}", f"{S}/demo")
            return {"command": f"cd {S}/demo && bash ./{script}", "exit": rc, "tail": out.strip().splitlines()[-3:]}
    cdir, pkg = a.demo_crate.split(":")
    os.makedirs(f"{W}/{cdir}/tests", exist_ok=True)
    shutil.copy(f"{S}/demo/seeded_demo.rs", f"{W}/{cdir}/tests/seeded_demo.rs")
    rc, out = sh(f"cargo test -p {pkg} --test seeded_demo --offline", W)
    os.remove(f"{W}/{cdir}/tests/seeded_demo.rs")
    res = [l for l in out.splitlines() if l.startswith("test result")]
    return {"command": f"cp demo/seeded_demo.rs {cdir}/tests/ && cargo test -p {pkg} --test seeded_demo --offline", "exit": rc, "tail": res[-1:]}
clean()
rc, out = sh(f"git apply {S}/patch.diff", W)
if rc: sys.exit("patch does not apply: " + out)
rc, out = sh(SUITE, W)
suite = [l.strip() for l in out.splitlines() if "Summary" in l][-1:]
suite_ok = rc == 0 and bool(suite) and "370 passed" in suite[0]
d_with = demo(); clean(); d_without = demo(); clean()
confirmed = suite_ok and d_with["exit"] != 0 and d_without["exit"] == 0
print(f"suite: {suite} ok={suite_ok}; demo with change exit={d_with['exit']}; without exit={d_without['exit']}; confirmed={confirmed}")
# checks on /repo
e2 = {k: v for k, v in os.environ.items() if k not in ("CARGO_TARGET_DIR", "RUSTFLAGS")}
rc, out = sh(f"git apply {S}/patch.diff", "/repo", e2)
if rc: sys.exit("patch does not apply to /repo: " + out)
results = {}
try:
    for c in a.checks.split():
        t = time.time(); rc, out = sh(f"./check {c} --tier {a.tier}", "/verif", e2)
        sigs = [l.strip()[len("signature: "):] for l in out.splitlines() if l.strip().startswith("signature: ")]
        crash = [l.strip() for l in out.splitlines() if l.strip().startswith("crash:")]
        results[c] = {"command": f"/verif/check {c} --tier {a.tier}", "exit": rc, "violation_lines": sum(1 for l in out.splitlines() if l.startswith("VIOLATION")), "first_signatures": sigs[:5] + crash[:1], "wall_s": round(time.time() - t, 1)}
        print(f"check {c}: exit={rc} violations={results[c]['violation_lines']}")
finally:
    sh("git checkout -q -- .", "/repo", e2)
rc, out = sh("git status --short", "/repo", e2)
assert out.strip() == "", "repo not clean: " + out
os.makedirs(D, exist_ok=True)
shutil.copy(f"{S}/patch.diff", f"{D}/patch.diff")
if os.path.exists(f"{S}/NOTES.md"): shutil.copy(f"{S}/NOTES.md", f"{D}/NOTES.md")
if os.path.isdir(f"{D}/demo"): shutil.rmtree(f"{D}/demo")
shutil.copytree(f"{S}/demo", f"{D}/demo", ignore=shutil.ignore_patterns("work", "target", "*.log", "out*", "tmp*"))
meta = {"property": a.id, "summary": a.summary, "needs_to_manifest": a.needs, "author": "fresh sub-agent given only the property text and a scratch worktree",
        "confirmed_in_scratch_worktree": {"suite_command": SUITE, "suite_with_change": suite, "demo_with_change": d_with, "demo_without_change": d_without, "confirmed": confirmed},
        "checks_run_with_change_applied_to_repo": results, "detected_by": [c for c, r in results.items() if r["exit"] == 1 and r["violation_lines"] > 0],
        "how_to_rerun": f"git -C /repo apply /verif/seeded/{a.name or a.id}/patch.diff && /verif/check <id>; git -C /repo checkout -- ."}
old = {}
if os.path.exists(f"{D}/meta.json"):
    try: old = json.load(open(f"{D}/meta.json"))
    except Exception: old = {}
st = a.strengthening or old.get("strengthening")
if st: meta["strengthening"] = st
if old.get("first_evaluation"): meta["first_evaluation"] = old["first_evaluation"]
json.dump(meta, open(f"{D}/meta.json", "w"), indent=1)
print("stored", D, "detected_by", meta["detected_by"])
