#!/usr/bin/env python3
"""usage: tools/mkprompts.py <previous round dir> <new round dir>
Writes <new>/Cxx/PROMPT.txt and PROPERTY.txt for the next seeding round from the previous round's prompts: same text,
new paths, and the diversity paragraph rebuilt from the summaries of every change stored so far for that property."""
import sys, re, os, json, glob, shutil
prev, new = sys.argv[1].rstrip('/'), sys.argv[2].rstrip('/')
words = ["zero","one","two","three","four","five","six","seven","eight","nine","ten","eleven","twelve","thirteen","fourteen","fifteen","sixteen"]
for i in range(1, 21):
    pid = f"C{i:02d}"
    t = open(f"{prev}/{pid}/PROMPT.txt").read().replace(prev + "/", new + "/")
    metas = sorted(glob.glob(f"/verif/seeded/{pid}*/meta.json"), key=lambda p: (len(os.path.basename(os.path.dirname(p))), p))
    metas = [m for m in metas if json.load(open(m))["property"] == pid]
    summ = [json.load(open(m))["summary"] for m in metas]
    n = len(summ)
    lst = "; ".join(f"({k+1}) «{s}»" for k, s in enumerate(summ))
    t2, c = re.subn(r"IMPORTANT — diversity: \w+ other engineers have already produced changes for this same property: .*?\. Do NOT repeat",
                    lambda m: f"IMPORTANT — diversity: {words[n]} other engineers have already produced changes for this same property: {lst}. Do NOT repeat", t, flags=re.S)
    assert c == 1, pid
    t2 = re.sub(r"cross out what the \w+ touched", f"cross out what the {words[n]} touched", t2)
    os.makedirs(f"{new}/{pid}", exist_ok=True)
    open(f"{new}/{pid}/PROMPT.txt", "w").write(t2)
    shutil.copy(f"{prev}/{pid}/PROPERTY.txt", f"{new}/{pid}/PROPERTY.txt")
    print(pid, n, "earlier changes listed;", len(t2), "chars")
