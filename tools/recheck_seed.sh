#!/bin/bash
# usage: tools/recheck_seed.sh <seed name> [checks…]   applies seeded/<name>/patch.diff to /repo, runs the checks (default: its detected_by), undoes it
name=$1; shift
checks=${*:-$(jq -r '.detected_by | join(" ")' /verif/seeded/$name/meta.json)}
[ -z "$checks" ] && checks=$(jq -r .property /verif/seeded/$name/meta.json)
git -C /repo apply /verif/seeded/$name/patch.diff || { echo "$name: PATCH DOES NOT APPLY"; exit 2; }
for c in $checks; do
  out=$(/verif/check $c --tier ${TIER:-quick} 2>&1); rc=$?
  echo "$name: check $c exit=$rc violations=$(echo "$out" | grep -c '^VIOLATION')"
done
git -C /repo checkout -q -- .
git -C /repo status --short | head -3
