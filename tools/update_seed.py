#!/usr/bin/env python3
"""usage: tools/update_seed.py <seed name> --checks "C04 C05" [--strengthening "..."] [--first missed|caught|"caught by Cxx only"]
Re-evaluates a stored seeded change after the checks were strengthened: applies seeded/<name>/patch.diff to /repo,
runs the named checks (quick tier), undoes it, and rewrites the evaluation part of meta.json. The confirmation recorded
when the seed was first stored (suite green, demonstration fails with / passes without the change) is kept as it is."""
import argparse, json, os, subprocess, sys, time

ap = argparse.ArgumentParser()
ap.add_argument("name"); ap.add_argument("--checks", required=True); ap.add_argument("--strengthening", default=None)
ap.add_argument("--first", default=None); ap.add_argument("--tier", default="quick")
a = ap.parse_args()
D = f"/verif/seeded/{a.name}"
meta = json.load(open(f"{D}/meta.json"))
env = {k: v for k, v in os.environ.items() if k not in ("CARGO_TARGET_DIR", "RUSTFLAGS")}
def sh(cmd, cwd):
    p = subprocess.run(cmd, shell=True, cwd=cwd, env=env, capture_output=True, text=True, timeout=3600)
    return p.returncode, p.stdout + p.stderr
rc, out = sh("git status --short", "/repo")
if out.strip(): sys.exit("/repo not clean: " + out)
if a.first and not meta.get("first_evaluation"):
    meta["first_evaluation"] = a.first
rc, out = sh(f"git apply {D}/patch.diff", "/repo")
if rc: sys.exit("patch does not apply to /repo: " + out)
results = dict(meta.get("checks_run_with_change_applied_to_repo", {}))
try:
    for c in a.checks.split():
        t = time.time(); rc, out = sh(f"./check {c} --tier {a.tier}", "/verif")
        sigs = [l.strip()[len("signature: "):] for l in out.splitlines() if l.strip().startswith("signature: ")]
        crash = [l.strip() for l in out.splitlines() if l.strip().startswith("crash:")]
        results[c] = {"command": f"/verif/check {c} --tier {a.tier}", "exit": rc, "violation_lines": sum(1 for l in out.splitlines() if l.startswith("VIOLATION")), "first_signatures": sigs[:5] + crash[:1], "wall_s": round(time.time() - t, 1)}
        print(f"{a.name}: check {c}: exit={rc} violations={results[c]['violation_lines']}")
finally:
    sh("git checkout -q -- .", "/repo")
rc, out = sh("git status --short", "/repo")
assert out.strip() == "", "repo not clean: " + out
meta["checks_run_with_change_applied_to_repo"] = results
meta["detected_by"] = [c for c, r in results.items() if r["exit"] == 1 and r["violation_lines"] > 0]
if a.strengthening: meta["strengthening"] = a.strengthening
json.dump(meta, open(f"{D}/meta.json", "w"), indent=1)
print("updated", D, "detected_by", meta["detected_by"])
